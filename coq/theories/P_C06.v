(* P_C06.v — property C06 in its observational form: a rejected Provide /
   Decorate (or a malformed call) leaves no trace: every later operation behaves
   exactly as if the rejected call had never been made.

   Part 1  [verified] is only an optimisation.  [Eqv] = [same_but_verified].
           Reads of an erased state ([E_*]), [eval_E] (the evaluator commutes
           with [erase_verified]: it never reads a flag), [eval_eqv],
           [step_E] / [step_eqv] (every operation gives the same verdict, the
           same new events and Eqv states on Eqv states that satisfy [VInv]),
           [run_from_eqv].
   Part 2  the main theorems: [rejected_step] (a rejected registration emits
           nothing and leaves an Eqv state), [C06_single] ((a) + (b)),
           [filter_accepted], [C06_obs] (any number of rejections),
           [chk_C06_ok] (the checker form).
   Part 3  corollaries: [C06_later_same], [C06_later_provide],
           [C06_rejected_never_executed].
   Example by vm_compute at the end. *)
From Dig Require Import Base Sig State Graph GraphProofs Register Resolve Run EvalInd Spec Check
  P_Events P_Once P_Frame.

Notation E := erase_verified.

Definition Eqv (s1 s2 : state) : Prop := same_but_verified s1 s2.

Lemma Eqv_iff s1 s2 : Eqv s1 s2 <-> E s1 = E s2.
Proof. apply same_but_verified_iff. Qed.

Lemma Eqv_refl s : Eqv s s.
Proof. apply sbv_refl. Qed.
Lemma Eqv_sym a b : Eqv a b -> Eqv b a.
Proof. apply sbv_sym. Qed.
Lemma Eqv_trans a b c : Eqv a b -> Eqv b c -> Eqv a c.
Proof. apply sbv_trans. Qed.

Lemma Eqv_E st : Eqv (E st) st.
Proof.
  apply Eqv_iff. unfold erase_verified. cbn [st_scopes set_scopes].
  rewrite map_map. destruct st; reflexivity.
Qed.

Lemma E_idem st : E (E st) = E st.
Proof. apply Eqv_iff. apply Eqv_E. Qed.

Lemma Eqv_log s1 s2 : Eqv s1 s2 -> st_log s1 = st_log s2.
Proof. intros H. apply H. Qed.

Lemma Eqv_scopes_len s1 s2 : Eqv s1 s2 -> length (st_scopes s1) = length (st_scopes s2).
Proof. intros H. apply H. Qed.

(* ================================================================== *)
(* Part 1a : reading an erased state                                   *)
(* ================================================================== *)

Lemma E_scopes_len st : length (st_scopes (E st)) = length (st_scopes st).
Proof. unfold erase_verified. cbn [st_scopes set_scopes]. apply map_length. Qed.

Lemma E_get_node st n : get_node (E st) n = get_node st n.
Proof. reflexivity. Qed.
Lemma E_get_dec st d : get_dec (E st) d = get_dec st d.
Proof. reflexivity. Qed.
Lemma E_clock st : st_clock (E st) = st_clock st.
Proof. reflexivity. Qed.
Lemma E_log st : st_log (E st) = st_log st.
Proof. reflexivity. Qed.
Lemma E_eval_fuel st : eval_fuel (E st) = eval_fuel st.
Proof. reflexivity. Qed.

Lemma E_path_fuel st : forall f s, path_fuel f (E st) s = path_fuel f st s.
Proof.
  induction f as [|f IH]; intros s; cbn [path_fuel]; [reflexivity|].
  rewrite get_scope_erase. cbn [s_parent sc_set_verified].
  destruct (s_parent (get_scope st s)); [rewrite IH|]; reflexivity.
Qed.

Lemma E_path st s : path (E st) s = path st s.
Proof. unfold path. rewrite E_scopes_len. apply E_path_fuel. Qed.

Lemma flat_map_ext' {A B} (f g : A -> list B) l :
  (forall x, f x = g x) -> flat_map f l = flat_map g l.
Proof. intros H. induction l as [|h t IH]; cbn; [reflexivity|]. now rewrite H, IH. Qed.

Lemma find_map_ext' {A B} (f g : A -> option B) l :
  (forall x, f x = g x) -> find_map f l = find_map g l.
Proof. intros H. induction l as [|h t IH]; cbn; [reflexivity|]. now rewrite H, IH. Qed.

Lemma E_subtree_fuel st : forall f s, subtree_fuel f (E st) s = subtree_fuel f st s.
Proof.
  induction f as [|f IH]; intros s; cbn [subtree_fuel]; [reflexivity|].
  rewrite get_scope_erase. cbn [s_children sc_set_verified].
  f_equal. apply flat_map_ext'. exact IH.
Qed.

Lemma E_subtree st s : subtree (E st) s = subtree st s.
Proof. unfold subtree. rewrite E_scopes_len. apply E_subtree_fuel. Qed.

Lemma E_providers_at st b k : providers_at (E st) b k = providers_at st b k.
Proof. unfold providers_at. rewrite get_scope_erase. reflexivity. Qed.

Lemma E_providers_on_path st a k : providers_on_path (E st) a k = providers_on_path st a k.
Proof.
  unfold providers_on_path. rewrite E_path. apply flat_map_ext'. intros x. apply E_providers_at.
Qed.

Lemma E_has_provider st v k : has_provider (E st) v k = has_provider st v k.
Proof. unfold has_provider. rewrite E_providers_on_path. reflexivity. Qed.

Lemma E_shallow_missing st v ls : shallow_missing (E st) v ls = shallow_missing st v ls.
Proof.
  unfold shallow_missing. apply flat_map_ext'. intros [k [|]|k s]; try reflexivity.
  rewrite E_has_provider, get_scope_erase. reflexivity.
Qed.

Lemma E_find_dec st v k : find_dec (E st) v k = find_dec st v k.
Proof.
  unfold find_dec. rewrite E_path. apply find_map_ext'. intros x.
  rewrite get_scope_erase. reflexivity.
Qed.

Lemma E_find_provider st k : forall bs, find_provider (E st) bs k = find_provider st bs k.
Proof.
  induction bs as [|x t IH]; cbn [find_provider]; [reflexivity|].
  rewrite get_scope_erase, E_providers_at, IH. reflexivity.
Qed.

Lemma E_find_dvalues st k l :
  find_map (fun s => alookup key_eqb k (s_dvalues (get_scope (E st) s))) l =
  find_map (fun s => alookup key_eqb k (s_dvalues (get_scope st s))) l.
Proof. apply find_map_ext'. intros x. rewrite get_scope_erase. reflexivity. Qed.

Lemma E_find_dgroups st k l :
  find_map (fun s => alookup key_eqb k (s_dgroups (get_scope (E st) s))) l =
  find_map (fun s => alookup key_eqb k (s_dgroups (get_scope st s))) l.
Proof. apply find_map_ext'. intros x. rewrite get_scope_erase. reflexivity. Qed.

Lemma E_flat_groups st k l :
  flat_map (fun s => alookup_list key_eqb k (s_groups (get_scope (E st) s))) l =
  flat_map (fun s => alookup_list key_eqb k (s_groups (get_scope st s))) l.
Proof. apply flat_map_ext'. intros x. rewrite get_scope_erase. reflexivity. Qed.

Lemma E_scope_graph st a : scope_graph (E st) a = scope_graph st a.
Proof. apply scope_graph_skel. apply skel_erase. Qed.

Lemma Eqv_scope_graph s1 s2 a : Eqv s1 s2 -> scope_graph s1 a = scope_graph s2 a.
Proof. intros H. apply scope_graph_skel. apply sbv_skel. exact H. Qed.

(* ---------- writers commute with E ---------- *)

Lemma E_set_onstack st n x : set_onstack (E st) n x = E (set_onstack st n x).
Proof. reflexivity. Qed.
Lemma E_set_called st n : set_called (E st) n = E (set_called st n).
Proof. reflexivity. Qed.
Lemma E_set_dstate st d x : set_dstate (E st) d x = E (set_dstate st d x).
Proof. reflexivity. Qed.
Lemma E_add_event ev st : add_event ev (E st) = E (add_event ev st).
Proof. reflexivity. Qed.
Lemma E_callback has f c start st : callback has f c start (E st) = E (callback has f c start st).
Proof. destruct has; reflexivity. Qed.

Lemma E_upd_scope st a f :
  (forall c, sc_set_verified false (f c) = f (sc_set_verified false c)) ->
  upd_scope (E st) a f = E (upd_scope st a f).
Proof. intros H. symmetry. apply E_upd_comm. exact H. Qed.

Lemma commit_results_E dry f e lens rs : forall slot c,
  sc_set_verified false (commit_results dry f e lens slot rs c) =
  commit_results dry f e lens slot rs (sc_set_verified false c).
Proof.
  induction rs as [|[ks|ks [|]] t IH]; intros slot c; cbn [commit_results]; [reflexivity| | |];
    rewrite IH; reflexivity.
Qed.

Lemma commit_decorated_E dry f e lens rs : forall slot c,
  sc_set_verified false (commit_decorated dry f e lens slot rs c) =
  commit_decorated dry f e lens slot rs (sc_set_verified false c).
Proof.
  induction rs as [|[[|k ks]|[|k ks] fl] t IH]; intros slot c; cbn [commit_decorated];
    [reflexivity| | | |]; rewrite IH; reflexivity.
Qed.

Definition Ep {A : Type} (o : A * state) : A * state := (fst o, E (snd o)).

Lemma E_run_fn cfg b du r f args st :
  run_fn cfg b du r f args (E st) = Ep (run_fn cfg b du r f args st).
Proof. unfold run_fn, Ep. destruct (cfg_dry cfg); reflexivity. Qed.

(* ================================================================== *)
(* Part 1b : the evaluator commutes with E                             *)
(* ================================================================== *)

Section EvalE.
  Variables (cfg : config) (b : beh) (du : dur).

  Section Step.
    Variable rec : task -> state -> out.
    Hypothesis IH : forall t st, rec t (E st) = Ep (rec t st).

    Lemma call_ctors_E ns : forall st, call_ctors rec ns (E st) = Ep (call_ctors rec ns st).
    Proof.
      induction ns as [|n t IHn]; intros st; cbn [call_ctors]; [reflexivity|].
      rewrite IH. unfold Ep at 1.
      destruct (rec (TCallCtor n) st) as [[a|e|a] st1]; cbn [fst snd]; [apply IHn| |]; reflexivity.
    Qed.

    Lemma call_group_decs_E k bs : forall st,
      call_group_decs rec k bs (E st) = Ep (call_group_decs rec k bs st).
    Proof.
      induction bs as [|s t IHb]; intros st; cbn [call_group_decs]; [reflexivity|].
      rewrite get_scope_erase. cbn [s_decorators sc_set_verified].
      destruct (alookup key_eqb k (s_decorators (get_scope st s))) as [d|]; [|apply IHb].
      rewrite E_get_dec.
      destruct (dstate_eqb (d_state (get_dec st d)) DOnStack); [apply IHb|].
      rewrite IH. unfold Ep at 1.
      destruct (rec (TCallDec d) st) as [[a|e|a] st1]; cbn [fst snd]; [apply IHb| |]; reflexivity.
    Qed.

    Lemma build_list_E v ls : forall st, build_list rec v ls (E st) = Ep (build_list rec v ls st).
    Proof.
      induction ls as [|l t IHl]; intros st; cbn [build_list]; [reflexivity|].
      rewrite IH. unfold Ep at 1.
      destruct (rec (TLeaf v l) st) as [[a|e|a] st1]; cbn [fst snd]; try reflexivity.
      rewrite IHl. unfold Ep.
      destruct (build_list rec v t st1) as [[r|e|a'] st2]; reflexivity.
    Qed.

    Lemma build_single_E v k opt st :
      build_single rec v k opt (E st) = Ep (build_single rec v k opt st).
    Proof.
      unfold build_single. rewrite E_find_dec.
      destruct (find_dec st v k) as [[d bsc]|].
      - rewrite IH. unfold Ep at 1.
        destruct (rec (TCallDec d) st) as [[a|e|a] st1]; cbn [fst snd]; try reflexivity.
        rewrite get_scope_erase. cbn [s_dvalues sc_set_verified].
        destruct (alookup key_eqb k (s_dvalues (get_scope st1 bsc))); reflexivity.
      - rewrite E_path, E_find_dvalues.
        destruct (find_map _ (path st v)); [reflexivity|].
        rewrite E_find_provider.
        destruct (find_provider st (path st v) k) as [a|bsc ns|]; [reflexivity| |destruct opt; reflexivity].
        rewrite call_ctors_E. unfold Ep at 1.
        destruct (call_ctors rec ns st) as [[|c e|a] st1]; cbn [fst snd].
        + rewrite get_scope_erase. cbn [s_values sc_set_verified].
          destruct (alookup key_eqb k (s_values (get_scope st1 bsc))); reflexivity.
        + destruct (opt && has_missingdeps e); reflexivity.
        + reflexivity.
    Qed.

    Lemma build_group_E v k soft st :
      build_group rec v k soft (E st) = Ep (build_group rec v k soft st).
    Proof.
      unfold build_group. rewrite E_path, call_group_decs_E. unfold Ep at 1.
      destruct (call_group_decs rec k (rev (path st v)) st) as [[|c e|a] st1]; cbn [fst snd];
        try reflexivity.
      rewrite E_path, E_find_dgroups.
      destruct (find_map _ (path st1 v)); [reflexivity|].
      destruct soft.
      - rewrite E_flat_groups, E_path. reflexivity.
      - rewrite E_providers_on_path, call_ctors_E. unfold Ep at 1.
        destruct (call_ctors rec (providers_on_path st1 v k) st1) as [[|c e|a] st2]; cbn [fst snd];
          try reflexivity.
        rewrite E_path, E_flat_groups. reflexivity.
    Qed.

    Lemma call_ctor_E n st : call_ctor cfg b du rec n (E st) = Ep (call_ctor cfg b du rec n st).
    Proof.
      unfold call_ctor. rewrite !E_get_node.
      destruct (c_called (get_node st n)); [reflexivity|].
      destruct (c_onstack (get_node st n)); [reflexivity|].
      rewrite E_set_onstack, E_shallow_missing.
      destruct (shallow_missing (set_onstack st n true) _ _); [|reflexivity].
      rewrite IH. unfold Ep at 1.
      destruct (rec _ (set_onstack st n true)) as [[built|e|a] st1]; cbn [fst snd]; try reflexivity.
      rewrite E_run_fn. unfold Ep at 1.
      destruct (run_fn cfg b du RoleCtor _ _ st1) as [[o e] st2]; cbn [fst snd].
      destruct o as [lens| |]; [| |destruct (cfg_recover cfg)].
      - rewrite E_upd_scope by (intros c; apply commit_results_E).
        rewrite E_set_called, E_clock, E_callback, E_set_onstack. reflexivity.
      - rewrite E_clock, E_callback, E_set_onstack. reflexivity.
      - rewrite E_clock, E_callback, E_set_onstack. reflexivity.
      - rewrite E_clock, E_callback, E_set_onstack. reflexivity.
    Qed.

    Lemma call_dec_E d st : call_dec cfg b du rec d (E st) = Ep (call_dec cfg b du rec d st).
    Proof.
      unfold call_dec. rewrite !E_get_dec.
      destruct (dstate_eqb (d_state (get_dec st d)) DCalled); [reflexivity|].
      rewrite E_set_dstate, E_shallow_missing.
      destruct (shallow_missing (set_dstate st d DOnStack) _ _); [|reflexivity].
      rewrite IH. unfold Ep at 1.
      destruct (rec _ (set_dstate st d DOnStack)) as [[built|e|a] st1]; cbn [fst snd]; try reflexivity.
      rewrite E_run_fn. unfold Ep at 1.
      destruct (run_fn cfg b du RoleDec _ _ st1) as [[o e] st2]; cbn [fst snd].
      destruct o as [lens| |]; [| |destruct (cfg_recover cfg)].
      - rewrite E_upd_scope by (intros c; apply commit_decorated_E).
        rewrite E_set_dstate, E_clock, E_callback. reflexivity.
      - rewrite E_set_dstate, E_clock, E_callback. reflexivity.
      - rewrite E_set_dstate, E_clock, E_callback. reflexivity.
      - rewrite E_set_dstate, E_clock, E_callback. reflexivity.
    Qed.

    Lemma evalF_E t st : evalF cfg b du rec t (E st) = Ep (evalF cfg b du rec t st).
    Proof.
      destruct t as [v [k opt|k soft]|v ls|n|d]; cbn [evalF].
      - apply build_single_E.
      - apply build_group_E.
      - apply build_list_E.
      - apply call_ctor_E.
      - apply call_dec_E.
    Qed.
  End Step.

  (* the evaluator never reads a flag: it commutes with erasing them *)
  Theorem eval_E : forall fuel t st, eval cfg b du fuel t (E st) = Ep (eval cfg b du fuel t st).
  Proof.
    induction fuel as [|f IHf]; intros t st; cbn [eval]; [reflexivity|].
    apply evalF_E. exact IHf.
  Qed.

  (* ... hence on Eqv states it returns equal results and Eqv states *)
  Theorem eval_eqv fuel t s1 s2 : Eqv s1 s2 ->
    fst (eval cfg b du fuel t s1) = fst (eval cfg b du fuel t s2) /\
    Eqv (snd (eval cfg b du fuel t s1)) (snd (eval cfg b du fuel t s2)).
  Proof.
    intros H. apply Eqv_iff in H.
    pose proof (eval_E fuel t s1) as H1. pose proof (eval_E fuel t s2) as H2.
    rewrite H in H1. rewrite H1 in H2. unfold Ep in H2.
    split; [congruence|]. apply Eqv_iff. congruence.
  Qed.
End EvalE.
Print Assumptions eval_E.
Print Assumptions eval_eqv.

(* ================================================================== *)
(* Part 1c : every operation, on a state and on its erasure            *)
(* ================================================================== *)

Definition agree {A : Type} (o1 o2 : A * state) : Prop :=
  fst o1 = fst o2 /\ E (snd o1) = E (snd o2).

Lemma agree_refl {A} (o : A * state) : agree o o.
Proof. split; reflexivity. Qed.

Lemma agree_Ep {A} (o : A * state) : agree (Ep o) o.
Proof. split; [reflexivity|]. unfold Ep. cbn [snd]. apply E_idem. Qed.

Lemma agree_trans {A} (a b c : A * state) : agree a b -> agree b c -> agree a c.
Proof. intros [H1 H2] [H3 H4]. split; congruence. Qed.

Lemma agree_sym {A} (a b : A * state) : agree a b -> agree b a.
Proof. intros [H1 H2]. split; congruence. Qed.

(* ---------- Scope() ---------- *)

Lemma new_scope_E st p : new_scope (E st) p = E (new_scope st p).
Proof.
  unfold new_scope. rewrite E_scopes_len, get_scope_erase. cbn [s_gnodes sc_set_verified].
  rewrite <- E_upd_scope by (intros c; reflexivity). f_equal.
  unfold erase_verified. cbn [set_scopes st_scopes]. rewrite map_app. reflexivity.
Qed.

(* ---------- Decorate ---------- *)

Lemma decorate_E st s p : decorate (E st) s p = Ep (decorate st s p).
Proof.
  unfold decorate. rewrite get_scope_erase. cbn [s_decorators sc_set_verified].
  destruct (negb _ || existsb _ _); [reflexivity|].
  unfold Ep. cbn [fst snd]. f_equal.
  rewrite <- E_upd_scope by (intros c; reflexivity). reflexivity.
Qed.

(* ---------- Provide ---------- *)

Lemma verify_loop_agree2 d A : forall x y, E x = E y ->
  agree (verify_loop d A x) (verify_loop d A y).
Proof.
  induction A as [|a t IHA]; intros x y H; cbn [verify_loop].
  - split; [reflexivity|exact H].
  - assert (H1 : E (upd_scope x a (sc_set_verified false)) = E (upd_scope y a (sc_set_verified false))).
    { rewrite !E_upd_verified. exact H. }
    destruct d; [apply IHA; exact H1|].
    rewrite (Eqv_scope_graph _ _ a (proj2 (Eqv_iff _ _) H1)).
    destruct (is_acyclic (scope_graph (upd_scope y a (sc_set_verified false)) a)) as [[[|] c]|].
    + apply IHA. rewrite !E_upd_verified. exact H.
    + split; [reflexivity|exact H1].
    + split; [reflexivity|exact H1].
Qed.

Lemma verify_loop_agree d A st : agree (verify_loop d A (E st)) (verify_loop d A st).
Proof. apply verify_loop_agree2. apply E_idem. Qed.

Lemma fold_append_E gs A st :
  fold_left (append_gnodes gs) A (E st) = E (fold_left (append_gnodes gs) A st).
Proof. symmetry. apply E_fold_append. Qed.

Lemma rollback_E snap st : rollback_gnodes snap (E st) = E (rollback_gnodes snap st).
Proof. symmetry. apply E_rollback. Qed.

Lemma set_nodes_E st N : set_nodes (E st) N = E (set_nodes st N).
Proof. reflexivity. Qed.

Lemma E_cong_upd s f x y :
  (forall c, sc_set_verified false (f c) = f (sc_set_verified false c)) ->
  E x = E y -> E (upd_scope x s f) = E (upd_scope y s f).
Proof. intros Hf H. rewrite <- !E_upd_scope by exact Hf. rewrite H. reflexivity. Qed.

Lemma E_cong_rollback snap x y : E x = E y -> E (rollback_gnodes snap x) = E (rollback_gnodes snap y).
Proof. intros H. rewrite <- !rollback_E. rewrite H. reflexivity. Qed.

Lemma E_cong_set_nodes N x y : E x = E y -> E (set_nodes x N) = E (set_nodes y N).
Proof. intros H. rewrite <- !set_nodes_E. rewrite H. reflexivity. Qed.

Lemma provide_agree cfg st s0 p : agree (provide cfg (E st) s0 p) (provide cfg st s0 p).
Proof.
  unfold provide. cbv zeta.
  rewrite E_subtree, snapshot_erase.
  change (st_nodes (E st)) with (st_nodes st).
  rewrite set_nodes_E, fold_append_E, get_scope_erase. cbn [s_providers sc_set_verified].
  set (s := if pi_export p then 0 else s0).
  set (A := subtree st s).
  set (st2 := fold_left _ A _).
  destruct (dup_check _ _ _).
  { rewrite rollback_E, set_nodes_E. apply (agree_Ep (VErr err_dup, _)). }
  destruct (is_nil _).
  { rewrite rollback_E, set_nodes_E. apply (agree_Ep (VErr err_noresults, _)). }
  rewrite E_upd_scope by (intros c; reflexivity).
  match goal with |- context [verify_loop ?d A (E ?x)] =>
    destruct (verify_loop_agree d A x) as [Hr HE];
    destruct (verify_loop d A (E x)) as [r1 st4'];
    destruct (verify_loop d A x) as [r2 st4] end.
  cbn [fst snd] in Hr, HE. subst r2.
  destruct r1 as [[a|]|e|a]; split; cbn [fst snd]; try reflexivity; try exact HE.
  - apply E_cong_set_nodes, E_cong_rollback, E_cong_upd; [intros c; reflexivity|exact HE].
  - apply E_cong_upd; [intros c; reflexivity|exact HE].
Qed.

(* ---------- Invoke ---------- *)

Lemma invoke_tail_E cfg b du s p st :
  invoke_tail cfg b du s p (E st) = Ep (invoke_tail cfg b du s p st).
Proof.
  unfold invoke_tail. rewrite E_eval_fuel, eval_E. unfold Ep at 1.
  destruct (eval cfg b du (eval_fuel st) _ st) as [[built|e|a] st2]; cbn [fst snd]; try reflexivity.
  rewrite E_run_fn. unfold Ep at 1.
  destruct (run_fn cfg b du RoleInv _ _ st2) as [[o e] st3]; cbn [fst snd].
  destruct o; [| |destruct (cfg_recover cfg)]; reflexivity.
Qed.

Lemma invoke_tail_agree cfg b du s p x y : E x = E y ->
  agree (invoke_tail cfg b du s p x) (invoke_tail cfg b du s p y).
Proof.
  intros H.
  apply agree_trans with (Ep (invoke_tail cfg b du s p x)); [apply agree_sym, agree_Ep|].
  rewrite <- invoke_tail_E, H, invoke_tail_E. apply agree_Ep.
Qed.

Lemma invoke_agree cfg b du st s p : VInv st ->
  agree (invoke cfg b du (E st) s p) (invoke cfg b du st s p).
Proof.
  intros HV. rewrite !invoke_unfold. rewrite E_shallow_missing.
  destruct (shallow_missing st s _); [|apply (agree_Ep (_, st))].
  rewrite get_scope_erase. cbn [s_verified sc_set_verified]. rewrite E_scope_graph.
  destruct (s_verified (get_scope st s)) eqn:Hf.
  - rewrite (HV s Hf). apply invoke_tail_agree.
    rewrite E_upd_verified. apply E_idem.
  - destruct (is_acyclic (scope_graph st s)) as [[[|] c]|].
    + apply invoke_tail_agree. rewrite !E_upd_verified. apply E_idem.
    + apply (agree_Ep (_, st)).
    + apply (agree_Ep (_, st)).
Qed.

(* ---------- all operations ---------- *)

Theorem step_E cfg b du st o : VInv st ->
  agree (step cfg b du (E st) o) (step cfg b du st o).
Proof.
  intros HV. destruct o as [q|s q|s q|s q|k s f]; cbn [step].
  - rewrite new_scope_E. apply (agree_Ep (VOk, _)).
  - apply provide_agree.
  - rewrite decorate_E. apply agree_Ep.
  - apply invoke_agree. exact HV.
  - apply (agree_Ep (_, st)).
Qed.
Print Assumptions step_E.

(* [verified] is only an optimisation: on two states that differ only in the
   flags, and whose set flags are justified (VInv), every operation gives the
   same verdict, emits the same events, and leaves states that again differ
   only in the flags *)
Theorem step_eqv cfg b du s1 s2 o :
  VInv s1 -> VInv s2 -> Eqv s1 s2 ->
  fst (step cfg b du s1 o) = fst (step cfg b du s2 o) /\
  new_events (st_log s1) (st_log (snd (step cfg b du s1 o))) =
  new_events (st_log s2) (st_log (snd (step cfg b du s2 o))) /\
  Eqv (snd (step cfg b du s1 o)) (snd (step cfg b du s2 o)).
Proof.
  intros H1 H2 He.
  pose proof (step_E cfg b du s1 o H1) as A1. pose proof (step_E cfg b du s2 o H2) as A2.
  apply Eqv_iff in He. rewrite He in A1.
  pose proof (agree_trans _ _ _ (agree_sym _ _ A1) A2) as [Hv Hs].
  apply Eqv_iff in Hs. apply Eqv_iff in He.
  split; [exact Hv|]. split; [|exact Hs].
  rewrite (Eqv_log _ _ He), (Eqv_log _ _ Hs). reflexivity.
Qed.
Print Assumptions step_eqv.

(* the form with the full invariant of reachable states: the results satisfy it again *)
Corollary step_eqv_GInv cfg b du s1 s2 o :
  GInv cfg s1 -> GInv cfg s2 -> Eqv s1 s2 -> op_ok (length (st_scopes s1)) o = true ->
  fst (step cfg b du s1 o) = fst (step cfg b du s2 o) /\
  new_events (st_log s1) (st_log (snd (step cfg b du s1 o))) =
  new_events (st_log s2) (st_log (snd (step cfg b du s2 o))) /\
  Eqv (snd (step cfg b du s1 o)) (snd (step cfg b du s2 o)) /\
  GInv cfg (snd (step cfg b du s1 o)) /\ GInv cfg (snd (step cfg b du s2 o)).
Proof.
  intros G1 G2 He Hok.
  destruct (step_eqv cfg b du s1 s2 o (proj1 (proj2 G1)) (proj1 (proj2 G2)) He) as (A & B & C).
  split; [exact A|]. split; [exact B|]. split; [exact C|]. split.
  - apply GInv_step; assumption.
  - apply GInv_step; [assumption|]. rewrite <- (Eqv_scopes_len _ _ He). exact Hok.
Qed.
Print Assumptions step_eqv_GInv.

Theorem run_from_eqv cfg b du h : forall s1 s2,
  GInv cfg s1 -> GInv cfg s2 -> Eqv s1 s2 ->
  wf_scopes_from (length (st_scopes s1)) h = true ->
  fst (run_from cfg b du s1 h) = fst (run_from cfg b du s2 h) /\
  Eqv (snd (run_from cfg b du s1 h)) (snd (run_from cfg b du s2 h)).
Proof.
  induction h as [|o t IH]; intros s1 s2 G1 G2 He Hwf.
  - split; [reflexivity|exact He].
  - rewrite !run_from_cons. cbn [fst snd]. cbn [wf_scopes_from] in Hwf.
    apply andb_true_iff in Hwf. destruct Hwf as [Hok Hwf].
    destruct (step_eqv_GInv cfg b du s1 s2 o G1 G2 He Hok) as (A & B & C & D1 & D2).
    destruct (IH _ _ D1 D2 C) as [I1 I2].
    { rewrite step_scopes_length. exact Hwf. }
    split; [|exact I2]. rewrite A, B, I1. reflexivity.
Qed.
Print Assumptions run_from_eqv.

(* ================================================================== *)
(* Part 2 : a rejected registration leaves no trace                    *)
(* ================================================================== *)

(* the operations C06 speaks about *)
Definition reglike (o : op) : bool :=
  match o with OProvide _ _ | ODecorate _ _ | OBad _ _ _ => true | _ => false end.

Definition is_vok (v : verdict) : bool := match v with VOk => true | _ => false end.

Lemma is_vok_true v : is_vok v = true <-> v = VOk.
Proof. destruct v; cbn; split; intros H; try discriminate; reflexivity. Qed.

Lemma accepted_obs_of ob : accepted (obs_of ob) = is_vok (so_verdict ob).
Proof. destruct ob as [[|e|[f x|c|]] evs]; reflexivity. Qed.

Lemma new_events_same l : new_events l l = [].
Proof. unfold new_events. rewrite Nat.sub_diag. reflexivity. Qed.

(* ---------- one rejected call ---------- *)

Theorem rejected_step cfg b du st r :
  reglike r = true -> fst (step cfg b du st r) <> VOk ->
  Eqv st (snd (step cfg b du st r)) /\
  new_events (st_log st) (st_log (snd (step cfg b du st r))) = [].
Proof.
  intros Hr Hv.
  assert (He : Eqv st (snd (step cfg b du st r))).
  { destruct r as [q|s q|s q|s q|k s f]; try discriminate; cbn [step] in *.
    - destruct (provide cfg st s q) as [[|e|a] st'] eqn:Ep; cbn [fst snd] in *.
      + congruence.
      + eapply provide_rejected_frame_gen; eauto.
      + exfalso. eapply provide_never_aborts; eauto.
    - destruct (decorate st s q) as [[|e|a] st'] eqn:Ed; cbn [fst snd] in *.
      + congruence.
      + apply decorate_rejected_frame in Ed. subst. apply Eqv_refl.
      + exfalso. eapply decorate_never_aborts; eauto.
    - apply Eqv_refl. }
  split; [exact He|]. rewrite <- (Eqv_log _ _ He). apply new_events_same.
Qed.
Print Assumptions rejected_step.

(* ---------- runs of concatenated histories ---------- *)

Lemma run_from_app cfg b du h1 : forall h2 st,
  run_from cfg b du st (h1 ++ h2) =
  (fst (run_from cfg b du st h1) ++ fst (run_from cfg b du (snd (run_from cfg b du st h1)) h2),
   snd (run_from cfg b du (snd (run_from cfg b du st h1)) h2)).
Proof.
  induction h1 as [|o t IH]; intros h2 st.
  - cbn [app run_from fst snd]. destruct (run_from cfg b du st h2); reflexivity.
  - rewrite <- app_comm_cons, !run_from_cons, IH. reflexivity.
Qed.

Lemma run_app cfg b du h1 h2 :
  run cfg b du (h1 ++ h2) = run cfg b du h1 ++ fst (run_from cfg b du (state_after cfg b du h1) h2).
Proof. unfold run, state_after. rewrite run_from_app. reflexivity. Qed.

Lemma run_length cfg b du h : length (run cfg b du h) = length h.
Proof. apply run_from_length. Qed.

Fixpoint count_after (n : nat) (h : history) : nat :=
  match h with [] => n | o :: t => count_after (next_count n o) t end.

Lemma wf_from_app h1 : forall n h2,
  wf_scopes_from n (h1 ++ h2) = true ->
  wf_scopes_from n h1 = true /\ wf_scopes_from (count_after n h1) h2 = true.
Proof.
  induction h1 as [|o t IH]; intros n h2 H; cbn [app wf_scopes_from count_after] in *; [auto|].
  apply andb_true_iff in H. destruct H as [Ho H]. apply IH in H. destruct H as [H1 H2].
  rewrite Ho, H1. auto.
Qed.

Lemma run_from_scopes_len cfg b du h : forall st,
  length (st_scopes (snd (run_from cfg b du st h))) = count_after (length (st_scopes st)) h.
Proof.
  induction h as [|o t IH]; intros st; [reflexivity|].
  rewrite run_from_cons. cbn [snd count_after]. rewrite IH, step_scopes_length. reflexivity.
Qed.

Lemma skipn_app_len {A} (l1 l2 : list A) : skipn (length l1) (l1 ++ l2) = l2.
Proof. induction l1 as [|x t IH]; [reflexivity|exact IH]. Qed.

Lemma firstn_app_len {A} (l1 l2 : list A) : firstn (length l1) (l1 ++ l2) = l1.
Proof. induction l1 as [|x t IH]; cbn; [reflexivity|now rewrite IH]. Qed.

Lemma nth_error_app_len {A} (l1 l2 : list A) x : nth_error (l1 ++ x :: l2) (length l1) = Some x.
Proof. induction l1 as [|y t IH]; [reflexivity|exact IH]. Qed.

(* what a well-scoped history with a registration-like call in the middle gives *)
Lemma split_facts cfg b du h1 r h2 :
  wf_scopes (h1 ++ r :: h2) = true -> reglike r = true ->
  let s := state_after cfg b du h1 in
  wf_scopes h1 = true /\ wf_scopes (h1 ++ h2) = true /\
  GInv cfg s /\ op_ok (length (st_scopes s)) r = true /\
  wf_scopes_from (length (st_scopes s)) h2 = true.
Proof.
  intros Hwf Hr s. unfold wf_scopes in *.
  apply wf_from_app in Hwf. destruct Hwf as [H1 H2].
  cbn [wf_scopes_from] in H2. apply andb_true_iff in H2. destruct H2 as [Ho H2].
  assert (Hn : next_count (count_after 1 h1) r = count_after 1 h1) by (destruct r; try discriminate; reflexivity).
  rewrite Hn in H2.
  assert (Hl : length (st_scopes s) = count_after 1 h1).
  { unfold s, state_after. rewrite run_from_scopes_len. reflexivity. }
  split; [exact H1|]. split.
  { clear -H1 H2. revert H1 H2. generalize 1.
    induction h1 as [|o t IH]; intros n A B; cbn [app wf_scopes_from count_after] in *; [exact B|].
    apply andb_true_iff in A. destruct A as [A1 A2]. rewrite A1. cbn [andb]. apply IH; assumption. }
  split; [apply GInv_state_after; exact H1|].
  rewrite Hl. split; assumption.
Qed.

(* (a) + (b): the main theorem for one rejected call *)
Theorem C06_single cfg b du h1 r h2 :
  wf_scopes (h1 ++ r :: h2) = true -> reglike r = true ->
  forall ob, nth_error (run cfg b du (h1 ++ r :: h2)) (length h1) = Some ob ->
  so_verdict ob <> VOk ->
  (* (a) the rejected call emitted nothing *)
  so_events ob = [] /\
  (* (b) every later operation is observed exactly as in the run without it *)
  skipn (S (length h1)) (run cfg b du (h1 ++ r :: h2)) = skipn (length h1) (run cfg b du (h1 ++ h2)) /\
  (* and so is, trivially, every earlier one *)
  firstn (length h1) (run cfg b du (h1 ++ r :: h2)) = firstn (length h1) (run cfg b du (h1 ++ h2)) /\
  (* the final states differ at most in [verified] flags *)
  Eqv (state_after cfg b du (h1 ++ r :: h2)) (state_after cfg b du (h1 ++ h2)).
Proof.
  intros Hwf Hr ob Hob Hv.
  destruct (split_facts cfg b du h1 r h2 Hwf Hr) as (W1 & W12 & G & Hok & W2).
  set (s := state_after cfg b du h1) in *.
  rewrite run_app in Hob. rewrite run_from_cons in Hob. cbn [fst] in Hob.
  rewrite <- (run_length cfg b du h1) in Hob. rewrite nth_error_app_len in Hob.
  injection Hob as <-. cbn [so_verdict so_events] in *.
  destruct (rejected_step cfg b du s r Hr Hv) as [He Hev].
  set (s' := snd (step cfg b du s r)) in *.
  assert (G' : GInv cfg s') by (apply GInv_step; assumption).
  destruct (run_from_eqv cfg b du h2 s' s G' G (Eqv_sym _ _ He)) as [R1 R2].
  { rewrite <- (Eqv_scopes_len _ _ He). exact W2. }
  split; [exact Hev|].
  rewrite !run_app, run_from_cons. cbn [fst]. fold s s'.
  rewrite <- !(run_length cfg b du h1). split; [|split].
  - change (skipn (S ?n) (?l ++ ?x :: ?t)) with (skipn (S n) (l ++ x :: t)).
    replace (run cfg b du h1 ++ _ :: fst (run_from cfg b du s' h2))
      with ((run cfg b du h1 ++ [mkObs (fst (step cfg b du s r)) (new_events (st_log s) (st_log s'))])
              ++ fst (run_from cfg b du s' h2)) by (rewrite <- app_assoc; reflexivity).
    replace (S (length (run cfg b du h1))) with (length (run cfg b du h1 ++ [mkObs (fst (step cfg b du s r)) (new_events (st_log s) (st_log s'))]))
      by (rewrite app_length; cbn; lia).
    rewrite !skipn_app_len. exact R1.
  - rewrite !firstn_app_len. reflexivity.
  - unfold state_after. rewrite !run_from_app. cbn [snd]. rewrite run_from_cons. cbn [snd].
    exact R2.
Qed.
Print Assumptions C06_single.

(* ---------- any number of rejected calls ---------- *)

(* the history with the rejected registrations removed; [obs] is the run of [h].
   It keeps exactly the operations whose observation [drop_rejected] keeps. *)
Fixpoint filter_accepted (h : history) (obs : list step_obs) : history :=
  match h, obs with
  | o :: h', ob :: obs' =>
      if negb (reglike o) || is_vok (so_verdict ob) then o :: filter_accepted h' obs'
      else filter_accepted h' obs'
  | _, _ => []
  end.

Lemma drop_rejected_cons o h ob obs :
  drop_rejected (o :: h) (ob :: obs) =
  if negb (reglike o) || accepted ob then ob :: drop_rejected h obs else drop_rejected h obs.
Proof. destruct o; reflexivity. Qed.

Lemma obs_filter cfg b du h : forall s1 s2,
  GInv cfg s1 -> GInv cfg s2 -> Eqv s1 s2 ->
  wf_scopes_from (length (st_scopes s1)) h = true ->
  map obs_of (fst (run_from cfg b du s2 (filter_accepted h (fst (run_from cfg b du s1 h))))) =
  drop_rejected h (map obs_of (fst (run_from cfg b du s1 h))) /\
  wf_scopes_from (length (st_scopes s2)) (filter_accepted h (fst (run_from cfg b du s1 h))) = true /\
  Eqv (snd (run_from cfg b du s1 h))
      (snd (run_from cfg b du s2 (filter_accepted h (fst (run_from cfg b du s1 h))))).
Proof.
  induction h as [|o t IH]; intros s1 s2 G1 G2 He Hwf.
  - split; [reflexivity|]. split; [reflexivity|exact He].
  - rewrite run_from_cons. cbn [fst snd map filter_accepted so_verdict].
    rewrite drop_rejected_cons, accepted_obs_of. cbn [so_verdict].
    cbn [wf_scopes_from] in Hwf. apply andb_true_iff in Hwf. destruct Hwf as [Hok Hwf].
    set (s1' := snd (step cfg b du s1 o)) in *.
    assert (G1' : GInv cfg s1') by (apply GInv_step; assumption).
    assert (Hwf' : wf_scopes_from (length (st_scopes s1')) t = true).
    { unfold s1'. rewrite step_scopes_length. exact Hwf. }
    destruct (negb (reglike o) || is_vok (fst (step cfg b du s1 o))) eqn:Hk.
    + (* kept: the same operation is run from s2 *)
      destruct (step_eqv_GInv cfg b du s1 s2 o G1 G2 He Hok) as (A & B & C & _ & G2').
      fold s1' in B, C.
      destruct (IH s1' _ G1' G2' C Hwf') as (I1 & I2 & I3).
      rewrite run_from_cons. cbn [fst snd map wf_scopes_from].
      rewrite I1, <- A, <- B. split; [reflexivity|]. split; [|exact I3].
      apply andb_true_iff. split.
      * rewrite <- (Eqv_scopes_len _ _ He). exact Hok.
      * rewrite <- (step_scopes_length cfg b du s2 o). exact I2.
    + (* dropped: a rejected registration; s1' is Eqv to s1 *)
      apply orb_false_iff in Hk. destruct Hk as [Hr Hv].
      apply negb_false_iff in Hr.
      assert (Hv' : fst (step cfg b du s1 o) <> VOk).
      { intros Hx. rewrite Hx in Hv. discriminate. }
      destruct (rejected_step cfg b du s1 o Hr Hv') as [He' _]. fold s1' in He'.
      apply (IH s1' s2 G1' G2); [|exact Hwf'].
      eapply Eqv_trans; [apply Eqv_sym; exact He'|exact He].
Qed.

Lemma GInv_init cfg : GInv cfg init_state.
Proof. exact (GInv_state_after cfg (fun _ _ => OOk []) (fun _ _ => 0%N) [] eq_refl). Qed.

(* the observations of the history without its rejected registrations are the
   observations of the full history with the rejected entries deleted *)
Theorem C06_obs cfg b du h :
  wf_scopes h = true ->
  map obs_of (run cfg b du (filter_accepted h (run cfg b du h))) =
  drop_rejected h (map obs_of (run cfg b du h)).
Proof.
  intros Hwf. unfold run.
  apply (obs_filter cfg b du h init_state init_state (GInv_init cfg) (GInv_init cfg) (Eqv_refl _) Hwf).
Qed.
Print Assumptions C06_obs.

Theorem C06_filter_wf cfg b du h :
  wf_scopes h = true -> wf_scopes (filter_accepted h (run cfg b du h)) = true.
Proof.
  intros Hwf. unfold run.
  apply (obs_filter cfg b du h init_state init_state (GInv_init cfg) (GInv_init cfg) (Eqv_refl _) Hwf).
Qed.
Print Assumptions C06_filter_wf.

Theorem C06_final_state cfg b du h :
  wf_scopes h = true ->
  Eqv (state_after cfg b du h) (state_after cfg b du (filter_accepted h (run cfg b du h))).
Proof.
  intros Hwf. unfold run, state_after.
  apply (obs_filter cfg b du h init_state init_state (GInv_init cfg) (GInv_init cfg) (Eqv_refl _) Hwf).
Qed.
Print Assumptions C06_final_state.

(* ---------- the checker accepts ---------- *)

Lemma list_eqb_refl {A} (eqb : A -> A -> bool) :
  (forall x, eqb x x = true) -> forall l, list_eqb eqb l l = true.
Proof. intros H l. induction l as [|x t IH]; cbn; [reflexivity|]. now rewrite H, IH. Qed.

Lemma atom_eqb_refl a : atom_eqb a a = true.
Proof. destruct a; cbn; [|reflexivity]. now rewrite !Nat.eqb_refl. Qed.

Lemma perm_eqb_refl {A} (eqb : A -> A -> bool) :
  (forall x, eqb x x = true) -> forall l, perm_eqb eqb l l = true.
Proof. intros H l. induction l as [|x t IH]; cbn; [reflexivity|]. now rewrite H. Qed.

Lemma arg_eqb_refl a : arg_eqb a a = true.
Proof. destruct a; cbn; [apply atom_eqb_refl|apply perm_eqb_refl; exact atom_eqb_refl]. Qed.

Lemma event_eqb_refl ev : event_eqb ev ev = true.
Proof.
  destruct ev as [f e r args o|f c rt]; cbn.
  - rewrite !Nat.eqb_refl, (list_eqb_refl arg_eqb arg_eqb_refl). destruct r, o; reflexivity.
  - rewrite Nat.eqb_refl, N.eqb_refl. destruct c; cbn; rewrite ?Nat.eqb_refl; reflexivity.
Qed.

Lemma overdict_eqb_refl v : overdict_eqb v v = true.
Proof.
  destruct v as [|ls r|f e| |]; cbn; try reflexivity.
  - rewrite list_eqb_refl by (intros []; reflexivity).
    destruct r; cbn; rewrite ?Nat.eqb_refl; reflexivity.
  - now rewrite !Nat.eqb_refl.
Qed.

Lemma oobs_eqb_refl o : oobs_eqb o o = true.
Proof.
  unfold oobs_eqb. rewrite overdict_eqb_refl, (list_eqb_refl event_eqb event_eqb_refl). reflexivity.
Qed.

Lemma chk_eq_obs_refl code l : forall i, chk_eq_obs i code l l = [].
Proof.
  induction l as [|x t IH]; intros i; cbn [chk_eq_obs]; [reflexivity|].
  rewrite oobs_eqb_refl, IH. reflexivity.
Qed.

(* C06, the checker form: comparing the run of a history with the run of the
   same history without its rejected registrations never reports a violation *)
Theorem chk_C06_ok cfg b du h :
  wf_scopes h = true ->
  chk_C06 h (map obs_of (run cfg b du h))
            (map obs_of (run cfg b du (filter_accepted h (run cfg b du h)))) = [].
Proof.
  intros Hwf. unfold chk_C06. rewrite C06_obs by exact Hwf. apply chk_eq_obs_refl.
Qed.
Print Assumptions chk_C06_ok.

(* ================================================================== *)
(* Part 3 : corollaries                                                *)
(* ================================================================== *)

Lemma nth_error_skipn' {A} (l : list A) : forall n i, nth_error (skipn n l) i = nth_error l (n + i).
Proof.
  induction l as [|x t IH]; intros [|n] i; cbn [skipn plus]; try reflexivity.
  - destruct i; reflexivity.
  - apply IH.
Qed.

(* every operation after the rejected call is observed (verdict and events)
   exactly as the corresponding operation of the history without the call *)
Corollary C06_later_same cfg b du h1 r h2 :
  wf_scopes (h1 ++ r :: h2) = true -> reglike r = true ->
  forall ob, nth_error (run cfg b du (h1 ++ r :: h2)) (length h1) = Some ob ->
  so_verdict ob <> VOk ->
  forall i, nth_error (run cfg b du (h1 ++ r :: h2)) (S (length h1) + i) =
            nth_error (run cfg b du (h1 ++ h2)) (length h1 + i).
Proof.
  intros Hwf Hr ob Hob Hv i.
  destruct (C06_single cfg b du h1 r h2 Hwf Hr ob Hob Hv) as (_ & Hb & _).
  rewrite <- !nth_error_skipn'. rewrite Hb. reflexivity.
Qed.
Print Assumptions C06_later_same.

(* in particular a later Provide (of the same keys as the rejected call, or of
   any others) is accepted exactly when it would have been without the call *)
Corollary C06_later_provide cfg b du h1 r h2a s q h2b :
  wf_scopes (h1 ++ r :: h2a ++ OProvide s q :: h2b) = true -> reglike r = true ->
  forall ob, nth_error (run cfg b du (h1 ++ r :: h2a ++ OProvide s q :: h2b)) (length h1) = Some ob ->
  so_verdict ob <> VOk ->
  forall ob1 ob2,
    nth_error (run cfg b du (h1 ++ r :: h2a ++ OProvide s q :: h2b)) (S (length h1) + length h2a) = Some ob1 ->
    nth_error (run cfg b du (h1 ++ h2a ++ OProvide s q :: h2b)) (length h1 + length h2a) = Some ob2 ->
    ob1 = ob2 /\ (so_verdict ob1 = VOk <-> so_verdict ob2 = VOk).
Proof.
  intros Hwf Hr ob Hob Hv ob1 ob2 H1 H2.
  rewrite (C06_later_same cfg b du h1 r _ Hwf Hr ob Hob Hv) in H1.
  assert (ob1 = ob2) by congruence. subst. split; [reflexivity|tauto].
Qed.
Print Assumptions C06_later_provide.

(* ---------- the rejected function is never executed ---------- *)

Lemma run_nth_mid cfg b du h1 r h2 :
  nth_error (run cfg b du (h1 ++ r :: h2)) (length h1) =
  Some (mkObs (fst (step cfg b du (state_after cfg b du h1) r))
              (new_events (st_log (state_after cfg b du h1))
                          (st_log (snd (step cfg b du (state_after cfg b du h1) r))))).
Proof.
  rewrite run_app, run_from_cons. cbn [fst].
  rewrite <- (run_length cfg b du h1). apply nth_error_app_len.
Qed.

Lemma run_events_rejected cfg b du h1 r h2 :
  wf_scopes (h1 ++ r :: h2) = true -> reglike r = true ->
  forall ob, nth_error (run cfg b du (h1 ++ r :: h2)) (length h1) = Some ob ->
  so_verdict ob <> VOk ->
  run_events cfg b du (h1 ++ r :: h2) = run_events cfg b du (h1 ++ h2).
Proof.
  intros Hwf Hr ob Hob Hv.
  destruct (C06_single cfg b du h1 r h2 Hwf Hr ob Hob Hv) as (Ha & Hb & Hc & _).
  unfold run_events.
  rewrite <- (firstn_skipn (length h1) (run cfg b du (h1 ++ r :: h2))).
  rewrite <- (firstn_skipn (length h1) (run cfg b du (h1 ++ h2))).
  rewrite !flat_map_app, Hc, <- Hb. f_equal.
  assert (Hs : skipn (length h1) (run cfg b du (h1 ++ r :: h2)) =
               ob :: skipn (S (length h1)) (run cfg b du (h1 ++ r :: h2))).
  { clear -Hob. revert Hob. generalize (run cfg b du (h1 ++ r :: h2)). generalize (length h1).
    induction n as [|n IH]; intros [|x l] H; cbn in H; try discriminate.
    - injection H as ->. reflexivity.
    - apply IH. exact H. }
  rewrite Hs. cbn [flat_map]. rewrite Ha. reflexivity.
Qed.

Lemma nexec_noexec f l : (forall ev, In ev l -> is_exec ev = false) -> nexec f l = 0.
Proof.
  induction l as [|ev t IH]; intros H; [reflexivity|]. rewrite nexec_cons.
  rewrite IH by (intros x Hx; apply H; right; exact Hx).
  specialize (H ev (or_introl eq_refl)). destruct ev; [discriminate|reflexivity].
Qed.

Lemma op_fns_app h1 h2 : op_fns (h1 ++ h2) = op_fns h1 ++ op_fns h2.
Proof. unfold op_fns. apply flat_map_app. Qed.

(* a function that no operation of the history carries is never executed *)
Lemma never_exec cfg b du h f :
  NoDup (op_fns h) -> ~ In f (op_fns h) -> nexec f (run_events cfg b du h) = 0.
Proof.
  intros Hnd Hf.
  destruct (cfg_dry cfg) eqn:Hdry.
  - apply nexec_noexec. intros ev Hev. unfold run_events in Hev.
    apply in_flat_map in Hev. destruct Hev as (o & Ho & Hev).
    eapply C17_dry_silent; eauto.
  - set (probe := OInvoke 0 (mkInvokeIn f dummy_sig)).
    assert (G : GH init_state (h ++ [probe])).
    { destruct (GH_init [] eq_refl) as (Hg & _ & _).
      split; [exact Hg|]. split.
      - rewrite op_fns_app. cbn. apply P_Frame.NoDup_snoc; assumption.
      - intros g _. split; [intros Hx; exact Hx|reflexivity]. }
    apply (GH_run_from cfg b du Hdry h init_state [probe]) in G.
    destruct G as (_ & _ & Hfr).
    destruct (Hfr f (or_introl eq_refl)) as [_ Hn].
    change (snd (run_from cfg b du init_state h)) with (state_after cfg b du h) in Hn.
    rewrite state_after_log, nexec_rev in Hn. exact Hn.
Qed.
Print Assumptions never_exec.

Lemma nexec_zero_notin f l : nexec f l = 0 -> forall e rl args o, ~ In (EExec f e rl args o) l.
Proof.
  induction l as [|ev t IH]; intros H e rl args o Hin; [destruct Hin|destruct Hin as [Hin|Hin]].
  - subst ev. rewrite nexec_cons in H. cbn in H. rewrite Nat.eqb_refl in H. discriminate.
  - rewrite nexec_cons in H. apply (IH ltac:(lia) e rl args o Hin).
Qed.

Definition reg_fn (o : op) : option fnid :=
  match o with
  | OProvide _ p => Some (pi_fn p)
  | ODecorate _ p => Some (di_fn p)
  | OBad _ _ f => Some f
  | _ => None
  end.

(* the function of a rejected registration is never executed, neither before
   nor after the call, provided no other operation carries the same function *)
Theorem C06_rejected_never_executed cfg b du h1 r h2 f :
  wf_scopes (h1 ++ r :: h2) = true -> reglike r = true -> reg_fn r = Some f ->
  NoDup (op_fns (h1 ++ h2)) -> ~ In f (op_fns (h1 ++ h2)) ->
  forall ob, nth_error (run cfg b du (h1 ++ r :: h2)) (length h1) = Some ob ->
  so_verdict ob <> VOk ->
  nexec f (run_events cfg b du (h1 ++ r :: h2)) = 0 /\
  forall e rl args o, ~ In (EExec f e rl args o) (run_events cfg b du (h1 ++ r :: h2)).
Proof.
  intros Hwf Hr _ Hnd Hf ob Hob Hv.
  assert (H : nexec f (run_events cfg b du (h1 ++ r :: h2)) = 0).
  { rewrite (run_events_rejected cfg b du h1 r h2 Hwf Hr ob Hob Hv). apply never_exec; assumption. }
  split; [exact H|apply nexec_zero_notin; exact H].
Qed.
Print Assumptions C06_rejected_never_executed.

(* for Provide and Decorate the side conditions follow from [wf_fns] of the history *)
Corollary C06_rejected_never_executed_wf cfg b du h1 r h2 f :
  wf_scopes (h1 ++ r :: h2) = true -> wf_fns (h1 ++ r :: h2) = true ->
  op_fn r = [f] -> reglike r = true ->
  forall ob, nth_error (run cfg b du (h1 ++ r :: h2)) (length h1) = Some ob ->
  so_verdict ob <> VOk ->
  forall e rl args o, ~ In (EExec f e rl args o) (run_events cfg b du (h1 ++ r :: h2)).
Proof.
  intros Hwf Hfn Hf Hr ob Hob Hv.
  apply nodupb_NoDup in Hfn. rewrite op_fns_app in Hfn. cbn [op_fns flat_map] in Hfn.
  rewrite Hf in Hfn. cbn [app] in Hfn. apply NoDup_remove in Hfn. destruct Hfn as [Hnd Hnin].
  fold (op_fns h2) in Hnd, Hnin. rewrite <- op_fns_app in Hnd, Hnin.
  assert (Hrf : reg_fn r = Some f).
  { destruct r; cbn in *; try discriminate; congruence. }
  apply (C06_rejected_never_executed cfg b du h1 r h2 f Hwf Hr Hrf Hnd Hnin ob Hob Hv).
Qed.
Print Assumptions C06_rejected_never_executed_wf.

(* ================================================================== *)
(* Example : a Provide rejected for a cycle that exists only in a child *)
(* ================================================================== *)

Module C06Example.
  Definition cfg0 : config := mkConfig false false false.
  Definition b0 : beh := fun _ _ => OOk [].
  Definition d0 : dur := fun _ _ => 0%N.

  Definition T1 := KV 1 0.  Definition T2 := KV 2 0.
  Definition T3 := KV 3 0.  Definition T4 := KV 4 0.

  (* f1 : func(T2) T1      (root) *)
  Definition f1 := mkProvideIn 1 (mkSig [PSingle T2 false] [RSingle T1 []] false) false false.
  (* g  : func(T3) T2      (child scope only) *)
  Definition g  := mkProvideIn 2 (mkSig [PSingle T3 false] [RSingle T2 []] false) false false.
  (* k  : func() T4        (root) *)
  Definition k  := mkProvideIn 3 (mkSig [] [RSingle T4 []] false) false false.
  (* bad : func(T1) T3     (root): acyclic in the root's own view (nobody provides
     T2 there), but closes T1 -> T2 -> T3 -> T1 in the view of the child *)
  Definition bad := mkProvideIn 4 (mkSig [PSingle T1 false] [RSingle T3 []] false) false false.
  (* ok3 : func() T3       (root): the same key as the rejected call *)
  Definition ok3 := mkProvideIn 7 (mkSig [] [RSingle T3 []] false) false false.

  Definition inv (f : fnid) (t : key) := mkInvokeIn f (mkSig [PSingle t false] [] false).

  Definition pre : history := [OScope 0; OProvide 0 f1; OProvide 1 g; OProvide 0 k].
  Definition post : history :=
    [OInvoke 0 (inv 5 T4); OInvoke 1 (inv 6 T2); OProvide 0 ok3; OInvoke 1 (inv 8 T2)].
  Definition full : history := pre ++ OProvide 0 bad :: post.
  Definition without : history := pre ++ post.

  Example full_wf : wf_scopes full = true /\ wf_fns full = true.
  Proof. split; vm_compute; reflexivity. Qed.

  (* the root's graph alone would accept it; the child's graph has the cycle *)
  Example rejected_in_child_only :
    let st := state_after cfg0 b0 d0 pre in
    let mid := fold_left (fun s o => snd (step (mkConfig true false false) b0 d0 s o)) [OProvide 0 bad] st in
    fst (provide cfg0 st 0 bad) = VErr err_provide_cycle /\
    (exists c, is_acyclic (scope_graph mid 0) = Some (true, c)) /\
    (exists c, is_acyclic (scope_graph mid 1) = Some (false, c)).
  Proof.
    cbv zeta. split; [vm_compute; reflexivity|].
    split; eexists; vm_compute; reflexivity.
  Qed.

  Example verdicts_full :
    map (fun ob => oo_verdict (obs_of ob)) (run cfg0 b0 d0 full) =
    [ OVOk; OVOk; OVOk; OVOk;
      OVErr [KProvide; KInvalid] QCycle;
      OVOk;
      OVErr [KArgs; KParamSingle; KMissingDeps] QMissing;
      OVOk;
      OVOk ].
  Proof. vm_compute. reflexivity. Qed.

  (* the observations after the rejected call are those of the history without it *)
  Example obs_equal :
    skipn 5 (run cfg0 b0 d0 full) = skipn 4 (run cfg0 b0 d0 without) /\
    firstn 4 (run cfg0 b0 d0 full) = firstn 4 (run cfg0 b0 d0 without) /\
    filter_accepted full (run cfg0 b0 d0 full) = without.
  Proof. split; [|split]; vm_compute; reflexivity. Qed.

  Example execs :
    filter is_exec (run_events cfg0 b0 d0 full) =
    [ EExec 3 0 RoleCtor [] (OOk []);
      EExec 5 0 RoleInv [ASingle (AProd 3 0 0 0)] (OOk []);
      EExec 7 0 RoleCtor [] (OOk []);
      EExec 2 0 RoleCtor [ASingle (AProd 7 0 0 0)] (OOk []);
      EExec 8 0 RoleInv [ASingle (AProd 2 0 0 0)] (OOk []) ].
  Proof. vm_compute. reflexivity. Qed.

  Example chk_by_computation :
    chk_C06 full (map obs_of (run cfg0 b0 d0 full)) (map obs_of (run cfg0 b0 d0 without)) = [].
  Proof. vm_compute. reflexivity. Qed.

  (* and the same fact as an instance of the theorem *)
  Example chk_by_theorem :
    chk_C06 full (map obs_of (run cfg0 b0 d0 full))
                 (map obs_of (run cfg0 b0 d0 (filter_accepted full (run cfg0 b0 d0 full)))) = [].
  Proof. apply chk_C06_ok. vm_compute. reflexivity. Qed.
End C06Example.
