(* P_C15.v — property C15 at the run level: re-encoding a function's
   signature (positional parameters <-> fields of dig.In structs at any
   nesting depth, results <-> fields of dig.Out structs, an extra variadic
   parameter, a name / group given as option or as tag) changes NOTHING the
   run function reports: verdicts, error chains, events, arguments.

   Method (the two-run simulation of P_Dry): the evaluator, the registration
   functions and [invoke] read a stored signature only through [sig_leaves],
   [sig_order], [sig_rleaves] (and the derived [sig_build_seq], [sig_keys],
   [dec_keys]).  [sig_equiv] = equality of exactly these projections (plus
   [fs_err], which Resolve never reads); [SEq] = equality of states up to
   [sig_equiv] on the stored signatures; every operation maps SEq states and
   equivalent inputs to EQUAL verdicts and SEq states; the evaluator by a
   direct induction on the fuel with one two-run lemma per combinator. *)
From Dig Require Import Base Sig State Graph Register Resolve Run EvalInd Spec Check Cases
  GoTypes Parse P_Parse.
From Dig Require P_C06.

(* ================================================================== *)
(* Part 1 : equivalent signatures                                      *)
(* ================================================================== *)

Definition sig_equiv (s1 s2 : fsig) : Prop :=
  sig_leaves s1 = sig_leaves s2 /\ sig_order s1 = sig_order s2 /\
  sig_rleaves s1 = sig_rleaves s2 /\ fs_err s1 = fs_err s2.

Lemma sig_equiv_refl s : sig_equiv s s.
Proof. repeat split. Qed.

Lemma sig_equiv_sym s1 s2 : sig_equiv s1 s2 -> sig_equiv s2 s1.
Proof. intros (A & B & C & D). repeat split; symmetry; assumption. Qed.

Lemma sig_equiv_trans s1 s2 s3 : sig_equiv s1 s2 -> sig_equiv s2 s3 -> sig_equiv s1 s3.
Proof.
  intros (A & B & C & D) (A' & B' & C' & D').
  repeat split; etransitivity; eassumption.
Qed.

Lemma sig_equiv_leaves s1 s2 : sig_equiv s1 s2 -> sig_leaves s1 = sig_leaves s2.
Proof. intros H; apply H. Qed.
Lemma sig_equiv_order s1 s2 : sig_equiv s1 s2 -> sig_order s1 = sig_order s2.
Proof. intros H; apply H. Qed.
Lemma sig_equiv_rleaves s1 s2 : sig_equiv s1 s2 -> sig_rleaves s1 = sig_rleaves s2.
Proof. intros H; apply H. Qed.
Lemma sig_equiv_err s1 s2 : sig_equiv s1 s2 -> fs_err s1 = fs_err s2.
Proof. intros H; apply H. Qed.

(* the derived readers *)
Lemma sig_equiv_build_seq s1 s2 : sig_equiv s1 s2 -> sig_build_seq s1 = sig_build_seq s2.
Proof. intros (A & B & _). unfold sig_build_seq. now rewrite A, B. Qed.

Lemma sig_equiv_keys s1 s2 : sig_equiv s1 s2 -> sig_keys s1 = sig_keys s2.
Proof. intros (_ & _ & C & _). unfold sig_keys. now rewrite C. Qed.

Lemma sig_equiv_dec_keys s1 s2 : sig_equiv s1 s2 -> dec_keys s1 = dec_keys s2.
Proof. intros (_ & _ & C & _). unfold dec_keys. now rewrite C. Qed.

Arguments sig_equiv_leaves {s1 s2} _.
Arguments sig_equiv_order {s1 s2} _.
Arguments sig_equiv_rleaves {s1 s2} _.
Arguments sig_equiv_err {s1 s2} _.
Arguments sig_equiv_build_seq {s1 s2} _.
Arguments sig_equiv_keys {s1 s2} _.
Arguments sig_equiv_dec_keys {s1 s2} _.

(* ---------- the rewrites of the property, Sig level ---------- *)

(* a run of top-level parameters without top-level soft groups becomes one object *)
Lemma wrap_params_equiv ps1 ps2 ps3 rs e :
  no_soft ps2 ->
  sig_equiv (mkSig (ps1 ++ ps2 ++ ps3) rs e) (mkSig (ps1 ++ [PObj ps2] ++ ps3) rs e).
Proof.
  intros H. split; [apply C15_param_leaves|]. split; [apply C15_param_order; exact H|].
  split; reflexivity.
Qed.

(* the form of the property text: none of the wrapped parameters is a bare group *)
Lemma wrap_params_equiv_nogroup ps1 ps2 ps3 rs e :
  (forall k s, ~ In (PGroup k s) ps2) ->
  sig_equiv (mkSig (ps1 ++ ps2 ++ ps3) rs e) (mkSig (ps1 ++ [PObj ps2] ++ ps3) rs e).
Proof. intros H. apply wrap_params_equiv, not_group_no_soft, H. Qed.

(* ... at any nesting depth: struct{In; struct{In; ... ps2 ...}} *)
Fixpoint nest_params (n : nat) (ps : list param) : list param :=
  match n with 0 => ps | S m => [PObj (nest_params m ps)] end.

Lemma nest_params_no_soft n ps : no_soft ps -> no_soft (nest_params n ps).
Proof.
  intros H. destruct n as [|m]; cbn [nest_params]; [exact H|].
  constructor; [reflexivity|constructor].
Qed.

Lemma wrap_params_depth n ps1 ps2 ps3 rs e :
  no_soft ps2 ->
  sig_equiv (mkSig (ps1 ++ ps2 ++ ps3) rs e) (mkSig (ps1 ++ nest_params n ps2 ++ ps3) rs e).
Proof.
  intros H. induction n as [|m IH]; cbn [nest_params]; [apply sig_equiv_refl|].
  eapply sig_equiv_trans; [exact IH|].
  apply wrap_params_equiv. apply nest_params_no_soft. exact H.
Qed.

(* a run of results becomes one dig.Out object; no side condition *)
Lemma wrap_results_equiv ps rs1 rs2 rs3 e :
  sig_equiv (mkSig ps (rs1 ++ rs2 ++ rs3) e) (mkSig ps (rs1 ++ [RObj rs2] ++ rs3) e).
Proof.
  split; [reflexivity|]. split; [reflexivity|]. split; [apply C15_result_object|reflexivity].
Qed.

Fixpoint nest_results (n : nat) (rs : list result) : list result :=
  match n with 0 => rs | S m => [RObj (nest_results m rs)] end.

Lemma wrap_results_depth n ps rs1 rs2 rs3 e :
  sig_equiv (mkSig ps (rs1 ++ rs2 ++ rs3) e) (mkSig ps (rs1 ++ nest_results n rs2 ++ rs3) e).
Proof.
  induction n as [|m IH]; cbn [nest_results]; [apply sig_equiv_refl|].
  eapply sig_equiv_trans; [exact IH|]. apply wrap_results_equiv.
Qed.

(* parameters and results rewritten independently *)
Lemma sig_equiv_params_results ps ps' rs rs' e :
  sig_equiv (mkSig ps rs e) (mkSig ps' rs e) ->
  sig_equiv (mkSig ps' rs e) (mkSig ps' rs' e) ->
  sig_equiv (mkSig ps rs e) (mkSig ps' rs' e).
Proof. apply sig_equiv_trans. Qed.

(* ---------- the rewrites of the property, Parse level ---------- *)

(* positional T1..Tn  vs  one struct{dig.In; F1 T1; ..; Fn Tn} *)
Lemma parse_wrap_equiv ts1 ts2 ts3 ps ps' :
  new_params (ts1 ++ ts2 ++ ts3) = POk ps ->
  new_params (ts1 ++ [in_struct ts2] ++ ts3) = POk ps' ->
  forall rs e, sig_equiv (mkSig ps rs e) (mkSig ps' rs e).
Proof.
  intros H H' rs e. destruct (C15_parse_wrap _ _ _ _ _ H H' rs e) as (A & B & _).
  split; [exact A|]. split; [exact B|]. split; reflexivity.
Qed.

(* a variadic last parameter is not a dependency *)
Lemma variadic_equiv ts v outs outs' ps ps' :
  new_param_list (mkFunc (ts ++ [v]) outs true) = POk ps ->
  new_param_list (mkFunc ts outs' false) = POk ps' ->
  forall rs e, sig_equiv (mkSig ps rs e) (mkSig ps' rs e).
Proof.
  intros H H' rs e. rewrite (C15_variadic_dropped ts v outs outs') in H.
  rewrite H in H'. inversion H'. apply sig_equiv_refl.
Qed.

(* Name(n) as option  vs  name:"n" as tag on the single field of a dig.Out *)
Lemma name_option_vs_tag_equiv dec t n :
  result_leaf_ty t ->
  exists rs r,
    new_results dec [t] (mkROpts n None []) = POk rs /\
    new_results dec [out_struct_named n t] (mkROpts 0 None []) = POk [r] /\
    forall ps e, sig_equiv (mkSig ps rs e) (mkSig ps [r] e).
Proof.
  intros Hl. destruct (C15_name_option_vs_tag dec t n Hl) as (rs & r & A & B & C & _).
  exists rs, r. split; [exact A|]. split; [exact B|].
  intros ps e. split; [reflexivity|]. split; [reflexivity|]. split; [|reflexivity].
  unfold sig_rleaves. cbn [fs_results]. rewrite C. symmetry. apply decl_rleaves_list_single.
Qed.

(* Group(g) as option  vs  group:"g" as tag *)
Lemma group_option_vs_tag_equiv dec t g r :
  result_leaf_ty t ->
  new_results dec [t] (mkROpts 0 (Some g) []) = POk [r] ->
  new_results dec [out_struct_grouped g t] (mkROpts 0 None []) = POk [RObj [r]] /\
  forall ps e, sig_equiv (mkSig ps [r] e) (mkSig ps [RObj [r]] e).
Proof.
  intros Hl H. split; [apply (C15_group_option_vs_tag dec t g r Hl); exact H|].
  intros ps e. exact (wrap_results_equiv ps [] [r] [] e).
Qed.

(* ================================================================== *)
(* Part 2 : equivalent histories                                       *)
(* ================================================================== *)

Record pin_equiv (p1 p2 : provide_in) : Prop := mkPinEq {
  pe_fn : pi_fn p1 = pi_fn p2;
  pe_sig : sig_equiv (pi_sig p1) (pi_sig p2);
  pe_export : pi_export p1 = pi_export p2;
  pe_cb : pi_cb p1 = pi_cb p2
}.

Record din_equiv (p1 p2 : decorate_in) : Prop := mkDinEq {
  de_fn : di_fn p1 = di_fn p2;
  de_sig : sig_equiv (di_sig p1) (di_sig p2);
  de_cb : di_cb p1 = di_cb p2
}.

Record iin_equiv (p1 p2 : invoke_in) : Prop := mkIinEq {
  ie_fn : ii_fn p1 = ii_fn p2;
  ie_sig : sig_equiv (ii_sig p1) (ii_sig p2)
}.

Arguments pe_fn {p1 p2} _.
Arguments pe_sig {p1 p2} _.
Arguments pe_export {p1 p2} _.
Arguments pe_cb {p1 p2} _.
Arguments de_fn {p1 p2} _.
Arguments de_sig {p1 p2} _.
Arguments de_cb {p1 p2} _.
Arguments ie_fn {p1 p2} _.
Arguments ie_sig {p1 p2} _.

Inductive op_equiv : op -> op -> Prop :=
| OE_scope p : op_equiv (OScope p) (OScope p)
| OE_provide s p1 p2 : pin_equiv p1 p2 -> op_equiv (OProvide s p1) (OProvide s p2)
| OE_decorate s p1 p2 : din_equiv p1 p2 -> op_equiv (ODecorate s p1) (ODecorate s p2)
| OE_invoke s p1 p2 : iin_equiv p1 p2 -> op_equiv (OInvoke s p1) (OInvoke s p2)
| OE_bad k s f : op_equiv (OBad k s f) (OBad k s f).

Definition hist_equiv : history -> history -> Prop := Forall2 op_equiv.

Lemma op_equiv_refl o : op_equiv o o.
Proof.
  destruct o; constructor; constructor; try reflexivity; apply sig_equiv_refl.
Qed.

Lemma op_equiv_sym o1 o2 : op_equiv o1 o2 -> op_equiv o2 o1.
Proof.
  intros H; destruct H as [p|s p1 p2 []|s p1 p2 []|s p1 p2 []|k s f]; constructor;
    try (constructor; try (symmetry; assumption); apply sig_equiv_sym; assumption).
Qed.

Lemma op_equiv_trans o1 o2 o3 : op_equiv o1 o2 -> op_equiv o2 o3 -> op_equiv o1 o3.
Proof.
  intros H1 H2; destruct H1 as [p|s p1 p2 []|s p1 p2 []|s p1 p2 []|k s f];
    inversion H2 as [|? ? ? []|? ? ? []|? ? ? []|]; subst; constructor;
    constructor; try (etransitivity; eassumption); eapply sig_equiv_trans; eassumption.
Qed.

Lemma hist_equiv_refl h : hist_equiv h h.
Proof. induction h; constructor; [apply op_equiv_refl|assumption]. Qed.

Lemma hist_equiv_sym h1 h2 : hist_equiv h1 h2 -> hist_equiv h2 h1.
Proof. induction 1; constructor; [apply op_equiv_sym|]; assumption. Qed.

Lemma hist_equiv_trans h1 h2 h3 : hist_equiv h1 h2 -> hist_equiv h2 h3 -> hist_equiv h1 h3.
Proof.
  intros H. revert h3. induction H as [|a b l1 l2 Hab _ IH]; intros h3 H2; inversion H2; subst.
  - constructor.
  - constructor; [eapply op_equiv_trans; eassumption|apply IH; assumption].
Qed.

(* ================================================================== *)
(* Part 3 : the state relation                                         *)
(* ================================================================== *)

Record cn_equiv (c1 c2 : cnode) : Prop := mkCnEq {
  ce_fn : c_fn c1 = c_fn c2;
  ce_sig : sig_equiv (c_sig c1) (c_sig c2);
  ce_home : c_home c1 = c_home c2;
  ce_orig : c_orig c1 = c_orig c2;
  ce_called : c_called c1 = c_called c2;
  ce_onstack : c_onstack c1 = c_onstack c2;
  ce_cb : c_cb c1 = c_cb c2
}.

Record dn_equiv (d1 d2 : dnode) : Prop := mkDnEq {
  dq_fn : d_fn d1 = d_fn d2;
  dq_sig : sig_equiv (d_sig d1) (d_sig d2);
  dq_home : d_home d1 = d_home d2;
  dq_state : d_state d1 = d_state d2;
  dq_cb : d_cb d1 = d_cb d2
}.

(* everything equal except the stored signatures, which are equivalent pointwise *)
Record SEq (s1 s2 : state) : Prop := mkSEq {
  se_scopes : st_scopes s1 = st_scopes s2;
  se_nodes : Forall2 cn_equiv (st_nodes s1) (st_nodes s2);
  se_decs : Forall2 dn_equiv (st_decs s1) (st_decs s2);
  se_count : st_count s1 = st_count s2;
  se_clock : st_clock s1 = st_clock s2;
  se_log : st_log s1 = st_log s2
}.

Arguments ce_fn {c1 c2} _.
Arguments ce_sig {c1 c2} _.
Arguments ce_home {c1 c2} _.
Arguments ce_orig {c1 c2} _.
Arguments ce_called {c1 c2} _.
Arguments ce_onstack {c1 c2} _.
Arguments ce_cb {c1 c2} _.
Arguments dq_fn {d1 d2} _.
Arguments dq_sig {d1 d2} _.
Arguments dq_home {d1 d2} _.
Arguments dq_state {d1 d2} _.
Arguments dq_cb {d1 d2} _.
Arguments se_scopes {s1 s2} _.
Arguments se_nodes {s1 s2} _.
Arguments se_decs {s1 s2} _.
Arguments se_count {s1 s2} _.
Arguments se_clock {s1 s2} _.
Arguments se_log {s1 s2} _.

Lemma cn_equiv_refl c : cn_equiv c c.
Proof. constructor; try reflexivity. apply sig_equiv_refl. Qed.
Lemma dn_equiv_refl d : dn_equiv d d.
Proof. constructor; try reflexivity. apply sig_equiv_refl. Qed.

Lemma cn_equiv_sym c1 c2 : cn_equiv c1 c2 -> cn_equiv c2 c1.
Proof. intros []; constructor; try (symmetry; assumption). apply sig_equiv_sym; assumption. Qed.
Lemma dn_equiv_sym c1 c2 : dn_equiv c1 c2 -> dn_equiv c2 c1.
Proof. intros []; constructor; try (symmetry; assumption). apply sig_equiv_sym; assumption. Qed.

Lemma cn_equiv_trans c1 c2 c3 : cn_equiv c1 c2 -> cn_equiv c2 c3 -> cn_equiv c1 c3.
Proof.
  intros [] []; constructor; try (etransitivity; eassumption). eapply sig_equiv_trans; eassumption.
Qed.
Lemma dn_equiv_trans c1 c2 c3 : dn_equiv c1 c2 -> dn_equiv c2 c3 -> dn_equiv c1 c3.
Proof.
  intros [] []; constructor; try (etransitivity; eassumption). eapply sig_equiv_trans; eassumption.
Qed.

Lemma Forall2_refl_gen {A} (R : A -> A -> Prop) : (forall x, R x x) -> forall l, Forall2 R l l.
Proof. intros H l. induction l; constructor; auto. Qed.

Lemma Forall2_sym_gen {A} (R : A -> A -> Prop) :
  (forall x y, R x y -> R y x) -> forall l1 l2, Forall2 R l1 l2 -> Forall2 R l2 l1.
Proof. intros H l1 l2 F. induction F; constructor; auto. Qed.

Lemma Forall2_trans_gen {A} (R : A -> A -> Prop) :
  (forall x y z, R x y -> R y z -> R x z) ->
  forall l1 l2 l3, Forall2 R l1 l2 -> Forall2 R l2 l3 -> Forall2 R l1 l3.
Proof.
  intros H l1 l2 l3 F. revert l3. induction F as [|a b l1 l2 Hab _ IH]; intros l3 G; inversion G; subst.
  - constructor.
  - constructor; [eapply H; eassumption|apply IH; assumption].
Qed.

Lemma SEq_refl st : SEq st st.
Proof.
  constructor; try reflexivity.
  - apply Forall2_refl_gen, cn_equiv_refl.
  - apply Forall2_refl_gen, dn_equiv_refl.
Qed.

Lemma SEq_sym s1 s2 : SEq s1 s2 -> SEq s2 s1.
Proof.
  intros []; constructor; try (symmetry; assumption).
  - eapply Forall2_sym_gen; [apply cn_equiv_sym|assumption].
  - eapply Forall2_sym_gen; [apply dn_equiv_sym|assumption].
Qed.

Lemma SEq_trans s1 s2 s3 : SEq s1 s2 -> SEq s2 s3 -> SEq s1 s3.
Proof.
  intros [] []; constructor; try (etransitivity; eassumption).
  - eapply Forall2_trans_gen; [apply cn_equiv_trans| |]; eassumption.
  - eapply Forall2_trans_gen; [apply dn_equiv_trans| |]; eassumption.
Qed.

(* ---------- list helpers ---------- *)

Lemma Forall2_nth_gen {A B} (R : A -> B -> Prop) d1 d2 :
  R d1 d2 -> forall l1 l2, Forall2 R l1 l2 -> forall n, R (nth n l1 d1) (nth n l2 d2).
Proof.
  intros Hd l1 l2 F. induction F as [|a b l1 l2 Hab _ IH]; intros [|n]; cbn [nth]; auto.
Qed.

Lemma Forall2_len {A B} (R : A -> B -> Prop) l1 l2 : Forall2 R l1 l2 -> length l1 = length l2.
Proof. induction 1; cbn; congruence. Qed.

Lemma Forall2_upd_nth {A B} (R : A -> B -> Prop) (f : A -> A) (g : B -> B) :
  (forall x y, R x y -> R (f x) (g y)) ->
  forall l1 l2, Forall2 R l1 l2 -> forall i, Forall2 R (upd_nth i f l1) (upd_nth i g l2).
Proof.
  intros H l1 l2 F. induction F as [|a b l1 l2 Hab F IH]; intros [|i]; cbn [upd_nth];
    constructor; auto.
Qed.

Lemma find_map_ext_l {A B} (f g : A -> option B) l :
  (forall x, f x = g x) -> find_map f l = find_map g l.
Proof.
  intros H. induction l as [|h t IH]; cbn; [reflexivity|]. now rewrite H, IH.
Qed.

(* ---------- state setters ---------- *)

Lemma SEq_set_scopes s1 s2 x : SEq s1 s2 -> SEq (set_scopes s1 x) (set_scopes s2 x).
Proof. intros []; constructor; cbn; auto. Qed.

Lemma SEq_upd_scope s1 s2 s f : SEq s1 s2 -> SEq (upd_scope s1 s f) (upd_scope s2 s f).
Proof. intros H. unfold upd_scope. rewrite (se_scopes H). apply SEq_set_scopes, H. Qed.

Lemma SEq_set_nodes s1 s2 x1 x2 :
  Forall2 cn_equiv x1 x2 -> SEq s1 s2 -> SEq (set_nodes s1 x1) (set_nodes s2 x2).
Proof. intros F []; constructor; cbn; auto. Qed.

Lemma SEq_set_decs s1 s2 x1 x2 :
  Forall2 dn_equiv x1 x2 -> SEq s1 s2 -> SEq (set_decs s1 x1) (set_decs s2 x2).
Proof. intros F []; constructor; cbn; auto. Qed.

Lemma SEq_upd_node s1 s2 n f :
  (forall c1 c2, cn_equiv c1 c2 -> cn_equiv (f c1) (f c2)) ->
  SEq s1 s2 -> SEq (upd_node s1 n f) (upd_node s2 n f).
Proof.
  intros Hf H. unfold upd_node. apply SEq_set_nodes; [|exact H].
  apply Forall2_upd_nth; [exact Hf|apply (se_nodes H)].
Qed.

Lemma SEq_upd_dec s1 s2 d f :
  (forall c1 c2, dn_equiv c1 c2 -> dn_equiv (f c1) (f c2)) ->
  SEq s1 s2 -> SEq (upd_dec s1 d f) (upd_dec s2 d f).
Proof.
  intros Hf H. unfold upd_dec. apply SEq_set_decs; [|exact H].
  apply Forall2_upd_nth; [exact Hf|apply (se_decs H)].
Qed.

Lemma SEq_set_onstack s1 s2 n b : SEq s1 s2 -> SEq (set_onstack s1 n b) (set_onstack s2 n b).
Proof. apply SEq_upd_node. intros c1 c2 []; constructor; cbn; auto. Qed.

Lemma SEq_set_called s1 s2 n : SEq s1 s2 -> SEq (set_called s1 n) (set_called s2 n).
Proof. apply SEq_upd_node. intros c1 c2 []; constructor; cbn; auto. Qed.

Lemma SEq_set_dstate s1 s2 d x : SEq s1 s2 -> SEq (set_dstate s1 d x) (set_dstate s2 d x).
Proof. apply SEq_upd_dec. intros c1 c2 []; constructor; cbn; auto. Qed.

Lemma SEq_add_event ev s1 s2 : SEq s1 s2 -> SEq (add_event ev s1) (add_event ev s2).
Proof. intros []; constructor; cbn; auto. congruence. Qed.

Lemma SEq_fold {A} (f : state -> A -> state) l :
  (forall a s1 s2, SEq s1 s2 -> SEq (f s1 a) (f s2 a)) ->
  forall s1 s2, SEq s1 s2 -> SEq (fold_left f l s1) (fold_left f l s2).
Proof.
  intros Hf. induction l as [|a t IH]; intros s1 s2 H; cbn [fold_left]; [exact H|].
  apply IH. apply Hf. exact H.
Qed.

(* ---------- everything that is read is the same on both sides ---------- *)

Section Reads.
  Context {s1 s2 : state}.
  Hypothesis H : SEq s1 s2.

  Lemma get_scope_seq a : get_scope s1 a = get_scope s2 a.
  Proof. unfold get_scope. now rewrite (se_scopes H). Qed.

  Lemma get_node_seq n : cn_equiv (get_node s1 n) (get_node s2 n).
  Proof. unfold get_node. apply Forall2_nth_gen; [apply cn_equiv_refl|apply (se_nodes H)]. Qed.

  Lemma get_dec_seq d : dn_equiv (get_dec s1 d) (get_dec s2 d).
  Proof. unfold get_dec. apply Forall2_nth_gen; [apply dn_equiv_refl|apply (se_decs H)]. Qed.

  Lemma nodes_len_seq : length (st_nodes s1) = length (st_nodes s2).
  Proof. exact (Forall2_len _ _ _ (se_nodes H)). Qed.

  Lemma decs_len_seq : length (st_decs s1) = length (st_decs s2).
  Proof. exact (Forall2_len _ _ _ (se_decs H)). Qed.

  Lemma get_count_seq f : get_count s1 f = get_count s2 f.
  Proof. unfold get_count. now rewrite (se_count H). Qed.

  Lemma path_fuel_seq fuel : forall s, path_fuel fuel s1 s = path_fuel fuel s2 s.
  Proof.
    induction fuel as [|f IH]; intros s; cbn [path_fuel]; [reflexivity|].
    rewrite get_scope_seq. destruct (s_parent (get_scope s2 s)); [|reflexivity].
    now rewrite IH.
  Qed.

  Lemma path_seq s : path s1 s = path s2 s.
  Proof. unfold path. rewrite (se_scopes H). apply path_fuel_seq. Qed.

  Lemma subtree_fuel_seq fuel : forall s, subtree_fuel fuel s1 s = subtree_fuel fuel s2 s.
  Proof.
    induction fuel as [|f IH]; intros s; cbn [subtree_fuel]; [reflexivity|].
    rewrite get_scope_seq. f_equal. apply flat_map_ext. intros a. apply IH.
  Qed.

  Lemma subtree_seq s : subtree s1 s = subtree s2 s.
  Proof. unfold subtree. rewrite (se_scopes H). apply subtree_fuel_seq. Qed.

  Lemma providers_at_seq s k : providers_at s1 s k = providers_at s2 s k.
  Proof. unfold providers_at. now rewrite get_scope_seq. Qed.

  Lemma providers_on_path_seq s k : providers_on_path s1 s k = providers_on_path s2 s k.
  Proof.
    unfold providers_on_path. rewrite path_seq. apply flat_map_ext. intros a. apply providers_at_seq.
  Qed.

  Lemma has_provider_seq s k : has_provider s1 s k = has_provider s2 s k.
  Proof. unfold has_provider. now rewrite providers_on_path_seq. Qed.

  Lemma shallow_missing_seq v ls : shallow_missing s1 v ls = shallow_missing s2 v ls.
  Proof.
    unfold shallow_missing. apply flat_map_ext. intros [k [|]|k s]; try reflexivity.
    now rewrite has_provider_seq, get_scope_seq.
  Qed.

  Lemma find_dec_seq v k : find_dec s1 v k = find_dec s2 v k.
  Proof.
    unfold find_dec. rewrite path_seq. apply find_map_ext_l. intros s.
    rewrite get_scope_seq.
    destruct (alookup key_eqb k (s_decorators (get_scope s2 s))) as [d|]; [|reflexivity].
    now rewrite (dq_state (get_dec_seq d)).
  Qed.

  Lemma find_provider_seq k bs : find_provider s1 bs k = find_provider s2 bs k.
  Proof.
    induction bs as [|b t IH]; cbn [find_provider]; [reflexivity|].
    rewrite get_scope_seq, providers_at_seq, IH. reflexivity.
  Qed.

  Lemma find_map_dvalues_seq k l :
    find_map (fun s => alookup key_eqb k (s_dvalues (get_scope s1 s))) l =
    find_map (fun s => alookup key_eqb k (s_dvalues (get_scope s2 s))) l.
  Proof. apply find_map_ext_l. intros s. now rewrite get_scope_seq. Qed.

  Lemma find_map_dgroups_seq k l :
    find_map (fun s => alookup key_eqb k (s_dgroups (get_scope s1 s))) l =
    find_map (fun s => alookup key_eqb k (s_dgroups (get_scope s2 s))) l.
  Proof. apply find_map_ext_l. intros s. now rewrite get_scope_seq. Qed.

  Lemma groups_on_path_seq k l :
    flat_map (fun s => alookup_list key_eqb k (s_groups (get_scope s1 s))) l =
    flat_map (fun s => alookup_list key_eqb k (s_groups (get_scope s2 s))) l.
  Proof. apply flat_map_ext. intros s. now rewrite get_scope_seq. Qed.

  (* the per-scope dependency graph: [edges_of] reads [sig_leaves] only *)
  Lemma order_in_seq a g : order_in s1 a g = order_in s2 a g.
  Proof. unfold order_in. now rewrite get_scope_seq. Qed.

  Lemma leaf_edges_seq a n ls : forall i, leaf_edges s1 a n i ls = leaf_edges s2 a n i ls.
  Proof.
    induction ls as [|l t IH]; intros i; cbn [leaf_edges]; [reflexivity|].
    destruct l as [k o|k s]; rewrite IH.
    - rewrite providers_on_path_seq. f_equal. apply map_ext. intros m. apply order_in_seq.
    - now rewrite order_in_seq.
  Qed.

  Lemma edges_of_seq a g : edges_of s1 a g = edges_of s2 a g.
  Proof.
    destruct g as [n|n i]; cbn [edges_of];
      rewrite (sig_equiv_leaves (ce_sig (get_node_seq n))).
    - apply leaf_edges_seq.
    - destruct (nth_error (sig_leaves (c_sig (get_node s2 n))) i) as [[k o|k s]|]; try reflexivity.
      rewrite providers_on_path_seq. apply map_ext. intros m. apply order_in_seq.
  Qed.

  Lemma scope_graph_seq a : scope_graph s1 a = scope_graph s2 a.
  Proof.
    unfold scope_graph. rewrite get_scope_seq. apply map_ext. intros g. apply edges_of_seq.
  Qed.

  Lemma snapshot_seq A : snapshot s1 A = snapshot s2 A.
  Proof. unfold snapshot. apply map_ext. intros a. now rewrite get_scope_seq. Qed.

  Lemma eval_fuel_seq : eval_fuel s1 = eval_fuel s2.
  Proof. unfold eval_fuel. now rewrite nodes_len_seq, decs_len_seq. Qed.
End Reads.

(* ================================================================== *)
(* Part 4 : registration                                               *)
(* ================================================================== *)

Lemma new_scope_seq s1 s2 p : SEq s1 s2 -> SEq (new_scope s1 p) (new_scope s2 p).
Proof.
  intros H. unfold new_scope. cbv zeta.
  rewrite (get_scope_seq H p), (se_scopes H).
  apply SEq_upd_scope. apply SEq_set_scopes. exact H.
Qed.

Lemma decorate_seq s1 s2 s p1 p2 :
  din_equiv p1 p2 -> SEq s1 s2 ->
  fst (decorate s1 s p1) = fst (decorate s2 s p2) /\
  SEq (snd (decorate s1 s p1)) (snd (decorate s2 s p2)).
Proof.
  intros P H. unfold decorate. cbv zeta.
  rewrite (sig_equiv_dec_keys (de_sig P)), (get_scope_seq H s), (decs_len_seq H).
  destruct (negb _ || existsb _ _); cbn [fst snd]; [split; [reflexivity|exact H]|].
  split; [reflexivity|].
  apply SEq_upd_scope. apply SEq_set_decs; [|exact H].
  apply Forall2_app; [apply (se_decs H)|]. constructor; [|constructor].
  constructor; cbn; try reflexivity; apply P.
Qed.

Lemma verify_loop_seq d A : forall s1 s2,
  SEq s1 s2 ->
  fst (verify_loop d A s1) = fst (verify_loop d A s2) /\
  SEq (snd (verify_loop d A s1)) (snd (verify_loop d A s2)).
Proof.
  induction A as [|a t IH]; intros s1 s2 H; cbn [verify_loop].
  - split; [reflexivity|exact H].
  - assert (H1 : SEq (upd_scope s1 a (sc_set_verified false)) (upd_scope s2 a (sc_set_verified false)))
      by (apply SEq_upd_scope; exact H).
    cbv zeta. destruct d; [apply IH; exact H1|].
    rewrite (scope_graph_seq H1 a).
    destruct (is_acyclic (scope_graph (upd_scope s2 a (sc_set_verified false)) a)) as [[[|] ?]|];
      cbn [fst snd].
    + apply IH. apply SEq_upd_scope. exact H1.
    + split; [reflexivity|exact H1].
    + split; [reflexivity|exact H1].
Qed.

Lemma provide_seq cfg s1 s2 s0 p1 p2 :
  pin_equiv p1 p2 -> SEq s1 s2 ->
  fst (provide cfg s1 s0 p1) = fst (provide cfg s2 s0 p2) /\
  SEq (snd (provide cfg s1 s0 p1)) (snd (provide cfg s2 s0 p2)).
Proof.
  intros P H. unfold provide. cbv zeta.
  rewrite (pe_export P), (sig_equiv_leaves (pe_sig P)), (sig_equiv_rleaves (pe_sig P)),
          (sig_equiv_keys (pe_sig P)).
  set (s := if pi_export p2 then 0 else s0).
  rewrite (subtree_seq H s), (snapshot_seq H (subtree s2 s)), (nodes_len_seq H).
  set (A := subtree s2 s). set (snap := snapshot s2 A).
  set (node1 := mkCNode (pi_fn p1) (pi_sig p1) s s0 false false (pi_cb p1)).
  set (node2 := mkCNode (pi_fn p2) (pi_sig p2) s s0 false false (pi_cb p2)).
  set (gs := group_grefs (length (st_nodes s2)) 0 (sig_leaves (pi_sig p2)) ++ [GCtor (length (st_nodes s2))]).
  set (a1 := set_nodes s1 (st_nodes s1 ++ [node1])).
  set (b1 := set_nodes s2 (st_nodes s2 ++ [node2])).
  assert (H1 : SEq a1 b1).
  { apply SEq_set_nodes; [|exact H]. apply Forall2_app; [apply (se_nodes H)|].
    constructor; [|constructor]. constructor; cbn; try reflexivity; apply P. }
  set (a2 := fold_left (append_gnodes gs) A a1).
  set (b2 := fold_left (append_gnodes gs) A b1).
  assert (H2 : SEq a2 b2).
  { apply SEq_fold; [|exact H1]. intros a x y Hxy. unfold append_gnodes.
    apply SEq_upd_scope. exact Hxy. }
  assert (UNDO : forall x y, SEq x y ->
            SEq (set_nodes (rollback_gnodes snap x) (st_nodes s1))
                (set_nodes (rollback_gnodes snap y) (st_nodes s2))).
  { intros x y Hxy. apply SEq_set_nodes; [apply (se_nodes H)|]. unfold rollback_gnodes.
    apply SEq_fold; [|exact Hxy]. intros a u v Huv. apply SEq_upd_scope. exact Huv. }
  rewrite (get_scope_seq H2 s).
  destruct (dup_check _ _ _); cbn [fst snd].
  { split; [reflexivity|]. apply UNDO. exact H2. }
  destruct (is_nil _); cbn [fst snd].
  { split; [reflexivity|]. apply UNDO. exact H2. }
  match goal with |- context [verify_loop _ A ?x] =>
    match x with context [a2] => set (a3 := x) end end.
  match goal with |- context [verify_loop _ A ?x] =>
    match x with context [b2] => set (b3 := x) end end.
  assert (H3 : SEq a3 b3) by (apply SEq_upd_scope; exact H2).
  destruct (verify_loop_seq (cfg_defer cfg) A _ _ H3) as [E V].
  destruct (verify_loop (cfg_defer cfg) A a3) as [r1 a4].
  destruct (verify_loop (cfg_defer cfg) A b3) as [r2 b4].
  cbn [fst snd] in E, V. subst r2.
  destruct r1 as [[a|]|e|a]; cbn [fst snd]; (split; [reflexivity|]); try exact V.
  - apply UNDO. apply SEq_upd_scope. exact V.
  - apply SEq_upd_scope. exact V.
Qed.

(* ================================================================== *)
(* Part 5 : the two-run evaluator lemma                                *)
(* ================================================================== *)

(* EQUAL results (values, errors, aborts) and SEq states *)
Definition oeq (o1 o2 : out) : Prop := fst o1 = fst o2 /\ SEq (snd o1) (snd o2).
Definition loeq (o1 o2 : lres * state) : Prop := fst o1 = fst o2 /\ SEq (snd o1) (snd o2).

Section Two.
  Variable cfg : config.
  Variable b : beh.
  Variable du : dur.

  Lemma run_fn_seq r f args s1 s2 :
    SEq s1 s2 ->
    fst (run_fn cfg b du r f args s1) = fst (run_fn cfg b du r f args s2) /\
    SEq (snd (run_fn cfg b du r f args s1)) (snd (run_fn cfg b du r f args s2)).
  Proof.
    intros H. unfold run_fn. destruct (cfg_dry cfg); cbn [fst snd]; [split; [reflexivity|exact H]|].
    rewrite (get_count_seq H f). split; [reflexivity|].
    apply SEq_add_event. unfold bump_count, get_count, set_clock, set_count.
    destruct H; constructor; cbn; auto; congruence.
  Qed.

  Lemma callback_seq has f c start s1 s2 :
    SEq s1 s2 -> SEq (callback has f c start s1) (callback has f c start s2).
  Proof.
    intros H. unfold callback. destruct has; [|exact H].
    rewrite (se_clock H). apply SEq_add_event. exact H.
  Qed.

  Section Step.
    Variables rec1 rec2 : task -> state -> out.
    Hypothesis IH : forall t s1 s2, SEq s1 s2 -> oeq (rec1 t s1) (rec2 t s2).

    (* run both recursive calls; the results are equal *)
    Ltac both_rec t H HS x a1 b1 :=
      let HR := fresh "HR" in
      let r1 := fresh "r1" in
      destruct (IH t _ _ H) as [HR HS];
      destruct (rec1 t _) as [r1 a1];
      destruct (rec2 t _) as [x b1];
      cbn [fst snd] in HR, HS; subst r1.

    Lemma call_ctors_seq ns : forall s1 s2,
      SEq s1 s2 -> loeq (call_ctors rec1 ns s1) (call_ctors rec2 ns s2).
    Proof.
      induction ns as [|n t IHn]; intros s1 s2 H; cbn [call_ctors].
      - split; [reflexivity|exact H].
      - both_rec (TCallCtor n) H HS x a1 b1.
        destruct x as [x|x|x]; [apply IHn; exact HS| |]; (split; [reflexivity|exact HS]).
    Qed.

    Lemma call_group_decs_seq k bs : forall s1 s2,
      SEq s1 s2 -> loeq (call_group_decs rec1 k bs s1) (call_group_decs rec2 k bs s2).
    Proof.
      induction bs as [|s t IHb]; intros s1 s2 H; cbn [call_group_decs].
      - split; [reflexivity|exact H].
      - rewrite (get_scope_seq H s).
        destruct (alookup key_eqb k (s_decorators (get_scope s2 s))) as [d|]; [|apply IHb; exact H].
        rewrite (dq_state (get_dec_seq H d)).
        destruct (dstate_eqb (d_state (get_dec s2 d)) DOnStack); [apply IHb; exact H|].
        both_rec (TCallDec d) H HS x a1 b1.
        destruct x as [x|x|x]; [apply IHb; exact HS| |]; (split; [reflexivity|exact HS]).
    Qed.

    Lemma build_list_seq v ls : forall s1 s2,
      SEq s1 s2 -> oeq (build_list rec1 v ls s1) (build_list rec2 v ls s2).
    Proof.
      induction ls as [|l t IHl]; intros s1 s2 H; cbn [build_list].
      - split; [reflexivity|exact H].
      - both_rec (TLeaf v l) H HS x a1 b1.
        destruct x as [x|x|x]; [| |]; try (split; [reflexivity|exact HS]).
        destruct (IHl a1 b1 HS) as [HR' HS'].
        destruct (build_list rec1 v t a1) as [y1 a2];
        destruct (build_list rec2 v t b1) as [y2 b2];
        cbn [fst snd] in HR', HS'; subst y1.
        destruct y2; (split; [reflexivity|exact HS']).
    Qed.

    Lemma build_single_seq v k opt s1 s2 :
      SEq s1 s2 -> oeq (build_single rec1 v k opt s1) (build_single rec2 v k opt s2).
    Proof.
      intros H. unfold build_single. rewrite (find_dec_seq H).
      destruct (find_dec s2 v k) as [[d bsc]|].
      - both_rec (TCallDec d) H HS x a1 b1.
        destruct x as [x|x|x]; try (split; [reflexivity|exact HS]).
        rewrite (get_scope_seq HS bsc).
        destruct (alookup key_eqb k (s_dvalues (get_scope b1 bsc))); (split; [reflexivity|exact HS]).
      - rewrite (path_seq H), (find_map_dvalues_seq H k (path s2 v)).
        destruct (find_map _ (path s2 v)); [split; [reflexivity|exact H]|].
        rewrite (find_provider_seq H k (path s2 v)).
        destruct (find_provider s2 (path s2 v) k) as [a|bsc ns|].
        + split; [reflexivity|exact H].
        + destruct (call_ctors_seq ns _ _ H) as [HR HS].
          destruct (call_ctors rec1 ns s1) as [l1 a1];
          destruct (call_ctors rec2 ns s2) as [l2 b1];
          cbn [fst snd] in HR, HS; subst l1.
          destruct l2 as [|c e|a].
          * rewrite (get_scope_seq HS bsc).
            destruct (alookup key_eqb k (s_values (get_scope b1 bsc))); (split; [reflexivity|exact HS]).
          * destruct (opt && has_missingdeps e); (split; [reflexivity|exact HS]).
          * split; [reflexivity|exact HS].
        + destruct opt; (split; [reflexivity|exact H]).
    Qed.

    Lemma build_group_seq v k soft s1 s2 :
      SEq s1 s2 -> oeq (build_group rec1 v k soft s1) (build_group rec2 v k soft s2).
    Proof.
      intros H. unfold build_group. cbv zeta. rewrite (path_seq H).
      destruct (call_group_decs_seq k (rev (path s2 v)) _ _ H) as [HR HS].
      destruct (call_group_decs rec1 k (rev (path s2 v)) s1) as [l1 a1];
      destruct (call_group_decs rec2 k (rev (path s2 v)) s2) as [l2 b1];
      cbn [fst snd] in HR, HS; subst l1.
      destruct l2 as [|c e|a]; try (split; [reflexivity|exact HS]).
      rewrite (path_seq HS), (find_map_dgroups_seq HS k (path b1 v)).
      destruct (find_map _ (path b1 v)); [split; [reflexivity|exact HS]|].
      destruct soft.
      { rewrite (path_seq HS), (groups_on_path_seq HS). split; [reflexivity|exact HS]. }
      rewrite (providers_on_path_seq HS).
      destruct (call_ctors_seq (providers_on_path b1 v k) _ _ HS) as [R2 S2].
      destruct (call_ctors rec1 (providers_on_path b1 v k) a1) as [l1 a2];
      destruct (call_ctors rec2 (providers_on_path b1 v k) b1) as [l2 b2];
      cbn [fst snd] in R2, S2; subst l1.
      destruct l2 as [|c e|a]; try (split; [reflexivity|exact S2]).
      rewrite (path_seq S2), (groups_on_path_seq S2). split; [reflexivity|exact S2].
    Qed.

    Lemma call_ctor_seq n s1 s2 :
      SEq s1 s2 -> oeq (call_ctor cfg b du rec1 n s1) (call_ctor cfg b du rec2 n s2).
    Proof.
      intros H. unfold call_ctor. cbv zeta.
      pose proof (get_node_seq H n) as C.
      set (c1 := get_node s1 n) in *. set (c2 := get_node s2 n) in *.
      rewrite (ce_called C), (ce_onstack C), (ce_orig C), (ce_fn C), (ce_home C), (ce_cb C),
              (sig_equiv_leaves (ce_sig C)), (sig_equiv_build_seq (ce_sig C)),
              (sig_equiv_order (ce_sig C)), (sig_equiv_rleaves (ce_sig C)).
      destruct (c_called c2); [split; [reflexivity|exact H]|].
      destruct (c_onstack c2); [split; [reflexivity|exact H]|].
      assert (H0 : SEq (set_onstack s1 n true) (set_onstack s2 n true))
        by (apply SEq_set_onstack; exact H).
      rewrite (shallow_missing_seq H0).
      destruct (shallow_missing (set_onstack s2 n true) (c_orig c2) (sig_leaves (c_sig c2))).
      - both_rec (TLeaves (c_orig c2) (sig_build_seq (c_sig c2))) H0 HS x a1 b1.
        destruct x as [x|x|x].
        + rewrite (se_clock HS).
          destruct (run_fn_seq RoleCtor (c_fn c2) (place (sig_order (c_sig c2)) x) _ _ HS) as [E S].
          destruct (run_fn cfg b du RoleCtor (c_fn c2) (place (sig_order (c_sig c2)) x) a1) as [[o1 e1] a2].
          destruct (run_fn cfg b du RoleCtor (c_fn c2) (place (sig_order (c_sig c2)) x) b1) as [[o2 e2] b2].
          cbn [fst snd] in E, S. injection E as -> ->.
          destruct o2 as [lens| |].
          * split; [reflexivity|]. cbn [snd].
            apply SEq_set_onstack, callback_seq, SEq_set_called, SEq_upd_scope, S.
          * split; [reflexivity|]. cbn [snd]. apply SEq_set_onstack, callback_seq, S.
          * destruct (cfg_recover cfg); (split; [reflexivity|]); cbn [snd];
              apply SEq_set_onstack, callback_seq, S.
        + split; [reflexivity|]. cbn [snd]. apply SEq_set_onstack, HS.
        + split; [reflexivity|]. cbn [snd]. apply SEq_set_onstack, HS.
      - split; [reflexivity|]. cbn [snd]. apply SEq_set_onstack, H0.
    Qed.

    Lemma call_dec_seq d s1 s2 :
      SEq s1 s2 -> oeq (call_dec cfg b du rec1 d s1) (call_dec cfg b du rec2 d s2).
    Proof.
      intros H. unfold call_dec. cbv zeta.
      pose proof (get_dec_seq H d) as C.
      set (c1 := get_dec s1 d) in *. set (c2 := get_dec s2 d) in *.
      rewrite (dq_state C), (dq_home C), (dq_fn C), (dq_cb C),
              (sig_equiv_leaves (dq_sig C)), (sig_equiv_build_seq (dq_sig C)),
              (sig_equiv_order (dq_sig C)), (sig_equiv_rleaves (dq_sig C)).
      destruct (dstate_eqb (d_state c2) DCalled); [split; [reflexivity|exact H]|].
      assert (H0 : SEq (set_dstate s1 d DOnStack) (set_dstate s2 d DOnStack))
        by (apply SEq_set_dstate; exact H).
      rewrite (shallow_missing_seq H0).
      destruct (shallow_missing (set_dstate s2 d DOnStack) (d_home c2) (sig_leaves (d_sig c2))).
      - both_rec (TLeaves (d_home c2) (sig_build_seq (d_sig c2))) H0 HS x a1 b1.
        destruct x as [x|x|x].
        + rewrite (se_clock HS).
          destruct (run_fn_seq RoleDec (d_fn c2) (place (sig_order (d_sig c2)) x) _ _ HS) as [E S].
          destruct (run_fn cfg b du RoleDec (d_fn c2) (place (sig_order (d_sig c2)) x) a1) as [[o1 e1] a2].
          destruct (run_fn cfg b du RoleDec (d_fn c2) (place (sig_order (d_sig c2)) x) b1) as [[o2 e2] b2].
          cbn [fst snd] in E, S. injection E as -> ->.
          destruct o2 as [lens| |].
          * split; [reflexivity|]. cbn [snd].
            apply callback_seq, SEq_set_dstate, SEq_upd_scope, S.
          * split; [reflexivity|]. cbn [snd]. apply callback_seq, SEq_set_dstate, S.
          * destruct (cfg_recover cfg); (split; [reflexivity|]); cbn [snd];
              apply callback_seq, SEq_set_dstate, S.
        + split; [reflexivity|]. cbn [snd]. apply SEq_set_dstate, HS.
        + split; [reflexivity|]. cbn [snd]. apply SEq_set_dstate, HS.
      - split; [reflexivity|]. cbn [snd]. apply SEq_set_dstate, H0.
    Qed.

    Lemma evalF_seq t s1 s2 :
      SEq s1 s2 -> oeq (evalF cfg b du rec1 t s1) (evalF cfg b du rec2 t s2).
    Proof.
      intros H. destruct t as [v [k o|k s]|v ls|n|d]; cbn [evalF].
      - apply build_single_seq; exact H.
      - apply build_group_seq; exact H.
      - apply build_list_seq; exact H.
      - apply call_ctor_seq; exact H.
      - apply call_dec_seq; exact H.
    Qed.
  End Step.

  (* the two-run lemma: direct induction on the fuel *)
  Theorem eval_seq fuel : forall t s1 s2,
    SEq s1 s2 -> oeq (eval cfg b du fuel t s1) (eval cfg b du fuel t s2).
  Proof.
    induction fuel as [|f IHf]; intros t s1 s2 H; cbn [eval].
    - split; [reflexivity|exact H].
    - apply evalF_seq; [exact IHf|exact H].
  Qed.

  (* ================================================================== *)
  (* Part 6 : operations and histories                                   *)
  (* ================================================================== *)

  (* what Invoke does once the scope is verified *)
  Definition inv_tail (s : sid) (p : invoke_in) (st1 : state) : verdict * state :=
    match eval cfg b du (eval_fuel st1) (TLeaves s (sig_build_seq (ii_sig p))) st1 with
    | (Fail e, st2) => (VErr (wrap LArgsFailed e), st2)
    | (Abort a, st2) => (VAbort a, st2)
    | (Done built, st2) =>
        match run_fn cfg b du RoleInv (ii_fn p) (place (sig_order (ii_sig p)) built) st2 with
        | (OOk _, _, st3) => (VOk, st3)
        | (OErr, e, st3) => (VErr (mkErr [] (RUser (ii_fn p) e)), st3)
        | (OPanic, e, st3) =>
            if cfg_recover cfg then (VErr (mkErr [] (RPanic (ii_fn p) e)), st3)
            else (VAbort (APanicked (ii_fn p) e), st3)
        end
    end.

  Lemma inv_tail_seq s p1 p2 s1 s2 :
    iin_equiv p1 p2 -> SEq s1 s2 ->
    fst (inv_tail s p1 s1) = fst (inv_tail s p2 s2) /\
    SEq (snd (inv_tail s p1 s1)) (snd (inv_tail s p2 s2)).
  Proof.
    intros P H. unfold inv_tail.
    rewrite (eval_fuel_seq H), (sig_equiv_build_seq (ie_sig P)), (sig_equiv_order (ie_sig P)), (ie_fn P).
    destruct (eval_seq (eval_fuel s2) (TLeaves s (sig_build_seq (ii_sig p2))) _ _ H) as [HR HS].
    destruct (eval cfg b du (eval_fuel s2) (TLeaves s (sig_build_seq (ii_sig p2))) s1) as [r1 a1];
    destruct (eval cfg b du (eval_fuel s2) (TLeaves s (sig_build_seq (ii_sig p2))) s2) as [x b1];
    cbn [fst snd] in HR, HS; subst r1.
    destruct x as [x|x|x]; try (split; [reflexivity|exact HS]).
    destruct (run_fn_seq RoleInv (ii_fn p2) (place (sig_order (ii_sig p2)) x) _ _ HS) as [E S].
    destruct (run_fn cfg b du RoleInv (ii_fn p2) (place (sig_order (ii_sig p2)) x) a1) as [[o1 e1] a2].
    destruct (run_fn cfg b du RoleInv (ii_fn p2) (place (sig_order (ii_sig p2)) x) b1) as [[o2 e2] b2].
    cbn [fst snd] in E, S. injection E as -> ->.
    destruct o2 as [lens| |]; try (split; [reflexivity|exact S]).
    destruct (cfg_recover cfg); (split; [reflexivity|exact S]).
  Qed.

  Lemma invoke_seq s1 s2 s p1 p2 :
    iin_equiv p1 p2 -> SEq s1 s2 ->
    fst (invoke cfg b du s1 s p1) = fst (invoke cfg b du s2 s p2) /\
    SEq (snd (invoke cfg b du s1 s p1)) (snd (invoke cfg b du s2 s p2)).
  Proof.
    intros P H. unfold invoke. cbv zeta.
    rewrite (sig_equiv_leaves (ie_sig P)), (shallow_missing_seq H).
    destruct (shallow_missing s2 s (sig_leaves (ii_sig p2))); [|split; [reflexivity|exact H]].
    rewrite (get_scope_seq H s), (scope_graph_seq H s).
    destruct (s_verified (get_scope s2 s)).
    - apply (inv_tail_seq s p1 p2 _ _ P H).
    - destruct (is_acyclic (scope_graph s2 s)) as [[[|] ?]|].
      + apply (inv_tail_seq s p1 p2 _ _ P). apply SEq_upd_scope. exact H.
      + split; [reflexivity|exact H].
      + split; [reflexivity|exact H].
  Qed.

  Lemma step_seq o1 o2 s1 s2 :
    op_equiv o1 o2 -> SEq s1 s2 ->
    fst (step cfg b du s1 o1) = fst (step cfg b du s2 o2) /\
    SEq (snd (step cfg b du s1 o1)) (snd (step cfg b du s2 o2)).
  Proof.
    intros O H. destruct O as [p|s p1 p2 P|s p1 p2 P|s p1 p2 P|k s f]; cbn [step].
    - split; [reflexivity|]. apply new_scope_seq. exact H.
    - apply provide_seq; assumption.
    - apply decorate_seq; assumption.
    - apply invoke_seq; assumption.
    - split; [reflexivity|exact H].
  Qed.

  Lemma run_from_seq h1 h2 : hist_equiv h1 h2 -> forall s1 s2,
    SEq s1 s2 ->
    fst (run_from cfg b du s1 h1) = fst (run_from cfg b du s2 h2) /\
    SEq (snd (run_from cfg b du s1 h1)) (snd (run_from cfg b du s2 h2)).
  Proof.
    induction 1 as [|o1 o2 t1 t2 O _ IHh]; intros s1 s2 H.
    - split; [reflexivity|exact H].
    - rewrite !run_from_cons. cbn [fst snd].
      destruct (step_seq _ _ _ _ O H) as [E HS]. destruct (IHh _ _ HS) as [E2 HS2].
      split; [|exact HS2]. rewrite E, (se_log H), (se_log HS), E2. reflexivity.
  Qed.

  (* C15: equivalent encodings give IDENTICAL runs — every verdict with its
     whole error chain, every event with its arguments and callback runtimes *)
  Theorem C15_run_equal h1 h2 :
    hist_equiv h1 h2 -> run cfg b du h1 = run cfg b du h2.
  Proof. intros E. unfold run. apply (run_from_seq _ _ E). apply SEq_refl. Qed.

  Theorem C15_state_after h1 h2 :
    hist_equiv h1 h2 -> SEq (state_after cfg b du h1) (state_after cfg b du h2).
  Proof. intros E. unfold state_after. apply (run_from_seq _ _ E). apply SEq_refl. Qed.

  (* checker form *)
  Theorem C15_checker h1 h2 :
    hist_equiv h1 h2 ->
    chk_C15 (map obs_of (run cfg b du h1)) (map obs_of (run cfg b du h2)) = [].
  Proof.
    intros E. rewrite (C15_run_equal _ _ E). unfold chk_C15. apply P_C06.chk_eq_obs_refl.
  Qed.
End Two.

Print Assumptions eval_seq.
Print Assumptions C15_run_equal.
Print Assumptions C15_state_after.
Print Assumptions C15_checker.

(* the same with the configuration, the oracle and the durations quantified *)
Corollary C15_equivalent_encodings : forall cfg b du h1 h2,
  hist_equiv h1 h2 ->
  run cfg b du h1 = run cfg b du h2 /\
  map obs_of (run cfg b du h1) = map obs_of (run cfg b du h2) /\
  chk_C15 (map obs_of (run cfg b du h1)) (map obs_of (run cfg b du h2)) = [].
Proof.
  intros cfg b du h1 h2 E. split; [apply C15_run_equal; exact E|].
  split; [now rewrite (C15_run_equal cfg b du _ _ E)|apply C15_checker; exact E].
Qed.
Print Assumptions C15_equivalent_encodings.

(* ================================================================== *)
(* Part 7 : wrapping at ANY depth (inside objects too)                 *)
(* ================================================================== *)

(* the loop of paramObject.Build, named: (hard fields in order, soft groups) *)
Fixpoint obj_go (off : nat) (l : list param) : list nat * list nat :=
  match l with
  | [] => ([], [])
  | f :: t =>
      let r := obj_go (off + nleaves f) t in
      if is_soft_group f then (fst r, off :: snd r)
      else (build_order off f ++ fst r, snd r)
  end.

Lemma build_order_obj_go off fs :
  build_order off (PObj fs) = fst (obj_go off fs) ++ snd (obj_go off fs).
Proof.
  simpl.
  match goal with |- fst (?g off fs) ++ snd (?g off fs) = _ => set (go := g) end.
  assert (E : forall off, go off fs = obj_go off fs).
  { clear off. induction fs as [|f fs IH]; intros off; simpl; [reflexivity|].
    rewrite IH. reflexivity. }
  rewrite E. reflexivity.
Qed.

Lemma obj_go_app off a c :
  obj_go off (a ++ c) =
  (fst (obj_go off a) ++ fst (obj_go (off + length (decl_leaves_list a)) c),
   snd (obj_go off a) ++ snd (obj_go (off + length (decl_leaves_list a)) c)).
Proof.
  revert off. induction a as [|f a IH]; intros off.
  - cbn [app obj_go decl_leaves_list length fst snd]. rewrite Nat.add_0_r.
    destruct (obj_go off c); reflexivity.
  - cbn [app obj_go decl_leaves_list]. cbv zeta. rewrite IH. cbn [fst snd].
    rewrite app_length. unfold nleaves. rewrite Nat.add_assoc.
    destruct (is_soft_group f); cbn [fst snd]; [reflexivity|].
    rewrite app_assoc. reflexivity.
Qed.

Lemma obj_go_no_soft off ps : no_soft ps -> obj_go off ps = (build_order_list off ps, []).
Proof.
  intros H. revert off. induction H as [|f fs Hf _ IH]; intros off; cbn [obj_go build_order_list].
  - reflexivity.
  - cbv zeta. rewrite Hf, IH. reflexivity.
Qed.

Lemma obj_go_single_obj off fs : obj_go off [PObj fs] = (build_order off (PObj fs), []).
Proof. cbn [obj_go is_soft_group fst snd]. cbv zeta. rewrite app_nil_r. reflexivity. Qed.

(* two parameter lists are interchangeable in every context *)
Definition pl_same (ps ps' : list param) : Prop :=
  decl_leaves_list ps = decl_leaves_list ps' /\
  (forall off, build_order_list off ps = build_order_list off ps') /\
  (forall off, obj_go off ps = obj_go off ps').

(* one rewrite step: wrap a run without (own) soft groups into an object,
   at the top level or inside an object at any depth *)
Inductive prw : list param -> list param -> Prop :=
| prw_wrap a ps c : no_soft ps -> prw (a ++ ps ++ c) (a ++ [PObj ps] ++ c)
| prw_in a fs fs' c : prw fs fs' -> prw (a ++ [PObj fs] ++ c) (a ++ [PObj fs'] ++ c).

Lemma pl_same_context a m m' c :
  pl_same m m' -> pl_same (a ++ m ++ c) (a ++ m' ++ c).
Proof.
  intros (L & B & G). split; [|split].
  - rewrite !decl_leaves_list_app, L. reflexivity.
  - intros off. rewrite !build_order_list_app, L, B. reflexivity.
  - intros off. rewrite !obj_go_app, L, G. reflexivity.
Qed.

Lemma pl_same_wrap ps : no_soft ps -> pl_same ps [PObj ps].
Proof.
  intros H. split; [|split].
  - rewrite decl_leaves_list_single, decl_leaves_obj. reflexivity.
  - intros off. rewrite build_order_list_single, build_order_obj by exact H. reflexivity.
  - intros off. rewrite obj_go_single_obj, build_order_obj by exact H.
    apply obj_go_no_soft, H.
Qed.

Lemma pl_same_obj fs fs' : pl_same fs fs' -> pl_same [PObj fs] [PObj fs'].
Proof.
  intros (L & B & G).
  assert (E : forall off, build_order off (PObj fs) = build_order off (PObj fs'))
    by (intros off; rewrite !build_order_obj_go, G; reflexivity).
  split; [|split].
  - rewrite !decl_leaves_list_single, !decl_leaves_obj. exact L.
  - intros off. rewrite !build_order_list_single. apply E.
  - intros off. rewrite !obj_go_single_obj, E. reflexivity.
Qed.

Lemma prw_same ps ps' : prw ps ps' -> pl_same ps ps'.
Proof.
  induction 1 as [a ps c H|a fs fs' c _ IH].
  - apply pl_same_context, pl_same_wrap, H.
  - apply pl_same_context, pl_same_obj, IH.
Qed.

Theorem wrap_params_anywhere ps ps' rs e :
  prw ps ps' -> sig_equiv (mkSig ps rs e) (mkSig ps' rs e).
Proof.
  intros H. destruct (prw_same _ _ H) as (L & B & _).
  split; [exact L|]. split; [apply B|]. split; reflexivity.
Qed.
Print Assumptions wrap_params_anywhere.

(* results: wrap a run of results into a dig.Out object at any depth *)
Inductive rrw : list result -> list result -> Prop :=
| rrw_wrap a rs c : rrw (a ++ rs ++ c) (a ++ [RObj rs] ++ c)
| rrw_in a fs fs' c : rrw fs fs' -> rrw (a ++ [RObj fs] ++ c) (a ++ [RObj fs'] ++ c).

Lemma rrw_same rs rs' : rrw rs rs' -> decl_rleaves_list rs = decl_rleaves_list rs'.
Proof.
  induction 1 as [a rs c|a fs fs' c _ IH]; rewrite !decl_rleaves_list_app.
  - rewrite decl_rleaves_list_single, decl_rleaves_obj. reflexivity.
  - rewrite !decl_rleaves_list_single, !decl_rleaves_obj, IH. reflexivity.
Qed.

Theorem wrap_results_anywhere ps rs rs' e :
  rrw rs rs' -> sig_equiv (mkSig ps rs e) (mkSig ps rs' e).
Proof.
  intros H. split; [reflexivity|]. split; [reflexivity|]. split; [|reflexivity].
  apply rrw_same, H.
Qed.
Print Assumptions wrap_results_anywhere.

(* any number of such steps, in either direction, on parameters and results *)
Inductive sig_rw : fsig -> fsig -> Prop :=
| srw_params ps ps' rs e : prw ps ps' -> sig_rw (mkSig ps rs e) (mkSig ps' rs e)
| srw_results ps rs rs' e : rrw rs rs' -> sig_rw (mkSig ps rs e) (mkSig ps rs' e)
| srw_refl s : sig_rw s s
| srw_sym s1 s2 : sig_rw s1 s2 -> sig_rw s2 s1
| srw_trans s1 s2 s3 : sig_rw s1 s2 -> sig_rw s2 s3 -> sig_rw s1 s3.

Theorem sig_rw_equiv s1 s2 : sig_rw s1 s2 -> sig_equiv s1 s2.
Proof.
  induction 1.
  - apply wrap_params_anywhere; assumption.
  - apply wrap_results_anywhere; assumption.
  - apply sig_equiv_refl.
  - apply sig_equiv_sym; assumption.
  - eapply sig_equiv_trans; eassumption.
Qed.
Print Assumptions sig_rw_equiv.

(* ================================================================== *)
(* Part 8 : deciding equivalence                                       *)
(* ================================================================== *)

Definition pleaf_eqb (a c : pleaf) : bool :=
  match a, c with
  | LSingle k o, LSingle k' o' => key_eqb k k' && Bool.eqb o o'
  | LGroup k s, LGroup k' s' => key_eqb k k' && Bool.eqb s s'
  | _, _ => false
  end.

Definition rleaf_eqb (a c : rleaf) : bool :=
  match a, c with
  | QSingle ks, QSingle ks' => list_eqb key_eqb ks ks'
  | QGroup ks f, QGroup ks' f' => list_eqb key_eqb ks ks' && Bool.eqb f f'
  | _, _ => false
  end.

Definition sig_equivb (s1 s2 : fsig) : bool :=
  list_eqb pleaf_eqb (sig_leaves s1) (sig_leaves s2) &&
  list_eqb Nat.eqb (sig_order s1) (sig_order s2) &&
  list_eqb rleaf_eqb (sig_rleaves s1) (sig_rleaves s2) &&
  Bool.eqb (fs_err s1) (fs_err s2).

Definition badkind_eqb (a c : badkind) : bool :=
  match a, c with
  | BadProvide, BadProvide | BadDecorate, BadDecorate | BadInvoke, BadInvoke => true
  | _, _ => false
  end.

Definition op_equivb (o1 o2 : op) : bool :=
  match o1, o2 with
  | OScope p, OScope p' => Nat.eqb p p'
  | OProvide s p, OProvide s' p' =>
      Nat.eqb s s' && Nat.eqb (pi_fn p) (pi_fn p') && sig_equivb (pi_sig p) (pi_sig p') &&
      Bool.eqb (pi_export p) (pi_export p') && Bool.eqb (pi_cb p) (pi_cb p')
  | ODecorate s p, ODecorate s' p' =>
      Nat.eqb s s' && Nat.eqb (di_fn p) (di_fn p') && sig_equivb (di_sig p) (di_sig p') &&
      Bool.eqb (di_cb p) (di_cb p')
  | OInvoke s p, OInvoke s' p' =>
      Nat.eqb s s' && Nat.eqb (ii_fn p) (ii_fn p') && sig_equivb (ii_sig p) (ii_sig p')
  | OBad k s f, OBad k' s' f' => badkind_eqb k k' && Nat.eqb s s' && Nat.eqb f f'
  | _, _ => false
  end.

Fixpoint hist_equivb (h1 h2 : history) : bool :=
  match h1, h2 with
  | [], [] => true
  | o1 :: t1, o2 :: t2 => op_equivb o1 o2 && hist_equivb t1 t2
  | _, _ => false
  end.

Lemma list_eqb_spec {A} (eqb : A -> A -> bool) :
  (forall x y, eqb x y = true <-> x = y) ->
  forall l1 l2, list_eqb eqb l1 l2 = true <-> l1 = l2.
Proof.
  intros Hs l1. induction l1 as [|a t IH]; intros [|c t2]; cbn [list_eqb];
    try (split; [discriminate|discriminate]); [split; reflexivity|].
  rewrite andb_true_iff, Hs, IH. split; [intros [-> ->]; reflexivity|intros E; inversion E; auto].
Qed.

Lemma key_eqb_spec a c : key_eqb a c = true <-> a = c.
Proof.
  destruct a as [t n g], c as [t' n' g']. unfold key_eqb. cbn [k_ty k_name k_group].
  rewrite !andb_true_iff, !Nat.eqb_eq. split; [intros [[-> ->] ->]; reflexivity|].
  intros E; inversion E; auto.
Qed.

Lemma pleaf_eqb_spec a c : pleaf_eqb a c = true <-> a = c.
Proof.
  destruct a as [k o|k s], c as [k' o'|k' s']; cbn [pleaf_eqb];
    try (split; discriminate);
    rewrite andb_true_iff, key_eqb_spec, Bool.eqb_true_iff;
    (split; [intros [-> ->]; reflexivity|intros E; inversion E; auto]).
Qed.

Lemma rleaf_eqb_spec a c : rleaf_eqb a c = true <-> a = c.
Proof.
  destruct a as [ks|ks f], c as [ks'|ks' f']; cbn [rleaf_eqb]; try (split; discriminate).
  - rewrite (list_eqb_spec key_eqb key_eqb_spec).
    split; [intros ->; reflexivity|intros E; inversion E; auto].
  - rewrite andb_true_iff, (list_eqb_spec key_eqb key_eqb_spec), Bool.eqb_true_iff.
    split; [intros [-> ->]; reflexivity|intros E; inversion E; auto].
Qed.

Lemma sig_equivb_spec s1 s2 : sig_equivb s1 s2 = true <-> sig_equiv s1 s2.
Proof.
  unfold sig_equivb, sig_equiv.
  rewrite !andb_true_iff, (list_eqb_spec pleaf_eqb pleaf_eqb_spec),
    (list_eqb_spec Nat.eqb Nat.eqb_eq), (list_eqb_spec rleaf_eqb rleaf_eqb_spec), Bool.eqb_true_iff.
  tauto.
Qed.

Lemma badkind_eqb_spec a c : badkind_eqb a c = true <-> a = c.
Proof. destruct a, c; cbn; split; congruence. Qed.

Lemma op_equivb_spec o1 o2 : op_equivb o1 o2 = true <-> op_equiv o1 o2.
Proof.
  destruct o1 as [p|s p|s p|s p|k s f], o2 as [p'|s' p'|s' p'|s' p'|k' s' f']; cbn [op_equivb];
    try (split; [discriminate|intros E; inversion E]).
  - rewrite Nat.eqb_eq. split; [intros ->; constructor|intros E; inversion E; reflexivity].
  - rewrite !andb_true_iff, !Nat.eqb_eq, sig_equivb_spec, !Bool.eqb_true_iff. split.
    + intros [[[[-> A] B] C] D]. constructor. constructor; assumption.
    + intros E; inversion E as [|? ? ? []| | |]; subst. auto.
  - rewrite !andb_true_iff, !Nat.eqb_eq, sig_equivb_spec, !Bool.eqb_true_iff. split.
    + intros [[[-> A] B] C]. constructor. constructor; assumption.
    + intros E; inversion E as [| |? ? ? []| |]; subst. auto.
  - rewrite !andb_true_iff, !Nat.eqb_eq, sig_equivb_spec. split.
    + intros [[-> A] B]. constructor. constructor; assumption.
    + intros E; inversion E as [| | |? ? ? []|]; subst. auto.
  - rewrite !andb_true_iff, !Nat.eqb_eq, badkind_eqb_spec. split.
    + intros [[-> ->] ->]. constructor.
    + intros E; inversion E; subst. auto.
Qed.

Theorem hist_equivb_spec h1 h2 : hist_equivb h1 h2 = true <-> hist_equiv h1 h2.
Proof.
  revert h2. induction h1 as [|o1 t1 IH]; intros [|o2 t2]; cbn [hist_equivb].
  - split; [constructor|reflexivity].
  - split; [discriminate|intros E; inversion E].
  - split; [discriminate|intros E; inversion E].
  - rewrite andb_true_iff, op_equivb_spec, IH. split.
    + intros [A B]. constructor; assumption.
    + intros E; inversion E; subst. auto.
Qed.
Print Assumptions hist_equivb_spec.

(* the computational form of C15 *)
Corollary C15_run_equal_b cfg b du h1 h2 :
  hist_equivb h1 h2 = true -> run cfg b du h1 = run cfg b du h2.
Proof. intros E. apply C15_run_equal, hist_equivb_spec, E. Qed.
Print Assumptions C15_run_equal_b.

(* ================================================================== *)
(* Part 9 : worked examples and the boundary (deviation D15)           *)
(* ================================================================== *)

Module Example.
  Definition cfg : config := mkConfig false false false.
  Definition T1 := KV 1 0.
  Definition T3 := KV 3 0.
  Definition T4 := KV 4 0.
  Definition N5 := KV 5 7.          (* a NAMED result *)
  Definition G2 := KG 2 1.

  (* positional encodings *)
  Definition sgA  := mkSig [] [RSingle T1 []; RGroup G2 false []] false.
  Definition sgB  := mkSig [PSingle T1 false; PGroup G2 false; PSingle T3 true]
                           [RSingle T4 []; RSingle N5 []] true.
  Definition sgD  := mkSig [PSingle T1 false] [RSingle T1 []] false.
  Definition sgI  := mkSig [PSingle T4 false; PSingle N5 false; PGroup G2 true] [] false.

  (* the twins: parameters wrapped at depth 2 (the hard group G2 goes along,
     the soft group of the invoke stays at the top level), results wrapped,
     the named result moved into its own dig.Out (name as tag) *)
  Definition sgA' := mkSig [PObj []] [RObj [RSingle T1 []; RObj [RGroup G2 false []]]] false.
  Definition sgB' := mkSig [PObj [PObj [PSingle T1 false; PGroup G2 false]]; PObj [PSingle T3 true]]
                           [RObj [RSingle T4 []; RObj [RSingle N5 []]]] true.
  Definition sgD' := mkSig [PObj [PObj [PSingle T1 false]]] [RObj [RObj [RSingle T1 []]]] false.
  Definition sgI' := mkSig [PObj [PSingle T4 false; PObj [PSingle N5 false]]; PGroup G2 true] [] false.

  Definition h : history :=
    [ OScope 0;
      OProvide 0 (mkProvideIn 1 sgA false true);
      OProvide 1 (mkProvideIn 2 sgB false true);
      ODecorate 1 (mkDecorateIn 3 sgD true);
      OInvoke 1 (mkInvokeIn 4 sgI) ].
  Definition h' : history :=
    [ OScope 0;
      OProvide 0 (mkProvideIn 1 sgA' false true);
      OProvide 1 (mkProvideIn 2 sgB' false true);
      ODecorate 1 (mkDecorateIn 3 sgD' true);
      OInvoke 1 (mkInvokeIn 4 sgI') ].

  Definition bh : beh := beh_of [].
  Definition du : dur := dur_of [(1, [5%N]); (2, [7%N]); (3, [2%N])].

  Example twins_equivalent : hist_equivb h h' = true.
  Proof. vm_compute. reflexivity. Qed.

  Example twins_hist_equiv : hist_equiv h h'.
  Proof. apply hist_equivb_spec. exact twins_equivalent. Qed.

  (* by the theorem ... *)
  Example twins_same_run : run cfg bh du h = run cfg bh du h'.
  Proof. apply C15_run_equal. exact twins_hist_equiv. Qed.

  (* ... and by computation; the run is not trivial: three executions with
     their arguments and three callbacks *)
  Example twins_same_run_computed :
    run cfg bh du h = run cfg bh du h' /\
    map (fun o => overdict_of (so_verdict o)) (run cfg bh du h) = [OVOk; OVOk; OVOk; OVOk; OVOk] /\
    filter is_exec (flat_map so_events (run cfg bh du h)) =
      [ EExec 1 0 RoleCtor [] (OOk []);
        EExec 3 0 RoleDec [ASingle (AProd 1 0 0 0)] (OOk []);
        EExec 2 0 RoleCtor [ASingle (AProd 3 0 0 0); ASlice [AProd 1 0 1 0]; ASingle AZero] (OOk []);
        EExec 4 0 RoleInv [ASingle (AProd 2 0 0 0); ASingle (AProd 2 0 1 0); ASlice [AProd 1 0 1 0]] (OOk []) ] /\
    length (flat_map so_events (run cfg bh du h)) = 7 /\
    chk_C15 (map obs_of (run cfg bh du h)) (map obs_of (run cfg bh du h')) = [].
  Proof. vm_compute. repeat split. Qed.

  (* the twins are reachable by the rewrite steps of Part 7 *)
  Example sgB_rewrites : sig_rw sgB sgB'.
  Proof.
    unfold sgB, sgB'.
    eapply srw_trans; [apply srw_params;
      apply (prw_wrap [] [PSingle T1 false; PGroup G2 false] [PSingle T3 true]); repeat constructor|].
    eapply srw_trans; [apply srw_params;
      apply (prw_wrap [] [PObj [PSingle T1 false; PGroup G2 false]] [PSingle T3 true]); repeat constructor|].
    eapply srw_trans; [apply srw_params;
      apply (prw_wrap [PObj [PObj [PSingle T1 false; PGroup G2 false]]] [PSingle T3 true] []); repeat constructor|].
    eapply srw_trans; [apply srw_results;
      apply (rrw_wrap [RSingle T4 []] [RSingle N5 []] [])|].
    apply srw_results. apply (rrw_wrap [] [RSingle T4 []; RObj [RSingle N5 []]] []).
  Qed.

  (* ---------- the boundary: documented deviation D15 ---------- *)

  (* Sig level: a SOFT group moved into an object is built last, not in place
     ([sig_order] differs), so the two encodings are NOT equivalent — this is
     why [wrap_params_equiv] / [prw_wrap] demand [no_soft] of the wrapped run *)
  Definition sgS  := mkSig [PGroup G2 true; PSingle T4 false] [] false.
  Definition sgS' := mkSig [PObj [PGroup G2 true; PSingle T4 false]] [] false.

  Example D15_soft_group_order :
    sig_leaves sgS = sig_leaves sgS' /\
    sig_order sgS = [0; 1] /\ sig_order sgS' = [1; 0] /\
    sig_equivb sgS sgS' = false.
  Proof. vm_compute. repeat split. Qed.

  Example D15_not_equiv : ~ sig_equiv sgS sgS'.
  Proof. intros E. apply sig_equivb_spec in E. vm_compute in E. discriminate E. Qed.

  (* the same at P_Parse's level *)
  Example D15_build_seq :
    sig_build_seq sgS = [LGroup G2 true; LSingle T4 false] /\
    sig_build_seq sgS' = [LSingle T4 false; LGroup G2 true].
  Proof. split; reflexivity. Qed.

  (* run level: the soft group sees what has been executed before IT is
     built, so the re-encoding is observable — the function receives a
     different slice.  (In the positional form the soft group is built first
     and is empty; inside the object it is built after T4's constructor ran.) *)
  Definition hS (sg : fsig) : history :=
    [ OProvide 0 (mkProvideIn 2 (mkSig [] [RSingle T4 []; RGroup G2 false []] false) false false);
      OInvoke 0 (mkInvokeIn 4 sg) ].

  Example D15_observable :
    filter is_exec (flat_map so_events (run cfg bh du (hS sgS))) =
      [ EExec 2 0 RoleCtor [] (OOk []);
        EExec 4 0 RoleInv [ASlice []; ASingle (AProd 2 0 0 0)] (OOk []) ] /\
    filter is_exec (flat_map so_events (run cfg bh du (hS sgS'))) =
      [ EExec 2 0 RoleCtor [] (OOk []);
        EExec 4 0 RoleInv [ASlice [AProd 2 0 1 0]; ASingle (AProd 2 0 0 0)] (OOk []) ] /\
    chk_C15 (map obs_of (run cfg bh du (hS sgS))) (map obs_of (run cfg bh du (hS sgS'))) = [(1, 1501)].
  Proof. vm_compute. repeat split. Qed.
End Example.
