(* Check13.v — C13: the error-classification observations (flags) of each
   failed operation: model side computed through Err.v over the regenerated
   table, implementation side observed by the harness; and the property as a
   checker over the observed (verdict, flags). *)
From Dig Require Import Base Sig State Graph Register Resolve Run ErrTable Err ErrTableCheck Spec Check.

Definition model_flags (c : case) : list (option oflags) :=
  map (fun so => match so_verdict so with VErr e => Some (flags_now e) | _ => None end)
      (run (cs_cfg c) (beh_of (cs_beh c)) (dur_of (cs_dur c)) (cs_hist c)).

Fixpoint flags_diff (i : nat) (a b : list (option oflags)) : list nat :=
  match a, b with
  | x :: a', y :: b' => (if option_eqb oflags_eqb x y then [] else [i]) ++ flags_diff (S i) a' b'
  | [], [] => []
  | _, _ => [i]
  end.

(* codes: 1301 IsCycleDetected disagrees with the root   1302 errors.As(RootCause, dig.Error) wrong
          1303 RootCause is not the innermost error / chain not fully unwrappable
          1304 CanVisualizeError disagrees with the chain   1305 the invoked function's own error was wrapped
          1306 an error verdict without flags
          1307 a rejection of malformed input whose RootCause is not a dig.Error *)
Definition has_viz_kind (ls : list lkind) (r : rkind) : bool :=
  existsb (fun l => match l with KParamSingle | KParamGroup => true | _ => false end) ls ||
  match r with QMissing => true | _ => false end.

Definition rkind_is_dig (r : rkind) : bool :=
  match r with QMissing | QCycle | QInvalidLeaf | QGroupOpt => true | _ => false end.

Definition chk_flags_op (o : op) (ob : oobs) (fl : option oflags) : list nat :=
  match oo_verdict ob, fl with
  | OVErr ls r, Some f =>
      guardb (Bool.eqb (fl_is_cycle f) (match r with QCycle => true | _ => false end)) 1301 ++
      guardb (Bool.eqb (fl_as_dig f) (rkind_is_dig r)) 1302 ++
      guardb (fl_root_is_last f) 1303 ++
      guardb (Bool.eqb (fl_can_viz f) (has_viz_kind ls r)) 1304 ++
      match o, r with
      | OInvoke _ p, QUser g _ => if Nat.eqb g (ii_fn p) then guardb (is_nil ls) 1305 else []
      | OBad _ _ _, _ => guardb (fl_as_dig f) 1307
      | _, _ => []
      end
  | OVErr _ _, None => [1306]
  | _, _ => []
  end.

Fixpoint chk_C13_from (i : nat) (h : history) (obs : list oobs) (fls : list (option oflags)) : list viol :=
  match h, obs, fls with
  | o :: h', ob :: obs', f :: fls' => map (fun c => (i, c)) (chk_flags_op o ob f) ++ chk_C13_from (S i) h' obs' fls'
  | _, _, _ => []
  end.

Definition chk_C13 (h : history) (obs : list oobs) (fls : list (option oflags)) : list viol :=
  chk_C13_from 0 h obs fls.
