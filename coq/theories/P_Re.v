(* P_Re.v — theorems about the evaluator with re-entrant user code
   (ResolveRe.v / RunRe.v: the body of a constructor, a decorator or an invoked
   function may call Invoke on the container that is running it).

   1  the builders of Resolve.v depend on [rec] only pointwise
   2  CONSERVATIVITY  run_re cfg b (fun _ _ => []) du h = run cfg b du h
      ([run_re_conservative], for every nesting budget [run_re_d_conservative]):
      every theorem about [run] is a theorem about [run_re] on histories
      without re-entrant bodies
   3  a generic pass for eval_re ([eval_re_rel]: relations closed under the
      primitive updates); the frame of P_Once ([eval_re_frame])
   4  re-entrant runs never make dig crash on its own: no ABug
      ([run_re_never_bug]); nothing is left on the resolution stack between
      operations ([quiescent_state_after_re]).  Invariants of P_Term.
   5  the core clause of C02: a constructor that is on the stack is never
      executed, by anything, at any nesting depth ([onstack_never_executed]);
      one activation executes its function at most once ([ctor_activation_once])
   6  execution indices (code 201) on re-entrant runs ([run_re_counters])
   7  provenance (code 203) on re-entrant runs ([run_re_cache_sound]): no value
      of an execution that has not returned is ever observed
   8  the checker: chk_C02 on a re-entrant run can only report 202 or 204
      ([chk_C02_re_codes]); 204 only for divergence (4); 202 does occur
      ([ex_unwound_202]): chk_C02 = [] is NOT a theorem of re-entrant runs
   9  examples by vm_compute: the model's observations are the recorded
      implementation traces

   NOT proved here: chk_C02 ... = [] for re-entrant runs under a hypothesis that
   excludes aborts unwinding through bodies (code 202: the invariant
   P_Once.inv_once with nested executions), and the absence of AFuel (fuel and
   nesting-depth sufficiency). *)
From Dig Require Import Base Sig State Graph GraphProofs Register Resolve Run EvalInd Spec Check ResolveRe RunRe.
From Dig Require Import P_Events P_Frame P_Once P_Term.
From Coq Require Import List Arith Bool NArith Lia PeanoNat.
Import ListNotations.

(* ====================================================================== *)
(* 1. The parameter builders of Resolve.v depend on their [rec] argument   *)
(*    only pointwise (no functional extensionality axiom is used).         *)
(* ====================================================================== *)

Section Ext.
  Variables r1 r2 : task -> state -> out.
  Hypothesis Hr : forall t st, r1 t st = r2 t st.

  Lemma call_ctors_ext ns : forall st, call_ctors r1 ns st = call_ctors r2 ns st.
  Proof.
    induction ns as [|n t IH]; intros st; cbn [call_ctors]; [reflexivity|].
    rewrite Hr. destruct (r2 (TCallCtor n) st) as [[x|e|a] st1]; [apply IH|reflexivity|reflexivity].
  Qed.

  Lemma call_group_decs_ext k bs : forall st, call_group_decs r1 k bs st = call_group_decs r2 k bs st.
  Proof.
    induction bs as [|s t IH]; intros st; cbn [call_group_decs]; [reflexivity|].
    destruct (alookup key_eqb k (s_decorators (get_scope st s))) as [d|]; [|apply IH].
    destruct (dstate_eqb (d_state (get_dec st d)) DOnStack); [apply IH|].
    rewrite Hr. destruct (r2 (TCallDec d) st) as [[x|e|a] st1]; [apply IH|reflexivity|reflexivity].
  Qed.

  Lemma build_list_ext v ls : forall st, build_list r1 v ls st = build_list r2 v ls st.
  Proof.
    induction ls as [|l t IH]; intros st; cbn [build_list]; [reflexivity|].
    rewrite Hr. destruct (r2 (TLeaf v l) st) as [[x|e|a] st1]; [|reflexivity|reflexivity].
    rewrite IH. reflexivity.
  Qed.

  Lemma build_single_ext v k opt st : build_single r1 v k opt st = build_single r2 v k opt st.
  Proof.
    unfold build_single.
    destruct (find_dec st v k) as [[d bsc]|].
    - rewrite Hr. reflexivity.
    - destruct (find_map _ (path st v)); [reflexivity|].
      destruct (find_provider st (path st v) k); [reflexivity| |reflexivity].
      rewrite call_ctors_ext. reflexivity.
  Qed.

  Lemma build_group_ext v k soft st : build_group r1 v k soft st = build_group r2 v k soft st.
  Proof.
    unfold build_group. rewrite call_group_decs_ext.
    destruct (call_group_decs r2 k (rev (path st v)) st) as [[|c e|a] st1]; [|reflexivity|reflexivity].
    destruct (find_map _ (path st1 v)); [reflexivity|].
    destruct soft; [reflexivity|]. rewrite call_ctors_ext. reflexivity.
  Qed.
End Ext.

(* ====================================================================== *)
(* 2. Conservativity                                                      *)
(* ====================================================================== *)

Definition no_nest : nestor := fun _ _ => [].

Section Conservative.
  Variable cfg : config.
  Variable b : beh.
  Variable du : dur.

  Lemma run_fn_re_nil rec r f args st :
    run_fn_re cfg b no_nest du rec r f args st =
    (FOut (fst (fst (run_fn cfg b du r f args st))),
     snd (fst (run_fn cfg b du r f args st)),
     snd (run_fn cfg b du r f args st)).
  Proof.
    unfold run_fn_re. destruct (run_fn cfg b du r f args st) as [[o e] st1]. cbn [fst snd].
    destruct (cfg_dry cfg); reflexivity.
  Qed.

  Section Step.
    Variable rec : rtask -> state -> out.
    Variable r : task -> state -> out.
    Hypothesis Hrec : forall t st, rec (TOld t) st = r t st.

    Lemma call_ctor_re_nil n st : call_ctor_re cfg b no_nest du rec n st = call_ctor cfg b du r n st.
    Proof.
      unfold call_ctor_re, call_ctor.
      destruct (c_called (get_node st n)); [reflexivity|].
      destruct (c_onstack (get_node st n)); [reflexivity|].
      destruct (shallow_missing _ _ _); [|reflexivity].
      rewrite Hrec.
      destruct (r _ _) as [[built|e|a] st1]; [|reflexivity|reflexivity].
      rewrite run_fn_re_nil.
      destruct (run_fn cfg b du RoleCtor _ _ st1) as [[o e] st2]. cbn [fst snd].
      destruct o; reflexivity.
    Qed.

    Lemma call_dec_re_nil d st : call_dec_re cfg b no_nest du rec d st = call_dec cfg b du r d st.
    Proof.
      unfold call_dec_re, call_dec.
      destruct (dstate_eqb _ DCalled); [reflexivity|].
      destruct (shallow_missing _ _ _); [|reflexivity].
      rewrite Hrec.
      destruct (r _ _) as [[built|e|a] st1]; [|reflexivity|reflexivity].
      rewrite run_fn_re_nil.
      destruct (run_fn cfg b du RoleDec _ _ st1) as [[o e] st2]. cbn [fst snd].
      destruct o; reflexivity.
    Qed.

    Lemma evalF_re_nil t st : evalF_re cfg b no_nest du rec (TOld t) st = evalF cfg b du r t st.
    Proof.
      destruct t as [v [k opt|k soft]|v ls|n|d]; cbn [evalF_re evalF].
      - apply build_single_ext. exact Hrec.
      - apply build_group_ext. exact Hrec.
      - apply build_list_ext. exact Hrec.
      - apply call_ctor_re_nil.
      - apply call_dec_re_nil.
    Qed.
  End Step.

  (* the evaluator of one Invoke, whatever nested Invokes would resolve to *)
  Lemma eval_lvl_nil inv : forall fuel t st,
    eval_lvl cfg b no_nest du inv fuel (TOld t) st = eval cfg b du fuel t st.
  Proof.
    induction fuel as [|f IH]; intros t st; cbn [eval_lvl eval]; [reflexivity|].
    apply evalF_re_nil. intros t' st'. cbn [dispatch]. apply IH.
  Qed.

  Lemma eval_re_nil depth fuel t st :
    eval_re cfg b no_nest du depth fuel (TOld t) st = eval cfg b du fuel t st.
  Proof. apply eval_lvl_nil. Qed.

  Lemma invoke_tail_re_nil rec fuel s p st1 :
    (forall t st, rec (TOld t) st = eval cfg b du fuel t st) ->
    invoke_tail_re cfg b no_nest du rec s p st1 =
    match eval cfg b du fuel (TLeaves s (sig_build_seq (ii_sig p))) st1 with
    | (Fail e, st2) => (Fail (wrap LArgsFailed e), st2)
    | (Abort a, st2) => (Abort a, st2)
    | (Done built, st2) =>
        match run_fn cfg b du RoleInv (ii_fn p) (place (sig_order (ii_sig p)) built) st2 with
        | (OOk _, _, st3) => (Done [], st3)
        | (OErr, e, st3) => (Fail (mkErr [] (RUser (ii_fn p) e)), st3)
        | (OPanic, e, st3) =>
            if cfg_recover cfg then (Fail (mkErr [] (RPanic (ii_fn p) e)), st3)
            else (Abort (APanicked (ii_fn p) e), st3)
        end
    end.
  Proof.
    intros Hrec. unfold invoke_tail_re. rewrite Hrec.
    destruct (eval cfg b du fuel _ st1) as [[built|e|a] st2]; [|reflexivity|reflexivity].
    rewrite run_fn_re_nil.
    destruct (run_fn cfg b du RoleInv _ _ st2) as [[o e] st3]. cbn [fst snd].
    destruct o; reflexivity.
  Qed.

  Lemma invoke_re_nil depth st s p :
    invoke_re cfg b no_nest du depth st s p = invoke cfg b du st s p.
  Proof.
    unfold invoke_re, invoke. cbn [invoke_lvl eval_lvl evalF_re]. unfold invoke_body.
    destruct (shallow_missing st s (sig_leaves (ii_sig p))); [|reflexivity].
    assert (Hgo : forall st1, eval_fuel st1 = eval_fuel st ->
      (let r := invoke_tail_re cfg b no_nest du
                  (dispatch (invoke_lvl cfg b no_nest du depth)
                     (eval_lvl cfg b no_nest du (invoke_lvl cfg b no_nest du depth) (eval_fuel st))) s p st1 in
       (verdict_of_out (fst r), snd r)) = P_Frame.invoke_tail cfg b du s p st1).
    { intros st1 Hf. cbv zeta. unfold P_Frame.invoke_tail.
      rewrite (invoke_tail_re_nil _ (eval_fuel st)).
      2:{ intros t' st'. cbn [dispatch]. apply eval_lvl_nil. }
      rewrite Hf.
      destruct (eval cfg b du (eval_fuel st) _ st1) as [[built|e|a] st2]; [|reflexivity|reflexivity].
      destruct (run_fn cfg b du RoleInv _ _ st2) as [[o e] st3].
      destruct o; [reflexivity|reflexivity|]. destruct (cfg_recover cfg); reflexivity. }
    destruct (s_verified (get_scope st s)).
    - apply Hgo. reflexivity.
    - destruct (is_acyclic (scope_graph st s)) as [[[|] pth]|]; [| |reflexivity].
      + apply Hgo. reflexivity.
      + reflexivity.
  Qed.

  Lemma step_re_nil depth st o : step_re cfg b no_nest du depth st o = step cfg b du st o.
  Proof. destruct o; cbn [step_re step]; try reflexivity. apply invoke_re_nil. Qed.

  Lemma run_from_re_nil depth h : forall st,
    run_from_re cfg b no_nest du depth st h = run_from cfg b du st h.
  Proof.
    induction h as [|o t IH]; intros st; cbn [run_from_re run_from]; [reflexivity|].
    rewrite step_re_nil, IH. reflexivity.
  Qed.
End Conservative.

(* for every nesting budget *)
Theorem run_re_d_conservative depth cfg b du h :
  run_re_d depth cfg b (fun _ _ => []) du h = run cfg b du h.
Proof. unfold run_re_d, run. f_equal. apply run_from_re_nil. Qed.
Print Assumptions run_re_d_conservative.

Theorem run_re_conservative cfg b du h :
  run_re cfg b (fun _ _ => []) du h = run cfg b du h.
Proof. apply run_re_d_conservative. Qed.
Print Assumptions run_re_conservative.

Theorem state_after_re_conservative cfg b du h :
  state_after_re cfg b (fun _ _ => []) du h = state_after cfg b du h.
Proof. unfold state_after_re, state_after_re_d, state_after. f_equal. apply run_from_re_nil. Qed.
Print Assumptions state_after_re_conservative.

(* ====================================================================== *)
(* 3. A generic pass for eval_re: state relations closed under the         *)
(*    primitive updates (P_Once.GenericRel, plus the verified flag a       *)
(*    nested Invoke may set)                                               *)
(* ====================================================================== *)

Section GenericRelRe.
  Variables (cfg : config) (b : beh) (nest : nestor) (du : dur).
  Variable R : state -> state -> Prop.
  Hypothesis R_refl : forall st, R st st.
  Hypothesis R_trans : forall x y z, R x y -> R y z -> R x z.
  Hypothesis R_onstack : forall st n x, R st (set_onstack st n x).
  Hypothesis R_called : forall st n, R st (set_called st n).
  Hypothesis R_dstate : forall st d x, R st (set_dstate st d x).
  Hypothesis R_commit : forall st s dry f e lens slot rs,
      R st (upd_scope st s (commit_results dry f e lens slot rs)).
  Hypothesis R_commitd : forall st s dry f e lens slot rs,
      R st (upd_scope st s (commit_decorated dry f e lens slot rs)).
  Hypothesis R_callback : forall st has f c start, R st (callback has f c start st).
  Hypothesis R_run_fn : forall st r f args, R st (snd (run_fn cfg b du r f args st)).
  Hypothesis R_verified : forall st s, R st (upd_scope st s (sc_set_verified true)).

  Section Step.
    Variable rec : rtask -> state -> out.
    Hypothesis IH : forall t st, R st (snd (rec t st)).

    Let IHo : forall t st, R st (snd (recO rec t st)) := fun t st => IH (TOld t) st.

    Lemma grr_run_nested reqs : forall st, R st (snd (run_nested rec reqs st)).
    Proof.
      induction reqs as [|[s p] t IHr]; intros st; cbn [run_nested]; [apply R_refl|].
      destruct (Nat.ltb s (length (st_scopes st))); [|apply IHr].
      pose proof (IH (TInvoke s p) st) as H.
      destruct (rec (TInvoke s p) st) as [[x|e|a] st1]; cbn [snd] in *;
        [eapply R_trans; [exact H|apply IHr]|eapply R_trans; [exact H|apply IHr]|exact H].
    Qed.

    Lemma grr_run_fn_re r f args st : R st (snd (run_fn_re cfg b nest du rec r f args st)).
    Proof.
      unfold run_fn_re. pose proof (R_run_fn st r f args) as H.
      destruct (run_fn cfg b du r f args st) as [[o e] st1]. cbn [snd] in H.
      destruct (cfg_dry cfg); [exact H|].
      pose proof (grr_run_nested (nest f e) st1) as H2.
      destruct (run_nested rec (nest f e) st1) as [[a|] st2]; cbn [snd] in *; eapply R_trans; eauto.
    Qed.

    Lemma grr_call_ctor_re n st : R st (snd (call_ctor_re cfg b nest du rec n st)).
    Proof.
      unfold call_ctor_re.
      destruct (c_called (get_node st n)); [apply R_refl|].
      destruct (c_onstack (get_node st n)); [apply R_refl|].
      pose proof (R_onstack st n true) as H0.
      destruct (shallow_missing (set_onstack st n true) _ _).
      2:{ cbn [snd]. eapply R_trans; [exact H0|apply R_onstack]. }
      pose proof (IH (TOld (TLeaves (c_orig (get_node st n)) (sig_build_seq (c_sig (get_node st n)))))
                     (set_onstack st n true)) as H1.
      destruct (rec _ (set_onstack st n true)) as [[built|e|a] st1]; cbn [snd] in *.
      2,3: eapply R_trans; [exact H0|eapply R_trans; [exact H1|apply R_onstack]].
      pose proof (grr_run_fn_re RoleCtor (c_fn (get_node st n))
                    (place (sig_order (c_sig (get_node st n))) built) st1) as H2.
      assert (H01 : R st st1) by (eapply R_trans; eauto).
      destruct (run_fn_re cfg b nest du rec RoleCtor _ _ st1) as [[o e] st2]; cbn [snd] in *.
      assert (H02 : R st st2) by (eapply R_trans; eauto).
      destruct o as [[lens| |]|a]; [| |destruct (cfg_recover cfg)|]; cbn [snd].
      - eapply R_trans; [exact H02|].
        eapply R_trans; [apply R_commit|].
        eapply R_trans; [apply R_called|].
        eapply R_trans; [apply R_callback|apply R_onstack].
      - eapply R_trans; [exact H02|]. eapply R_trans; [apply R_callback|apply R_onstack].
      - eapply R_trans; [exact H02|]. eapply R_trans; [apply R_callback|apply R_onstack].
      - eapply R_trans; [exact H02|]. eapply R_trans; [apply R_callback|apply R_onstack].
      - eapply R_trans; [exact H02|]. eapply R_trans; [apply R_callback|apply R_onstack].
    Qed.

    Lemma grr_call_dec_re d st : R st (snd (call_dec_re cfg b nest du rec d st)).
    Proof.
      unfold call_dec_re.
      destruct (dstate_eqb (d_state (get_dec st d)) DCalled); [apply R_refl|].
      pose proof (R_dstate st d DOnStack) as H0.
      destruct (shallow_missing (set_dstate st d DOnStack) _ _).
      2:{ cbn [snd]. eapply R_trans; [exact H0|apply R_dstate]. }
      pose proof (IH (TOld (TLeaves (d_home (get_dec st d)) (sig_build_seq (d_sig (get_dec st d)))))
                     (set_dstate st d DOnStack)) as H1.
      destruct (rec _ (set_dstate st d DOnStack)) as [[built|e|a] st1]; cbn [snd] in *.
      2,3: eapply R_trans; [exact H0|eapply R_trans; [exact H1|apply R_dstate]].
      pose proof (grr_run_fn_re RoleDec (d_fn (get_dec st d))
                    (place (sig_order (d_sig (get_dec st d))) built) st1) as H2.
      assert (H01 : R st st1) by (eapply R_trans; eauto).
      destruct (run_fn_re cfg b nest du rec RoleDec _ _ st1) as [[o e] st2]; cbn [snd] in *.
      assert (H02 : R st st2) by (eapply R_trans; eauto).
      destruct o as [[lens| |]|a]; [| |destruct (cfg_recover cfg)|]; cbn [snd].
      - eapply R_trans; [exact H02|].
        eapply R_trans; [apply R_commitd|].
        eapply R_trans; [apply R_dstate|apply R_callback].
      - eapply R_trans; [exact H02|]. eapply R_trans; [apply R_dstate|apply R_callback].
      - eapply R_trans; [exact H02|]. eapply R_trans; [apply R_dstate|apply R_callback].
      - eapply R_trans; [exact H02|]. eapply R_trans; [apply R_dstate|apply R_callback].
      - eapply R_trans; [exact H02|]. eapply R_trans; [apply R_dstate|apply R_callback].
    Qed.

    Lemma grr_invoke_tail_re s p st1 : R st1 (snd (invoke_tail_re cfg b nest du rec s p st1)).
    Proof.
      unfold invoke_tail_re.
      pose proof (IH (TOld (TLeaves s (sig_build_seq (ii_sig p)))) st1) as H1.
      destruct (rec _ st1) as [[built|e|a] st2]; cbn [snd] in *; try exact H1.
      pose proof (grr_run_fn_re RoleInv (ii_fn p) (place (sig_order (ii_sig p)) built) st2) as H2.
      destruct (run_fn_re cfg b nest du rec RoleInv _ _ st2) as [[o e] st3]; cbn [snd] in *.
      assert (H03 : R st1 st3) by (eapply R_trans; eauto).
      destruct o as [[lens| |]|a]; [| |destruct (cfg_recover cfg)|]; exact H03.
    Qed.

    Lemma grr_invoke_body s p st : R st (snd (invoke_body cfg b nest du rec s p st)).
    Proof.
      unfold invoke_body.
      destruct (shallow_missing st s (sig_leaves (ii_sig p))); [|apply R_refl].
      destruct (s_verified (get_scope st s)).
      - apply grr_invoke_tail_re.
      - destruct (is_acyclic (scope_graph st s)) as [[[|] pth]|]; cbn [snd]; [|apply R_refl|apply R_refl].
        eapply R_trans; [apply R_verified|apply grr_invoke_tail_re].
    Qed.

    Lemma grr_evalF_re t st : R st (snd (evalF_re cfg b nest du rec t st)).
    Proof.
      destruct t as [[v [k opt|k soft]|v ls|n|d]|s p]; cbn [evalF_re].
      - apply (P_Once.gr_build_single R R_refl R_trans _ IHo).
      - apply (P_Once.gr_build_group R R_refl R_trans _ IHo).
      - apply (P_Once.gr_build_list R R_refl R_trans _ IHo).
      - apply grr_call_ctor_re.
      - apply grr_call_dec_re.
      - apply grr_invoke_body.
    Qed.
  End Step.

  Lemma eval_lvl_rel inv :
    (forall s p st, R st (snd (inv s p st))) ->
    forall fuel t st, R st (snd (eval_lvl cfg b nest du inv fuel t st)).
  Proof.
    intros Hinv. induction fuel as [|f IHf]; intros t st; cbn [eval_lvl]; [apply R_refl|].
    apply grr_evalF_re. intros [t'|s p] st'; cbn [dispatch]; [apply IHf|apply Hinv].
  Qed.

  Lemma invoke_lvl_rel : forall depth s p st, R st (snd (invoke_lvl cfg b nest du depth s p st)).
  Proof.
    induction depth as [|d IHd]; intros s p st; cbn [invoke_lvl]; [apply R_refl|].
    apply eval_lvl_rel. exact IHd.
  Qed.

  Theorem eval_re_rel depth fuel t st : R st (snd (eval_re cfg b nest du depth fuel t st)).
  Proof. apply eval_lvl_rel. apply invoke_lvl_rel. Qed.

  Theorem invoke_re_rel depth st s p : R st (snd (invoke_re cfg b nest du depth st s p)).
  Proof. unfold invoke_re. cbn [snd]. apply invoke_lvl_rel. Qed.
End GenericRelRe.

(* the frame of P_Once: the log only grows, function ids and tables are fixed *)
Theorem eval_re_frame cfg b nest du depth fuel t st :
  P_Once.frame st (snd (eval_re cfg b nest du depth fuel t st)).
Proof.
  apply eval_re_rel.
  - apply P_Once.frame_refl.
  - apply P_Once.frame_trans.
  - intros. apply P_Once.frame_upd_node. reflexivity.
  - intros. apply P_Once.frame_upd_node. reflexivity.
  - intros. apply P_Once.frame_upd_dec. reflexivity.
  - intros. apply P_Once.frame_upd_scope. intros c. apply P_Once.providers_commit_results.
  - intros. apply P_Once.frame_upd_scope. intros c. apply P_Once.providers_commit_decorated.
  - intros. apply P_Once.frame_callback.
  - intros. apply P_Once.frame_run_fn.
  - intros. apply P_Once.frame_upd_scope. intros c. split; reflexivity.
Qed.
Print Assumptions eval_re_frame.

(* ====================================================================== *)
(* 4. Re-entrant runs never make dig crash on its own (no ABug).           *)
(*    The invariants are those of P_Term (G = SInv /\ KI /\ VI, TR); the   *)
(*    only change is that a nested Invoke may set a scope's verified flag, *)
(*    so "the skeleton is preserved" replaces P_Frame.pres.                *)
(* ====================================================================== *)

Definition spres (st st' : state) : Prop := skel st' = skel st.

Lemma spres_refl st : spres st st.
Proof. reflexivity. Qed.
Lemma spres_trans a b c : spres a b -> spres b c -> spres a c.
Proof. unfold spres. intros H1 H2. rewrite H2. exact H1. Qed.
Lemma pres_spres st st' : pres st st' -> spres st st'.
Proof. intros [E _]. exact E. Qed.

Lemma spres_lens st st' : spres st st' ->
  length (st_nodes st') = length (st_nodes st) /\ length (st_decs st') = length (st_decs st) /\
  length (st_scopes st') = length (st_scopes st).
Proof. intros E. apply skel_eq_fields in E. destruct E. auto. Qed.

Lemma spres_static st st' : spres st st' -> SInv st -> KI st -> SInv st' /\ KI st'.
Proof.
  intros E HS HK. split.
  - eapply SInv_skel; [symmetry; exact E|exact HS].
  - eapply KI_skel; [symmetry; exact E|exact HK].
Qed.

(* spres is closed under everything the evaluator does *)
Lemma spres_closed cfg b nest du depth fuel t st :
  spres st (snd (eval_re cfg b nest du depth fuel t st)).
Proof.
  apply eval_re_rel.
  - apply spres_refl.
  - apply spres_trans.
  - intros. apply pres_spres, pres_set_onstack.
  - intros. apply pres_spres, pres_set_called.
  - intros. apply pres_spres, pres_set_dstate.
  - intros. apply pres_spres, pres_upd_scope; intros c; apply commit_results_skel.
  - intros. apply pres_spres, pres_upd_scope; intros c; apply commit_decorated_skel.
  - intros. apply pres_spres, pres_callback.
  - intros. apply pres_spres, pres_run_fn.
  - intros. apply skel_upd_verified.
Qed.

Ltac spres_hyps :=
  first [ apply spres_refl
        | apply spres_trans
        | intros; apply pres_spres, pres_set_onstack
        | intros; apply pres_spres, pres_set_called
        | intros; apply pres_spres, pres_set_dstate
        | intros; apply pres_spres, pres_upd_scope; intros ?; apply commit_results_skel
        | intros; apply pres_spres, pres_upd_scope; intros ?; apply commit_decorated_skel
        | intros; apply pres_spres, pres_callback
        | intros; apply pres_spres, pres_run_fn
        | intros; apply skel_upd_verified ].

(* the exits of call_ctor / call_dec (P_Term.ctor_exit, dec_exit) with spres *)
Lemma ctor_exit_s st n Y :
  n < length (st_nodes st) -> c_onstack (get_node st n) = false ->
  VI Y -> spres st Y -> TR (set_onstack st n true) Y ->
  VI (set_onstack Y n false) /\ TR st (set_onstack Y n false).
Proof.
  intros Hn Eo HV HP (A & B & C). split; [apply VI_set_onstack; exact HV|].
  destruct (spres_lens _ _ HP) as (LN & _ & _).
  split; [|split].
  - intros m. destruct (Nat.eq_dec m n) as [->|Hne].
    + rewrite onstack_set_same by (rewrite LN; exact Hn). symmetry. exact Eo.
    + rewrite onstack_set_other by exact Hne. rewrite A. apply onstack_set_other. exact Hne.
  - intros d. exact (B d).
  - intros m H. rewrite called_set_onstack. apply C. rewrite called_set_onstack. exact H.
Qed.

Lemma dec_exit_s st d Y :
  d < length (st_decs st) -> d_state (get_dec st d) <> DOnStack ->
  VI Y -> spres st Y -> TR (set_dstate st d DOnStack) Y ->
  VI (set_dstate Y d DReady) /\ TR st (set_dstate Y d DReady).
Proof.
  intros Hd Eo HV HP (A & B & C).
  destruct (spres_lens _ _ HP) as (_ & LD & _).
  split.
  - revert HV. apply VI_mono.
    + symmetry. apply pres_set_dstate.
    + intros s k H. exact H.
    + intros s k H. exact H.
    + intros m H. left. exact H.
    + intros d' H. left. destruct (Nat.eq_dec d' d) as [->|Hne].
      * rewrite dstate_set_same in H by (rewrite LD; exact Hd). discriminate H.
      * rewrite dstate_set_other in H by exact Hne. exact H.
  - split; [|split].
    + intros m. exact (A m).
    + intros d'. destruct (Nat.eq_dec d' d) as [->|Hne].
      * rewrite dstate_set_same by (rewrite LD; exact Hd). split; [discriminate|]. intros H. exfalso. exact (Eo H).
      * rewrite dstate_set_other by exact Hne. rewrite B. rewrite dstate_set_other by exact Hne. tauto.
    + intros m H. apply C. exact H.
Qed.

(* ---------- tasks: what a caller guarantees, what a callee returns ---------- *)

Definition PTo (t : task) (st : state) (o : out) : Prop :=
  spres st (snd o) /\
  (tpre t st -> G st -> G (snd o) /\ TR st (snd o) /\ tpost t (fst o) (snd o)).

Definition tpre_re (t : rtask) (st : state) : Prop :=
  match t with
  | TOld t => tpre t st
  | TInvoke s p => forallb leaf_ok (sig_leaves (ii_sig p)) = true
  end.

Definition tpost_re (t : rtask) (r : res (list arg)) (st' : state) : Prop :=
  match t with
  | TOld t => tpost t r st'
  | TInvoke _ _ => nobug r
  end.

Definition PTr (t : rtask) (st : state) (o : out) : Prop :=
  spres st (snd o) /\
  (tpre_re t st -> G st -> G (snd o) /\ TR st (snd o) /\ tpost_re t (fst o) (snd o)).

(* what is asked of the oracle: the signatures of the functions bodies invoke
   satisfy the key discipline of P_Term.wf_keys (what op_keys_ok asks of an
   OInvoke of the history) *)
Definition wf_nest (nest : nestor) : Prop :=
  forall f e s p, In (s, p) (nest f e) -> forallb leaf_ok (sig_leaves (ii_sig p)) = true.

Definition anobug (a : option abort) : Prop :=
  match a with Some (ABug _) => False | _ => True end.

Definition fnobug (r : fres) : Prop :=
  match r with FAbort (ABug _) => False | _ => True end.

(* ---------- the builders of Resolve.v, for a [rec] that preserves only the skeleton ---------- *)

Section StepOld.
  Variable rec : task -> state -> out.
  Hypothesis IH : forall t st, PTo t st (rec t st).

  Let IHp : forall t st, spres st (snd (rec t st)) := fun t st => proj1 (IH t st).

  Lemma S_call_ctors : forall ns st,
    (forall n, In n ns -> n < length (st_nodes st)) -> G st ->
    G (snd (call_ctors rec ns st)) /\ TR st (snd (call_ctors rec ns st)) /\
    lnobug (fst (call_ctors rec ns st)) /\
    (fst (call_ctors rec ns st) = LDone ->
     forall n, In n ns -> c_called (get_node (snd (call_ctors rec ns st)) n) = true).
  Proof.
    induction ns as [|n t IHn]; intros st Hr HG; cbn [call_ctors].
    - cbn [fst snd]. split; [exact HG|]. split; [apply TR_refl|]. split; [exact I|]. intros _ n [].
    - destruct (IH (TCallCtor n) st) as [Hp H]. specialize (H (Hr n (or_introl eq_refl)) HG).
      unfold tpost, nobug in H.
      destruct (rec (TCallCtor n) st) as [[r|e|a] st1]; cbn [fst snd] in *.
      + destruct H as (G1 & T1 & _ & C1).
        destruct (spres_lens _ _ Hp) as (L1 & _ & _).
        destruct (IHn st1) as (G2 & T2 & N2 & P2).
        { intros m Hm. rewrite L1. apply Hr. right. exact Hm. }
        { exact G1. }
        split; [exact G2|]. split; [eapply TR_trans; eauto|]. split; [exact N2|].
        intros E m [<-|Hm]; [apply T2; exact C1|apply P2; assumption].
      + destruct H as (G1 & T1 & _). split; [exact G1|]. split; [exact T1|]. split; [exact I|discriminate].
      + destruct H as (G1 & T1 & N1 & _). split; [exact G1|]. split; [exact T1|]. split; [exact N1|discriminate].
  Qed.

  Lemma S_call_group_decs k : forall bs st, G st ->
    G (snd (call_group_decs rec k bs st)) /\ TR st (snd (call_group_decs rec k bs st)) /\
    lnobug (fst (call_group_decs rec k bs st)).
  Proof.
    induction bs as [|s t IHb]; intros st HG; cbn [call_group_decs].
    - cbn [fst snd]. split; [exact HG|]. split; [apply TR_refl|exact I].
    - destruct (alookup key_eqb k (s_decorators (get_scope st s))) as [d|] eqn:E; [|apply IHb; exact HG].
      destruct (dstate_eqb (d_state (get_dec st d)) DOnStack) eqn:E2; [apply IHb; exact HG|].
      destruct (IH (TCallDec d) st) as [Hp H].
      assert (Hpre : tpre (TCallDec d) st).
      { split; [eapply dec_range; [apply HG|exact E]|]. apply dstate_eqb_false. exact E2. }
      specialize (H Hpre HG). unfold tpost, nobug in H.
      destruct (rec (TCallDec d) st) as [[r|e|a] st1]; cbn [fst snd] in *.
      + destruct H as (G1 & T1 & _).
        destruct (IHb st1 G1) as (G2 & T2 & N2).
        split; [exact G2|]. split; [eapply TR_trans; eauto|exact N2].
      + destruct H as (G1 & T1 & _). split; [exact G1|]. split; [exact T1|exact I].
      + destruct H as (G1 & T1 & N1 & _). split; [exact G1|]. split; [exact T1|exact N1].
  Qed.

  Lemma S_build_list v : forall ls st, forallb leaf_ok ls = true -> G st ->
    G (snd (build_list rec v ls st)) /\ TR st (snd (build_list rec v ls st)) /\
    nobug (fst (build_list rec v ls st)).
  Proof.
    induction ls as [|l t IHl]; intros st Hl HG; cbn [build_list].
    - cbn [fst snd]. split; [exact HG|]. split; [apply TR_refl|exact I].
    - cbn [forallb] in Hl. apply andb_true_iff in Hl as [Hl Ht].
      destruct (IH (TLeaf v l) st) as [Hp H]. specialize (H Hl HG). unfold tpost in H.
      destruct (rec (TLeaf v l) st) as [[r|e|a] st1]; cbn [fst snd] in *.
      + destruct H as (G1 & T1 & _).
        destruct (IHl st1 Ht G1) as (G2 & T2 & N2).
        destruct (build_list rec v t st1) as [[r2|e2|a2] st2]; cbn [fst snd] in *;
          (split; [exact G2|]; split; [eapply TR_trans; eauto|]); [exact I|exact I|exact N2].
      + destruct H as (G1 & T1 & _). split; [exact G1|]. split; [exact T1|exact I].
      + destruct H as (G1 & T1 & N1 & _). split; [exact G1|]. split; [exact T1|exact N1].
  Qed.

  Lemma S_build_single v k opt st : k_group k = 0 -> G st ->
    G (snd (build_single rec v k opt st)) /\ TR st (snd (build_single rec v k opt st)) /\
    nobug (fst (build_single rec v k opt st)).
  Proof.
    intros Hk HG. unfold build_single.
    destruct (find_dec st v k) as [[d bsc]|] eqn:EF.
    - (* a decorator: ABug 1 *)
      apply find_dec_inv in EF as [ED EO].
      destruct HG as (HS & HK & HV).
      destruct (ki_dec HK _ _ _ ED) as [Hhome Hkeys].
      destruct (dec_keys_single _ _ (ki_dsig HK d) Hk Hkeys) as [ks Hks].
      destruct (IH (TCallDec d) st) as [Hp H].
      assert (Hpre : tpre (TCallDec d) st) by (split; [eapply dec_range; eauto|exact EO]).
      specialize (H Hpre (conj HS (conj HK HV))). unfold tpost, nobug in H.
      destruct (rec (TCallDec d) st) as [[r|e|a] st1]; cbn [fst snd] in *.
      + destruct H as (G1 & T1 & _ & C1).
        destruct (alookup key_eqb k (s_dvalues (get_scope st1 bsc))) as [a|] eqn:EA; cbn [fst snd].
        * split; [exact G1|]. split; [exact T1|exact I].
        * exfalso. destruct G1 as (_ & _ & (_ & V1)).
          pose proof Hp as Esk. apply skel_eq_fields in Esk. destruct Esk.
          specialize (V1 d C1 k ks). rewrite sf_dsig, sf_dhome, Hhome in V1.
          apply (V1 Hks). exact EA.
      + destruct H as (G1 & T1 & _). split; [exact G1|]. split; [exact T1|exact I].
      + destruct H as (G1 & T1 & N1 & _). split; [exact G1|]. split; [exact T1|exact N1].
    - destruct (find_map _ (path st v)); [cbn [fst snd]; split; [exact HG|]; split; [apply TR_refl|exact I]|].
      destruct (find_provider st (path st v) k) as [a|bsc ns|] eqn:EP.
      + cbn [fst snd]. split; [exact HG|]. split; [apply TR_refl|exact I].
      + (* providers: ABug 2 *)
        pose proof (find_provider_PProv _ _ _ _ _ EP) as Ens.
        pose proof (find_provider_ne _ _ _ _ _ EP) as Hne.
        assert (Hr : forall n, In n ns -> n < length (st_nodes st)).
        { intros n Hn. rewrite Ens in Hn. eapply prov_range; [apply HG|exact Hn]. }
        destruct (S_call_ctors ns st Hr HG) as (G1 & T1 & N1 & C1).
        pose proof (P_Once.gr_call_ctors spres spres_refl spres_trans rec IHp ns st) as Hp.
        destruct (call_ctors rec ns st) as [[|c e|a] st1]; cbn [fst snd] in *.
        * destruct (alookup key_eqb k (s_values (get_scope st1 bsc))) as [a|] eqn:EA; cbn [fst snd].
          { split; [exact G1|]. split; [exact T1|exact I]. }
          exfalso. destruct ns as [|n0 ns']; [apply Hne; reflexivity|].
          destruct HG as (HS & HK & HV).
          assert (Hin : In n0 (providers_at st bsc k)) by (rewrite <- Ens; left; reflexivity).
          destruct (ki_prov HK _ _ _ Hin) as [Hhome Hkeys].
          destruct (sig_keys_single _ _ (ki_nsig HK n0) Hk Hkeys) as (ks & Hks & Hkk).
          destruct G1 as (_ & _ & (V1 & _)).
          pose proof Hp as Esk. apply skel_eq_fields in Esk. destruct Esk.
          specialize (V1 n0 (C1 eq_refl n0 (or_introl eq_refl)) ks k).
          rewrite sf_csig, sf_chome, Hhome in V1. apply (V1 Hks Hkk). exact EA.
        * destruct (opt && has_missingdeps e); cbn [fst snd]; (split; [exact G1|]; split; [exact T1|exact I]).
        * split; [exact G1|]. split; [exact T1|exact N1].
      + destruct opt; cbn [fst snd]; (split; [exact HG|]; split; [apply TR_refl|exact I]).
  Qed.

  Lemma S_build_group v k soft st : G st ->
    G (snd (build_group rec v k soft st)) /\ TR st (snd (build_group rec v k soft st)) /\
    nobug (fst (build_group rec v k soft st)).
  Proof.
    intros HG. unfold build_group.
    destruct (S_call_group_decs k (rev (path st v)) st HG) as (G1 & T1 & N1).
    destruct (call_group_decs rec k (rev (path st v)) st) as [[|c e|a] st1]; cbn [fst snd] in *.
    - destruct (find_map _ (path st1 v)); [cbn [fst snd]; split; [exact G1|]; split; [exact T1|exact I]|].
      destruct soft; [cbn [fst snd]; split; [exact G1|]; split; [exact T1|exact I]|].
      assert (Hr : forall n, In n (providers_on_path st1 v k) -> n < length (st_nodes st1)).
      { intros n Hn. destruct G1 as ([_ HB] & _). eapply pop_bound; eauto. }
      destruct (S_call_ctors _ st1 Hr G1) as (G2 & T2 & N2 & _).
      destruct (call_ctors rec (providers_on_path st1 v k) st1) as [[|c e|a] st2]; cbn [fst snd] in *;
        (split; [exact G2|]; split; [eapply TR_trans; eauto|]); [exact I|exact I|exact N2].
    - split; [exact G1|]. split; [exact T1|exact I].
    - split; [exact G1|]. split; [exact T1|exact N1].
  Qed.
End StepOld.

(* ---------- states that differ in counters, clock, log (run_fn, callback) ---------- *)

Lemma G_deq st st' : deq st st' -> G st -> G st'.
Proof.
  intros D (HS & HK & HV).
  destruct (pres_static _ _ (deq_pres _ _ D) HS HK) as [HS' HK'].
  split; [exact HS'|]. split; [exact HK'|eapply VI_deq; eauto].
Qed.

Lemma G_set_verified st s x : G st -> G (upd_scope st s (sc_set_verified x)).
Proof.
  intros (HS & HK & HV).
  assert (E : skel st = skel (upd_scope st s (sc_set_verified x))) by (symmetry; apply skel_upd_verified).
  split; [eapply SInv_skel; eauto|]. split; [eapply KI_skel; eauto|].
  revert HV. apply VI_mono.
  - exact E.
  - intros s0 k H. unfold hasv in *.
    destruct (get_scope_upd_cases st s (sc_set_verified x) s0) as [E1|[-> E1]]; rewrite E1; exact H.
  - intros s0 k H. unfold hasd in *.
    destruct (get_scope_upd_cases st s (sc_set_verified x) s0) as [E1|[-> E1]]; rewrite E1; exact H.
  - intros n H. left. exact H.
  - intros d H. left. exact H.
Qed.

Lemma TR_set_verified st s x : TR st (upd_scope st s (sc_set_verified x)).
Proof. split; [|split]; intros; [reflexivity|tauto|assumption]. Qed.

(* ---------- one unfolding of evalF_re ---------- *)

Section StepRe.
  Variables (cfg : config) (b : beh) (nest : nestor) (du : dur).
  Hypothesis Hnest : wf_nest nest.
  Variable rec : rtask -> state -> out.
  Hypothesis IH : forall t st, PTr t st (rec t st).

  Let IHs : forall t st, spres st (snd (rec t st)) := fun t st => proj1 (IH t st).
  Let IHo : forall t st, PTo t st (recO rec t st) := fun t st => IH (TOld t) st.

  Lemma spres_run_fn_re r f args st : spres st (snd (run_fn_re cfg b nest du rec r f args st)).
  Proof. apply grr_run_fn_re; try spres_hyps. exact IHs. Qed.

  Lemma S_run_nested : forall reqs st,
    (forall s p, In (s, p) reqs -> forallb leaf_ok (sig_leaves (ii_sig p)) = true) -> G st ->
    G (snd (run_nested rec reqs st)) /\ TR st (snd (run_nested rec reqs st)) /\
    anobug (fst (run_nested rec reqs st)).
  Proof.
    induction reqs as [|[s p] t IHr]; intros st Hw HG; cbn [run_nested].
    - cbn [fst snd]. split; [exact HG|]. split; [apply TR_refl|exact I].
    - assert (Hw' : forall s0 p0, In (s0, p0) t -> forallb leaf_ok (sig_leaves (ii_sig p0)) = true)
        by (intros s0 p0 H0; apply (Hw s0 p0); right; exact H0).
      destruct (Nat.ltb s (length (st_scopes st))); [|apply IHr; assumption].
      destruct (IH (TInvoke s p) st) as [_ H].
      specialize (H (Hw s p (or_introl eq_refl)) HG). cbn [tpost_re] in H.
      destruct (rec (TInvoke s p) st) as [[x|e|a] st1]; cbn [fst snd] in *.
      + destruct H as (G1 & T1 & _). destruct (IHr st1 Hw' G1) as (G2 & T2 & N2).
        split; [exact G2|]. split; [eapply TR_trans; eauto|exact N2].
      + destruct H as (G1 & T1 & _). destruct (IHr st1 Hw' G1) as (G2 & T2 & N2).
        split; [exact G2|]. split; [eapply TR_trans; eauto|exact N2].
      + destruct H as (G1 & T1 & N1). split; [exact G1|]. split; [exact T1|exact N1].
  Qed.

  Lemma S_run_fn_re r f args st : G st ->
    G (snd (run_fn_re cfg b nest du rec r f args st)) /\
    TR st (snd (run_fn_re cfg b nest du rec r f args st)) /\
    fnobug (fst (fst (run_fn_re cfg b nest du rec r f args st))).
  Proof.
    intros HG. unfold run_fn_re.
    pose proof (deq_run_fn cfg b du r f args st) as D.
    destruct (run_fn cfg b du r f args st) as [[o e] st1]. cbn [snd] in D.
    pose proof (G_deq _ _ D HG) as G1. pose proof (TR_deq _ _ D) as T1.
    destruct (cfg_dry cfg); [cbn [fst snd]; split; [exact G1|]; split; [exact T1|exact I]|].
    destruct (S_run_nested (nest f e) st1 (Hnest f e) G1) as (G2 & T2 & N2).
    destruct (run_nested rec (nest f e) st1) as [[a|] st2]; cbn [fst snd] in *;
      (split; [exact G2|]; split; [eapply TR_trans; eauto|]); [exact N2|exact I].
  Qed.

  Lemma S_call_ctor_re n st : PTr (TOld (TCallCtor n)) st (call_ctor_re cfg b nest du rec n st).
  Proof.
    split; [apply grr_call_ctor_re; try spres_hyps; exact IHs|].
    intros Hn HG. cbn [tpre_re tpre] in Hn. cbn [tpost_re]. unfold call_ctor_re.
    destruct (c_called (get_node st n)) eqn:Ec.
    { cbn [fst snd]. split; [exact HG|]. split; [apply TR_refl|]. split; [exact I|exact Ec]. }
    destruct (c_onstack (get_node st n)) eqn:Eo.
    { cbn [fst snd]. split; [exact HG|]. split; [apply TR_refl|]. split; exact I. }
    set (c := get_node st n).
    set (st0 := set_onstack st n true).
    assert (P0 : spres st st0) by apply pres_spres, pres_set_onstack.
    destruct HG as (HS & HK & HV).
    destruct (spres_static _ _ P0 HS HK) as [HS0 HK0].
    assert (HV0 : VI st0) by (apply VI_set_onstack; exact HV).
    assert (EXIT : forall Y, VI Y -> spres st Y -> TR st0 Y ->
              G (set_onstack Y n false) /\ TR st (set_onstack Y n false)).
    { intros Y HVY HPY HTY.
      destruct (ctor_exit_s st n Y Hn Eo HVY HPY HTY) as [V T].
      assert (PF : spres st (set_onstack Y n false))
        by (eapply spres_trans; [exact HPY|apply pres_spres, pres_set_onstack]).
      destruct (spres_static _ _ PF HS HK) as [HSF HKF].
      split; [split; [exact HSF|split; [exact HKF|exact V]]|exact T]. }
    destruct (shallow_missing st0 (c_orig c) (sig_leaves (c_sig c))) as [|k0 ks].
    2:{ cbn [fst snd]. destruct (EXIT st0 HV0 P0 (TR_refl st0)) as [GF TF].
        split; [exact GF|]. split; [exact TF|]. split; exact I. }
    destruct (IH (TOld (TLeaves (c_orig c) (sig_build_seq (c_sig c)))) st0) as [P1 H].
    assert (Hpre : tpre (TLeaves (c_orig c) (sig_build_seq (c_sig c))) st0).
    { cbn [tpre]. apply wf_sig_build_seq. apply (ki_nsig HK). }
    specialize (H Hpre (conj HS0 (conj HK0 HV0))). cbn [tpost_re] in H. unfold tpost, nobug in H.
    destruct (rec (TOld (TLeaves (c_orig c) (sig_build_seq (c_sig c)))) st0) as [[built|e|a] st1]; cbn [fst snd] in *.
    2:{ destruct H as ((_ & _ & V1) & T1 & _).
        destruct (EXIT st1 V1 (spres_trans _ _ _ P0 P1) T1) as [GF TF].
        split; [exact GF|]. split; [exact TF|]. split; exact I. }
    2:{ destruct H as ((_ & _ & V1) & T1 & N1 & _).
        destruct (EXIT st1 V1 (spres_trans _ _ _ P0 P1) T1) as [GF TF].
        split; [exact GF|]. split; [exact TF|]. split; [exact N1|exact I]. }
    destruct H as (G1 & T1 & _).
    assert (P01 : spres st st1) by (eapply spres_trans; eauto).
    set (start := st_clock st1).
    (* the body, with its nested requests: everything below starts from st2 *)
    pose proof (spres_run_fn_re RoleCtor (c_fn c) (place (sig_order (c_sig c)) built) st1) as P12.
    destruct (S_run_fn_re RoleCtor (c_fn c) (place (sig_order (c_sig c)) built) st1 G1) as (G2 & T12 & N2).
    destruct (run_fn_re cfg b nest du rec RoleCtor (c_fn c) (place (sig_order (c_sig c)) built) st1) as [[o e] st2].
    cbn [fst snd] in *.
    destruct G2 as (S2 & K2 & V2).
    assert (P02 : spres st st2) by (eapply spres_trans; eauto).
    assert (T02 : TR st0 st2) by (eapply TR_trans; eauto).
    (* exits on which nothing was committed *)
    assert (NOCOMMIT : forall has f cl r, nobug r ->
              G (set_onstack (callback has f cl start st2) n false) /\
              TR st (set_onstack (callback has f cl start st2) n false) /\
              tpost (TCallCtor n) (match r with Done _ => Fail (mkErr [] RCycle) | x => x end)
                    (set_onstack (callback has f cl start st2) n false)).
    { intros has f cl r Hr.
      assert (DY : deq st2 (callback has f cl start st2)) by apply deq_callback.
      destruct (EXIT (callback has f cl start st2)) as [GF TF].
      - eapply VI_deq; eauto.
      - eapply spres_trans; [exact P02|apply pres_spres, deq_pres; exact DY].
      - eapply TR_trans; [exact T02|apply TR_deq; exact DY].
      - split; [exact GF|]. split; [exact TF|]. destruct r as [x|x|[| |]]; split; try exact I; exact Hr. }
    destruct o as [[lens| |]|a]; [| |destruct (cfg_recover cfg)|]; cbn [fst snd].
    - (* success: commit, mark called *)
      set (F := commit_results (cfg_dry cfg) (c_fn c) e lens 0 (sig_rleaves (c_sig c))).
      set (st3 := upd_scope st2 (c_home c) F).
      set (Y := callback (c_cb c) (c_fn c) ENone start (set_called st3 n)).
      assert (L2 : length (st_nodes st2) = length (st_nodes st)) by apply (spres_lens _ _ P02).
      assert (L3 : length (st_nodes st3) = length (st_nodes st2)) by (unfold st3; rewrite nodes_upd_scope; reflexivity).
      assert (DY : deq (set_called st3 n) Y) by apply deq_callback.
      assert (P2Y : spres st2 Y).
      { eapply spres_trans; [|apply pres_spres, deq_pres; exact DY].
        eapply spres_trans; [|apply pres_spres, pres_set_called].
        apply pres_spres, pres_upd_scope; intros c0; apply commit_results_skel. }
      assert (SC : forall s, get_scope Y s = get_scope st2 s \/
                             (s = c_home c /\ get_scope Y s = F (get_scope st2 s))).
      { intros s. rewrite (deq_scope s DY).
        change (get_scope (set_called st3 n) s) with (get_scope st3 s). unfold st3.
        destruct (get_scope_upd_cases st2 (c_home c) F s) as [E|[-> E]]; rewrite E; auto. }
      assert (Hhome : c_home c < length (st_scopes st2)).
      { destruct (spres_lens _ _ P02) as (_ & _ & ->). destruct HS as [_ HB]. apply (bi_node_home HB n Hn). }
      assert (SCh : get_scope Y (c_home c) = F (get_scope st2 (c_home c))).
      { rewrite (deq_scope _ DY).
        change (get_scope (set_called st3 n) (c_home c)) with (get_scope st3 (c_home c)). unfold st3.
        rewrite P_Once.get_scope_upd_same; [reflexivity|exact Hhome]. }
      assert (NY : forall m, get_node Y m = get_node (set_called st3 n) m) by (intros m; apply (deq_node m DY)).
      assert (N3 : forall m, get_node st3 m = get_node st2 m).
      { intros m. unfold st3. rewrite get_node_upd_scope. reflexivity. }
      assert (DD : forall d, get_dec Y d = get_dec st2 d).
      { intros d. rewrite (deq_dec d DY). reflexivity. }
      assert (VY : VI Y).
      { revert V2. apply VI_mono.
        - symmetry. apply P2Y.
        - intros s k H. unfold hasv in *. destruct (SC s) as [E|[_ E]]; rewrite E; [exact H|].
          apply commit_results_values. left. exact H.
        - intros s k H. unfold hasd in *. destruct (SC s) as [E|[_ E]]; rewrite E; [exact H|].
          unfold F. rewrite commit_results_dvalues. exact H.
        - intros m H. rewrite NY in H. destruct (Nat.eq_dec m n) as [->|Hne].
          + right. intros ks k Hks Hk. unfold hasv.
            pose proof P2Y as Esk. apply skel_eq_fields in Esk. destruct Esk.
            pose proof P02 as Esk'. apply skel_eq_fields in Esk'. destruct Esk'.
            rewrite sf_csig, sf_csig0 in Hks. rewrite sf_chome, sf_chome0. fold c in Hks |- *.
            rewrite SCh. apply commit_results_values. right. exists ks. split; assumption.
          + left. rewrite called_set_other in H by exact Hne. rewrite N3 in H. exact H.
        - intros d H. left. rewrite DD in H. exact H. }
      assert (TY : TR st2 Y).
      { split; [|split].
        - intros m. rewrite NY, onstack_set_called, N3. reflexivity.
        - intros d. rewrite DD. tauto.
        - intros m H. rewrite NY. apply called_set_mono. rewrite N3. exact H. }
      destruct (EXIT Y VY (spres_trans _ _ _ P02 P2Y) (TR_trans _ _ _ T02 TY)) as [GF TF].
      split; [exact GF|]. split; [exact TF|]. split; [exact I|].
      rewrite called_set_onstack, NY. apply called_set_same. rewrite L3, L2. exact Hn.
    - apply (NOCOMMIT (c_cb c) (c_fn c) (EUser (c_fn c) e) (Fail (mkErr [LCtorFailed] (RUser (c_fn c) e))) I).
    - apply (NOCOMMIT (c_cb c) (c_fn c) (EPanicE (c_fn c) e) (Fail (mkErr [] (RPanic (c_fn c) e))) I).
    - apply (NOCOMMIT (c_cb c) (c_fn c) ENone (Abort (APanicked (c_fn c) e)) I).
    - apply (NOCOMMIT (c_cb c) (c_fn c) ENone (Abort a)). exact N2.
  Qed.

  Lemma S_call_dec_re d st : PTr (TOld (TCallDec d)) st (call_dec_re cfg b nest du rec d st).
  Proof.
    split; [apply grr_call_dec_re; try spres_hyps; exact IHs|].
    intros [Hd Eo] HG. cbn [tpost_re]. unfold call_dec_re.
    destruct (dstate_eqb (d_state (get_dec st d)) DCalled) eqn:Ec.
    { cbn [fst snd]. split; [exact HG|]. split; [apply TR_refl|]. split; [exact I|].
      apply dstate_eqb_true. exact Ec. }
    set (dn := get_dec st d).
    set (st0 := set_dstate st d DOnStack).
    assert (P0 : spres st st0) by apply pres_spres, pres_set_dstate.
    destruct HG as (HS & HK & HV).
    destruct (spres_static _ _ P0 HS HK) as [HS0 HK0].
    assert (LD0 : length (st_decs st0) = length (st_decs st)) by apply (spres_lens _ _ P0).
    assert (HV0 : VI st0).
    { revert HV. apply VI_mono.
      - symmetry. apply P0.
      - intros s k H. exact H.
      - intros s k H. exact H.
      - intros m H. left. exact H.
      - intros d' H. left. destruct (Nat.eq_dec d' d) as [->|Hne].
        + unfold st0 in H. rewrite dstate_set_same in H by exact Hd. discriminate H.
        + unfold st0 in H. rewrite dstate_set_other in H by exact Hne. exact H. }
    assert (EXIT : forall Y, VI Y -> spres st Y -> TR st0 Y ->
              G (set_dstate Y d DReady) /\ TR st (set_dstate Y d DReady)).
    { intros Y HVY HPY HTY.
      destruct (dec_exit_s st d Y Hd Eo HVY HPY HTY) as [V T].
      assert (PF : spres st (set_dstate Y d DReady))
        by (eapply spres_trans; [exact HPY|apply pres_spres, pres_set_dstate]).
      destruct (spres_static _ _ PF HS HK) as [HSF HKF].
      split; [split; [exact HSF|split; [exact HKF|exact V]]|exact T]. }
    destruct (shallow_missing st0 (d_home dn) (sig_leaves (d_sig dn))) as [|k0 ks].
    2:{ cbn [fst snd]. destruct (EXIT st0 HV0 P0 (TR_refl st0)) as [GF TF].
        split; [exact GF|]. split; [exact TF|]. split; exact I. }
    destruct (IH (TOld (TLeaves (d_home dn) (sig_build_seq (d_sig dn)))) st0) as [P1 H].
    assert (Hpre : tpre (TLeaves (d_home dn) (sig_build_seq (d_sig dn))) st0).
    { cbn [tpre]. apply wf_sig_build_seq. apply (ki_dsig HK). }
    specialize (H Hpre (conj HS0 (conj HK0 HV0))). cbn [tpost_re] in H. unfold tpost, nobug in H.
    destruct (rec (TOld (TLeaves (d_home dn) (sig_build_seq (d_sig dn)))) st0) as [[built|e|a] st1]; cbn [fst snd] in *.
    2:{ destruct H as ((_ & _ & V1) & T1 & _).
        destruct (EXIT st1 V1 (spres_trans _ _ _ P0 P1) T1) as [GF TF].
        split; [exact GF|]. split; [exact TF|]. split; exact I. }
    2:{ destruct H as ((_ & _ & V1) & T1 & N1 & _).
        destruct (EXIT st1 V1 (spres_trans _ _ _ P0 P1) T1) as [GF TF].
        split; [exact GF|]. split; [exact TF|]. split; [exact N1|exact I]. }
    destruct H as (G1 & T1 & _).
    assert (P01 : spres st st1) by (eapply spres_trans; eauto).
    set (start := st_clock st1).
    pose proof (spres_run_fn_re RoleDec (d_fn dn) (place (sig_order (d_sig dn)) built) st1) as P12.
    destruct (S_run_fn_re RoleDec (d_fn dn) (place (sig_order (d_sig dn)) built) st1 G1) as (G2 & T12 & N2).
    destruct (run_fn_re cfg b nest du rec RoleDec (d_fn dn) (place (sig_order (d_sig dn)) built) st1) as [[o e] st2].
    cbn [fst snd] in *.
    destruct G2 as (S2 & K2 & V2).
    assert (P02 : spres st st2) by (eapply spres_trans; eauto).
    assert (T02 : TR st0 st2) by (eapply TR_trans; eauto).
    assert (NOCOMMIT : forall has f cl r, nobug r ->
              G (callback has f cl start (set_dstate st2 d DReady)) /\
              TR st (callback has f cl start (set_dstate st2 d DReady)) /\
              tpost (TCallDec d) (match r with Done _ => Fail (mkErr [] RCycle) | x => x end)
                    (callback has f cl start (set_dstate st2 d DReady))).
    { intros has f cl r Hr.
      destruct (EXIT st2 V2 P02 T02) as [GF TF].
      pose proof (deq_callback has f cl start (set_dstate st2 d DReady)) as DC.
      split; [eapply G_deq; eauto|].
      split; [eapply TR_trans; [exact TF|apply TR_deq; exact DC]|].
      destruct r as [x|x|[| |]]; split; try exact I; exact Hr. }
    destruct o as [[lens| |]|a]; [| |destruct (cfg_recover cfg)|]; cbn [fst snd].
    - (* success: commit, mark called *)
      set (F := commit_decorated (cfg_dry cfg) (d_fn dn) e lens 0 (sig_rleaves (d_sig dn))).
      set (st3 := upd_scope st2 (d_home dn) F).
      set (Z := set_dstate st3 d DCalled).
      set (Y := callback (d_cb dn) (d_fn dn) ENone start Z).
      assert (L2 : length (st_decs st2) = length (st_decs st)) by apply (spres_lens _ _ P02).
      assert (L3 : length (st_decs st3) = length (st_decs st2)) by (unfold st3; rewrite decs_upd_scope; reflexivity).
      assert (DY : deq Z Y) by apply deq_callback.
      assert (P2Y : spres st2 Y).
      { eapply spres_trans; [|apply pres_spres, deq_pres; exact DY].
        eapply spres_trans; [|apply pres_spres, pres_set_dstate].
        apply pres_spres, pres_upd_scope; intros c0; apply commit_decorated_skel. }
      assert (SC : forall s, get_scope Y s = get_scope st2 s \/
                             (s = d_home dn /\ get_scope Y s = F (get_scope st2 s))).
      { intros s. rewrite (deq_scope s DY).
        change (get_scope Z s) with (get_scope st3 s). unfold st3.
        destruct (get_scope_upd_cases st2 (d_home dn) F s) as [E|[-> E]]; rewrite E; auto. }
      assert (Hhome : d_home dn < length (st_scopes st2)).
      { destruct (spres_lens _ _ P02) as (_ & _ & ->). destruct HS as [_ HB]. apply (bi_dec_home HB d Hd). }
      assert (SCh : get_scope Y (d_home dn) = F (get_scope st2 (d_home dn))).
      { rewrite (deq_scope _ DY).
        change (get_scope Z (d_home dn)) with (get_scope st3 (d_home dn)). unfold st3.
        rewrite P_Once.get_scope_upd_same; [reflexivity|exact Hhome]. }
      assert (NN : forall m, get_node Y m = get_node st2 m).
      { intros m. rewrite (deq_node m DY). reflexivity. }
      assert (DYd : get_dec Y d = dn_set_state DCalled (get_dec st2 d)).
      { rewrite (deq_dec d DY). unfold Z, set_dstate. rewrite get_dec_upd_same by (rewrite L3, L2; exact Hd).
        unfold st3. rewrite get_dec_upd_scope. reflexivity. }
      assert (DYo : forall d', d' <> d -> get_dec Y d' = get_dec st2 d').
      { intros d' Hne. rewrite (deq_dec d' DY). unfold Z. rewrite dstate_set_other by exact Hne.
        unfold st3. rewrite get_dec_upd_scope. reflexivity. }
      assert (VY : VI Y).
      { revert V2. apply VI_mono.
        - symmetry. apply P2Y.
        - intros s k H. unfold hasv in *. destruct (SC s) as [E|[_ E]]; rewrite E; [exact H|].
          unfold F. rewrite commit_decorated_values. exact H.
        - intros s k H. unfold hasd in *. destruct (SC s) as [E|[_ E]]; rewrite E; [exact H|].
          apply commit_decorated_dvalues. left. exact H.
        - intros m H. left. rewrite NN in H. exact H.
        - intros d' H. destruct (Nat.eq_dec d' d) as [->|Hne].
          + right. intros k ks Hks. unfold hasd.
            pose proof P2Y as Esk. apply skel_eq_fields in Esk. destruct Esk.
            pose proof P02 as Esk'. apply skel_eq_fields in Esk'. destruct Esk'.
            rewrite sf_dsig, sf_dsig0 in Hks. rewrite sf_dhome, sf_dhome0. fold dn in Hks |- *.
            rewrite SCh. apply commit_decorated_dvalues. right. exists ks. exact Hks.
          + left. rewrite DYo in H by exact Hne. exact H. }
      assert (TY : TR st Y).
      { destruct T02 as (A1 & B1 & C1). split; [|split].
        - intros m. rewrite NN, A1. reflexivity.
        - intros d'. destruct (Nat.eq_dec d' d) as [->|Hne].
          + rewrite DYd. cbn [d_state dn_set_state]. split; [discriminate|]. intros H. exfalso. exact (Eo H).
          + rewrite DYo by exact Hne. rewrite B1. unfold st0. rewrite dstate_set_other by exact Hne. tauto.
        - intros m H. rewrite NN. apply C1. exact H. }
      destruct (spres_static _ _ (spres_trans _ _ _ P02 P2Y) HS HK) as [SF KF].
      split; [split; [exact SF|split; [exact KF|exact VY]]|]. split; [exact TY|]. split; [exact I|].
      rewrite DYd. reflexivity.
    - apply (NOCOMMIT (d_cb dn) (d_fn dn) (EUser (d_fn dn) e) (Fail (mkErr [] (RUser (d_fn dn) e))) I).
    - apply (NOCOMMIT (d_cb dn) (d_fn dn) (EPanicE (d_fn dn) e) (Fail (mkErr [] (RPanic (d_fn dn) e))) I).
    - apply (NOCOMMIT (d_cb dn) (d_fn dn) ENone (Abort (APanicked (d_fn dn) e)) I).
    - apply (NOCOMMIT (d_cb dn) (d_fn dn) ENone (Abort a)). exact N2.
  Qed.

  Lemma S_invoke_tail_re s p st1 :
    forallb leaf_ok (sig_leaves (ii_sig p)) = true -> G st1 ->
    G (snd (invoke_tail_re cfg b nest du rec s p st1)) /\
    TR st1 (snd (invoke_tail_re cfg b nest du rec s p st1)) /\
    nobug (fst (invoke_tail_re cfg b nest du rec s p st1)).
  Proof.
    intros Hl HG. unfold invoke_tail_re.
    destruct (IH (TOld (TLeaves s (sig_build_seq (ii_sig p)))) st1) as [_ H].
    specialize (H (leaves_build_seq _ Hl) HG). cbn [tpost_re] in H. unfold tpost, nobug in H.
    destruct (rec (TOld (TLeaves s (sig_build_seq (ii_sig p)))) st1) as [[built|e|a] st2]; cbn [fst snd] in *.
    - destruct H as (G2 & T2 & _).
      destruct (S_run_fn_re RoleInv (ii_fn p) (place (sig_order (ii_sig p)) built) st2 G2) as (G3 & T3 & N3).
      destruct (run_fn_re cfg b nest du rec RoleInv (ii_fn p) (place (sig_order (ii_sig p)) built) st2) as [[o e] st3].
      cbn [fst snd] in *.
      destruct o as [[lens| |]|a]; [| |destruct (cfg_recover cfg)|]; cbn [fst snd];
        (split; [exact G3|]; split; [eapply TR_trans; eauto|]); try exact I. exact N3.
    - destruct H as (G2 & T2 & _). split; [exact G2|]. split; [exact T2|exact I].
    - destruct H as (G2 & T2 & N2 & _). split; [exact G2|]. split; [exact T2|exact N2].
  Qed.

  Lemma S_invoke_body s p st : PTr (TInvoke s p) st (invoke_body cfg b nest du rec s p st).
  Proof.
    split; [apply grr_invoke_body; try spres_hyps; exact IHs|].
    intros Hl HG. cbn [tpre_re] in Hl. cbn [tpost_re]. unfold invoke_body.
    destruct (shallow_missing st s (sig_leaves (ii_sig p))) as [|k0 ks];
      [|cbn [fst snd]; split; [exact HG|]; split; [apply TR_refl|exact I]].
    destruct (s_verified (get_scope st s)).
    - apply S_invoke_tail_re; assumption.
    - destruct (is_acyclic (scope_graph st s)) as [[[|] pth]|]; cbn [fst snd].
      + destruct (S_invoke_tail_re s p _ Hl (G_set_verified st s true HG)) as (G2 & T2 & N2).
        split; [exact G2|]. split; [eapply TR_trans; [apply TR_set_verified|exact T2]|exact N2].
      + split; [exact HG|]. split; [apply TR_refl|exact I].
      + split; [exact HG|]. split; [apply TR_refl|exact I].
  Qed.

  Lemma S_evalF_re t st : PTr t st (evalF_re cfg b nest du rec t st).
  Proof.
    destruct t as [[v [k opt|k soft]|v ls|n|d]|s p]; cbn [evalF_re].
    - split; [apply (P_Once.gr_build_single spres spres_refl spres_trans (recO rec) (fun t0 st0 => IHs (TOld t0) st0))|].
      intros Hp HG. cbn [tpre_re tpre leaf_ok] in Hp. cbn [tpost_re].
      apply Nat.eqb_eq in Hp. destruct (S_build_single _ IHo v k opt st Hp HG) as (A & B & C).
      split; [exact A|]. split; [exact B|]. split; [exact C|]. destruct (fst _); exact I.
    - split; [apply (P_Once.gr_build_group spres spres_refl spres_trans (recO rec) (fun t0 st0 => IHs (TOld t0) st0))|].
      intros _ HG. cbn [tpost_re].
      destruct (S_build_group _ IHo v k soft st HG) as (A & B & C).
      split; [exact A|]. split; [exact B|]. split; [exact C|]. destruct (fst _); exact I.
    - split; [apply (P_Once.gr_build_list spres spres_refl spres_trans (recO rec) (fun t0 st0 => IHs (TOld t0) st0))|].
      intros Hp HG. cbn [tpost_re].
      destruct (S_build_list _ IHo v ls st Hp HG) as (A & B & C).
      split; [exact A|]. split; [exact B|]. split; [exact C|]. destruct (fst _); exact I.
    - apply S_call_ctor_re.
    - apply S_call_dec_re.
    - apply S_invoke_body.
  Qed.
End StepRe.

(* ---------- the knot: both budgets ---------- *)

Lemma PTr_fuel t st : PTr t st (Abort AFuel, st).
Proof.
  split; [apply spres_refl|]. intros _ HG. cbn [fst snd].
  split; [exact HG|]. split; [apply TR_refl|].
  destruct t as [[v l|v ls|n|d]|s p]; cbn [tpost_re tpost nobug]; try exact I; split; exact I.
Qed.

Section KnotRe.
  Variables (cfg : config) (b : beh) (nest : nestor) (du : dur).
  Hypothesis Hnest : wf_nest nest.

  Lemma eval_lvl_PTr inv :
    (forall s p st, PTr (TInvoke s p) st (inv s p st)) ->
    forall fuel t st, PTr t st (eval_lvl cfg b nest du inv fuel t st).
  Proof.
    intros Hinv. induction fuel as [|f IHf]; intros t st; cbn [eval_lvl]; [apply PTr_fuel|].
    apply S_evalF_re; [exact Hnest|].
    intros [t'|s p] st'; cbn [dispatch]; [apply IHf|apply Hinv].
  Qed.

  Lemma invoke_lvl_PTr : forall depth s p st, PTr (TInvoke s p) st (invoke_lvl cfg b nest du depth s p st).
  Proof.
    induction depth as [|d IHd]; intros s p st; cbn [invoke_lvl]; [apply PTr_fuel|].
    apply eval_lvl_PTr. exact IHd.
  Qed.

  Theorem eval_re_PTr depth fuel t st : PTr t st (eval_re cfg b nest du depth fuel t st).
  Proof. apply eval_lvl_PTr. apply invoke_lvl_PTr. Qed.
End KnotRe.

(* ---------- operations and runs ---------- *)

Definition vnobug (v : verdict) : Prop :=
  match v with VAbort (ABug _) => False | _ => True end.

Section OpsRe.
  Variables (cfg : config) (b : beh) (nest : nestor) (du : dur) (depth : nat).
  Hypothesis Hnest : wf_nest nest.

  Lemma RI_invoke_re st s p :
    forallb leaf_ok (sig_leaves (ii_sig p)) = true -> RI st ->
    RI (snd (invoke_re cfg b nest du depth st s p)) /\ vnobug (fst (invoke_re cfg b nest du depth st s p)).
  Proof.
    intros Hl (HS & HK & HV & HQ). unfold invoke_re. cbn [fst snd].
    destruct (invoke_lvl_PTr cfg b nest du Hnest (S depth) s p st) as [_ H].
    destruct (H Hl (conj HS (conj HK HV))) as ((S1 & K1 & V1) & T1 & N1). cbn [tpost_re] in N1.
    split.
    - split; [exact S1|]. split; [exact K1|]. split; [exact V1|eapply Q_TR; eauto].
    - destruct (fst (invoke_lvl cfg b nest du (S depth) s p st)) as [x|x|[f e|c|]]; cbn; auto.
  Qed.

  Lemma step_re_RI st o :
    P_Frame.op_ok (length (st_scopes st)) o = true -> op_keys_ok o = true -> RI st ->
    RI (snd (step_re cfg b nest du depth st o)) /\ vnobug (fst (step_re cfg b nest du depth st o)).
  Proof.
    intros Hok Hk HR.
    destruct o as [p|s p|s p|s p|k s f].
    4:{ cbn [step_re op_keys_ok] in *. apply RI_invoke_re; assumption. }
    all: destruct (step_RI cfg b du st _ Hok Hk HR) as [A B]; cbn [step step_re] in *;
      (split; [exact A|]);
      match goal with |- vnobug ?v => destruct v as [|e|[f0 e0|c0|]]; cbn in *; auto end.
  Qed.

  Lemma step_re_scopes_length st o :
    length (st_scopes (snd (step_re cfg b nest du depth st o))) = P_Frame.next_count (length (st_scopes st)) o.
  Proof.
    destruct o as [p|s p|s p|s p|k s f].
    1: exact (step_scopes_length cfg b du st (OScope p)).
    1: exact (step_scopes_length cfg b du st (OProvide s p)).
    1: exact (step_scopes_length cfg b du st (ODecorate s p)).
    2: exact (step_scopes_length cfg b du st (OBad k s f)).
    cbn [step_re P_Frame.next_count].
    apply (spres_lens st). unfold invoke_re. cbn [snd].
    apply invoke_lvl_rel; spres_hyps.
  Qed.

  Lemma run_from_re_RI : forall h st,
    wf_scopes_from (length (st_scopes st)) h = true -> wf_keys h = true -> RI st ->
    RI (snd (run_from_re cfg b nest du depth st h)) /\
    forall o, In o (fst (run_from_re cfg b nest du depth st h)) -> vnobug (so_verdict o).
  Proof.
    induction h as [|o h IHh]; intros st Hs Hk HR.
    - cbn [run_from_re fst snd]. split; [exact HR|]. intros o [].
    - cbn [run_from_re fst snd].
      cbn [wf_scopes_from] in Hs. apply andb_true_iff in Hs as [Hok Hs].
      unfold wf_keys in Hk. cbn [forallb] in Hk. apply andb_true_iff in Hk as [Hko Hk].
      destruct (step_re_RI st o Hok Hko HR) as [HR1 HV1].
      destruct (IHh (snd (step_re cfg b nest du depth st o))) as [HR2 HV2].
      { rewrite step_re_scopes_length. exact Hs. }
      { exact Hk. }
      { exact HR1. }
      split; [exact HR2|]. intros o' [<-|Hin]; [exact HV1|apply HV2; exact Hin].
  Qed.
End OpsRe.

(* dig never crashes on its own, however its user functions re-enter it: no
   operation of a re-entrant run ends in ABug *)
Theorem run_re_d_never_bug depth cfg b nest du h :
  wf_scopes h = true -> wf_keys h = true -> wf_nest nest ->
  forall o, In o (run_re_d depth cfg b nest du h) ->
    match so_verdict o with VAbort (ABug _) => False | _ => True end.
Proof.
  intros Hs Hk Hn o Hin. unfold run_re_d in Hin.
  destruct (run_from_re_RI cfg b nest du depth Hn h init_state Hs Hk RI_init) as [_ H].
  exact (H o Hin).
Qed.
Print Assumptions run_re_d_never_bug.

Theorem run_re_never_bug cfg b nest du h :
  wf_scopes h = true -> wf_keys h = true -> wf_nest nest ->
  forall o, In o (run_re cfg b nest du h) ->
    match so_verdict o with VAbort (ABug _) => False | _ => True end.
Proof. apply run_re_d_never_bug. Qed.
Print Assumptions run_re_never_bug.

(* between operations nothing is left on the resolution stack, whatever the
   bodies did (every frame pushed during nested work was popped) *)
Theorem RI_state_after_re depth cfg b nest du h :
  wf_scopes h = true -> wf_keys h = true -> wf_nest nest ->
  RI (state_after_re_d depth cfg b nest du h).
Proof.
  intros Hs Hk Hn. unfold state_after_re_d.
  exact (proj1 (run_from_re_RI cfg b nest du depth Hn h init_state Hs Hk RI_init)).
Qed.

Corollary quiescent_state_after_re depth cfg b nest du h :
  wf_scopes h = true -> wf_keys h = true -> wf_nest nest ->
  (forall n, c_onstack (get_node (state_after_re_d depth cfg b nest du h) n) = false) /\
  (forall d, d_state (get_dec (state_after_re_d depth cfg b nest du h) d) <> DOnStack).
Proof. intros Hs Hk Hn. apply (RI_state_after_re depth cfg b nest du h Hs Hk Hn). Qed.
Print Assumptions quiescent_state_after_re.

(* the oracle of a finite table is well-formed when its entries are *)
Lemma wf_nest_of (tbl : nest_tbl) :
  forallb (fun row => forallb (fun x => forallb leaf_ok (sig_leaves (ii_sig (snd (snd x))))) (snd row)) tbl = true ->
  wf_nest (nest_of tbl).
Proof.
  intros H f e s p Hin. unfold nest_of in Hin.
  apply in_map_iff in Hin as ([e' [s' p']] & E & Hin). cbn [snd] in E. inversion E; subst s' p'.
  apply filter_In in Hin as [Hin _].
  unfold alookup_list in Hin.
  destruct (alookup Nat.eqb f tbl) as [l|] eqn:EA; [|destruct Hin].
  destruct (P_Frame.alookup_In _ _ _ _ EA) as [k' Hk'].
  rewrite forallb_forall in H. specialize (H _ Hk'). cbn [snd] in H.
  rewrite forallb_forall in H. exact (H _ Hin).
Qed.

(* ====================================================================== *)
(* 5. The core clause of C02 for re-entrant bodies: a constructor that is  *)
(*    on the resolution stack is never executed — not by the resolution of *)
(*    its own arguments, not by anything its body (or the bodies of its    *)
(*    dependencies, at any nesting depth) asks the container for.          *)
(* ====================================================================== *)

(* the builders of Resolve.v for a relation that holds of [rec] only on
   tasks whose node / decorator exists (P_Once.refs_ok, P_Once.pre) *)
Section GenericPre.
  Variable R : state -> state -> Prop.
  Hypothesis R_refl : forall st, R st st.
  Hypothesis R_trans : forall x y z, R x y -> R y z -> R x z.
  Hypothesis R_frame : forall st st', R st st' -> P_Once.frame st st'.
  Variable rec : task -> state -> out.
  Hypothesis IH : forall t st, refs_ok st -> P_Once.pre t st -> R st (snd (rec t st)).

  Lemma gp_call_ctors ns : forall st,
    refs_ok st -> (forall n, In n ns -> n < length (st_nodes st)) -> R st (snd (call_ctors rec ns st)).
  Proof.
    induction ns as [|n t IHn]; intros st Hr Hns; cbn [call_ctors]; [apply R_refl|].
    pose proof (IH (TCallCtor n) st Hr (Hns n (or_introl eq_refl))) as H1.
    destruct (rec (TCallCtor n) st) as [[a|e|a] st1]; cbn [snd] in *; auto.
    pose proof (R_frame _ _ H1) as F1.
    eapply R_trans; [exact H1|]. apply IHn.
    - eapply refs_ok_frame; eauto.
    - intros n' Hn'. rewrite (frame_nodes_len _ _ F1). apply Hns. right. exact Hn'.
  Qed.

  Lemma gp_call_group_decs k bs : forall st, refs_ok st -> R st (snd (call_group_decs rec k bs st)).
  Proof.
    induction bs as [|s t IHb]; intros st Hr; cbn [call_group_decs]; [apply R_refl|].
    destruct (alookup key_eqb k (s_decorators (get_scope st s))) as [d|] eqn:E; [|apply IHb; auto].
    destruct (dstate_eqb (d_state (get_dec st d)) DOnStack) eqn:E2; [apply IHb; auto|].
    assert (Hpre : P_Once.pre (TCallDec d) st).
    { split; [|apply dstate_eqb_false; exact E2].
      destruct Hr as [_ Hr]. apply (Hr s). apply alookup_dids in E. exact E. }
    pose proof (IH (TCallDec d) st Hr Hpre) as H1.
    destruct (rec (TCallDec d) st) as [[a|e|a] st1]; cbn [snd] in *; auto.
    eapply R_trans; [exact H1|]. apply IHb. eapply refs_ok_frame; eauto.
  Qed.

  Lemma gp_build_list v ls : forall st, refs_ok st -> R st (snd (build_list rec v ls st)).
  Proof.
    induction ls as [|l t IHl]; intros st Hr; cbn [build_list]; [apply R_refl|].
    pose proof (IH (TLeaf v l) st Hr I) as H1.
    destruct (rec (TLeaf v l) st) as [[a|e|a] st1]; cbn [snd] in *; auto.
    assert (H2 : R st1 (snd (build_list rec v t st1))) by (apply IHl; eapply refs_ok_frame; eauto).
    destruct (build_list rec v t st1) as [[r|e|a'] st2]; cbn [snd] in *; eapply R_trans; eauto.
  Qed.

  Lemma gp_build_single v k opt st : refs_ok st -> R st (snd (build_single rec v k opt st)).
  Proof.
    intros Hr. unfold build_single.
    destruct (find_dec st v k) as [[d bsc]|] eqn:Ef.
    - apply find_dec_some in Ef as [[s Hs] Hns].
      assert (Hpre : P_Once.pre (TCallDec d) st).
      { split; [|exact Hns]. destruct Hr as [_ Hr]. apply (Hr s). exact Hs. }
      pose proof (IH (TCallDec d) st Hr Hpre) as H1.
      destruct (rec (TCallDec d) st) as [[a|e|a] st1]; cbn [snd] in *; auto.
      destruct (alookup key_eqb k (s_dvalues (get_scope st1 bsc))); auto.
    - destruct (find_map _ (path st v)); [apply R_refl|].
      destruct (find_provider st (path st v) k) as [a|bsc ns|] eqn:Ep; [apply R_refl| |destruct opt; apply R_refl].
      assert (H1 : R st (snd (call_ctors rec ns st))).
      { apply gp_call_ctors; [exact Hr|].
        intros n Hn. destruct Hr as [Hr _]. apply (Hr bsc). eapply find_provider_prov; eauto. }
      destruct (call_ctors rec ns st) as [[|c e|a] st1]; cbn [snd] in *.
      + destruct (alookup key_eqb k (s_values (get_scope st1 bsc))); auto.
      + destruct (opt && has_missingdeps e); auto.
      + auto.
  Qed.

  Lemma gp_build_group v k soft st : refs_ok st -> R st (snd (build_group rec v k soft st)).
  Proof.
    intros Hr. unfold build_group.
    pose proof (gp_call_group_decs k (rev (path st v)) st Hr) as H1.
    destruct (call_group_decs rec k (rev (path st v)) st) as [[|c e|a] st1]; cbn [snd] in *; auto.
    destruct (find_map _ (path st1 v)); auto.
    destruct soft; auto.
    assert (Hr1 : refs_ok st1) by (eapply refs_ok_frame; eauto).
    assert (H2 : R st1 (snd (call_ctors rec (providers_on_path st1 v k) st1))).
    { apply gp_call_ctors; [exact Hr1|].
      intros n Hn. apply providers_on_path_pids in Hn as [bsc Hn]. destruct Hr1 as [Hr1 _]. eapply Hr1; eauto. }
    destruct (call_ctors rec (providers_on_path st1 v k) st1) as [[|c e|a] st2]; cbn [snd] in *;
      eapply R_trans; eauto.
  Qed.
End GenericPre.

Section OnStack.
  Variables (cfg : config) (b : beh) (nest : nestor) (du : dur).
  Variable f : fnid.      (* the function of the constructor we watch *)
  Variable n : nid.       (* its node *)
  (* no body asks the container to Invoke f itself *)
  Hypothesis Hnest : forall f' e s p, In (s, p) (nest f' e) -> ii_fn p <> f.

  (* node n runs f, is on the stack, and no other node or decorator runs f
     (function ids identify registrations: P_Once.wf_fns) *)
  Definition OS (st : state) : Prop :=
    n < length (st_nodes st) /\ c_fn (get_node st n) = f /\ c_onstack (get_node st n) = true /\
    (forall m, m < length (st_nodes st) -> m <> n -> c_fn (get_node st m) <> f) /\
    (forall d, d < length (st_decs st) -> d_fn (get_dec st d) <> f).

  (* ... then it stays on the stack and f is not executed *)
  Definition RS (st st' : state) : Prop :=
    P_Once.frame st st' /\
    (OS st -> c_onstack (get_node st' n) = true /\ nexec f (st_log st') = nexec f (st_log st)).

  Lemma OS_frame st st' : P_Once.frame st st' -> OS st -> c_onstack (get_node st' n) = true -> OS st'.
  Proof.
    intros F (A & B & C & D & E) H.
    split; [rewrite (frame_nodes_len _ _ F); exact A|].
    split; [rewrite (frame_c_fn _ _ n F); exact B|].
    split; [exact H|]. split.
    - intros m Hm Hne. rewrite (frame_c_fn _ _ m F). apply D; [|exact Hne].
      rewrite <- (frame_nodes_len _ _ F). exact Hm.
    - intros d Hd. rewrite (frame_d_fn _ _ d F). apply E. rewrite <- (frame_decs_len _ _ F). exact Hd.
  Qed.

  Lemma RS_refl st : RS st st.
  Proof. split; [apply P_Once.frame_refl|]. intros (_ & _ & C & _). split; [exact C|reflexivity]. Qed.

  Lemma RS_trans x y z : RS x y -> RS y z -> RS x z.
  Proof.
    intros [F1 H1] [F2 H2]. split; [eapply P_Once.frame_trans; eauto|].
    intros HO. destruct (H1 HO) as [C1 N1].
    destruct (H2 (OS_frame _ _ F1 HO C1)) as [C2 N2]. split; [exact C2|]. rewrite N2. exact N1.
  Qed.

  Lemma RS_frame st st' : RS st st' -> P_Once.frame st st'.
  Proof. intros [F _]. exact F. Qed.

  (* updates that leave node n's flag and the executions of f alone *)
  Lemma RS_same st st' :
    P_Once.frame st st' -> c_onstack (get_node st' n) = c_onstack (get_node st n) ->
    nexec f (st_log st') = nexec f (st_log st) -> RS st st'.
  Proof. intros F A B. split; [exact F|]. intros (_ & _ & C & _). split; [rewrite A; exact C|exact B]. Qed.

  Lemma RS_set_onstack_other st m x : m <> n -> RS st (set_onstack st m x).
  Proof.
    intros Hne. apply RS_same; [apply P_Once.frame_upd_node; reflexivity| |reflexivity].
    apply onstack_set_other. intros E. apply Hne. symmetry. exact E.
  Qed.

  Lemma RS_set_called st m : RS st (set_called st m).
  Proof. apply RS_same; [apply P_Once.frame_upd_node; reflexivity|apply onstack_set_called|reflexivity]. Qed.

  Lemma RS_set_dstate st d x : RS st (set_dstate st d x).
  Proof. apply RS_same; [apply P_Once.frame_upd_dec; reflexivity|reflexivity|reflexivity]. Qed.

  Lemma RS_upd_scope st s g :
    (forall c, s_providers (g c) = s_providers c /\ s_decorators (g c) = s_decorators c) ->
    RS st (upd_scope st s g).
  Proof. intros H. apply RS_same; [apply P_Once.frame_upd_scope; exact H|reflexivity|reflexivity]. Qed.

  Lemma RS_callback st has f' c start : RS st (callback has f' c start st).
  Proof.
    apply RS_same; [apply P_Once.frame_callback|apply f_equal; apply get_node_callback|].
    destruct has; [|reflexivity]. unfold callback. rewrite log_add_event. apply nexec_cons_cb.
  Qed.

  Lemma RS_run_fn st r f' args : f' <> f -> RS st (snd (run_fn cfg b du r f' args st)).
  Proof.
    intros Hne. apply RS_same; [apply P_Once.frame_run_fn| |]; unfold run_fn;
      destruct (cfg_dry cfg); cbn [snd]; try reflexivity.
    rewrite log_add_event. apply nexec_cons_other. exact Hne.
  Qed.

  Definition pre_re (t : rtask) (st : state) : Prop :=
    match t with
    | TOld t => P_Once.pre t st
    | TInvoke s p => ii_fn p <> f
    end.

  (* the frame holds of every task; the claim about n and f of tasks that exist *)
  Definition PS (t : rtask) (st : state) (o : out) : Prop :=
    P_Once.frame st (snd o) /\ (refs_ok st -> pre_re t st -> RS st (snd o)).

  Ltac frame_hyps :=
    first [ apply P_Once.frame_refl
          | apply P_Once.frame_trans
          | intros; apply P_Once.frame_upd_node; reflexivity
          | intros; apply P_Once.frame_upd_dec; reflexivity
          | intros; apply P_Once.frame_upd_scope; intros ?; apply P_Once.providers_commit_results
          | intros; apply P_Once.frame_upd_scope; intros ?; apply P_Once.providers_commit_decorated
          | intros; apply P_Once.frame_callback
          | intros; apply P_Once.frame_run_fn
          | intros; apply P_Once.frame_upd_scope; intros ?; split; reflexivity ].

  Section Step.
    Variable rec : rtask -> state -> out.
    Hypothesis IH : forall t st, PS t st (rec t st).

    Let IHf : forall t st, P_Once.frame st (snd (rec t st)) := fun t st => proj1 (IH t st).
    Let IHr : forall t st, refs_ok st -> pre_re t st -> RS st (snd (rec t st)) := fun t st => proj2 (IH t st).
    Let IHo : forall t st, refs_ok st -> P_Once.pre t st -> RS st (snd (recO rec t st)) :=
      fun t st => IHr (TOld t) st.

    Lemma os_run_nested : forall reqs st,
      (forall s p, In (s, p) reqs -> ii_fn p <> f) -> refs_ok st -> RS st (snd (run_nested rec reqs st)).
    Proof.
      induction reqs as [|[s p] t IHq]; intros st Hw Hr; cbn [run_nested]; [apply RS_refl|].
      assert (Hw' : forall s0 p0, In (s0, p0) t -> ii_fn p0 <> f)
        by (intros s0 p0 H0; apply (Hw s0 p0); right; exact H0).
      destruct (Nat.ltb s (length (st_scopes st))); [|apply IHq; assumption].
      pose proof (IHr (TInvoke s p) st Hr (Hw s p (or_introl eq_refl))) as H1.
      destruct (rec (TInvoke s p) st) as [[x|e|a] st1]; cbn [snd] in *; [| |exact H1];
        (eapply RS_trans; [exact H1|]; apply IHq; [exact Hw'|eapply refs_ok_frame; [apply RS_frame; exact H1|exact Hr]]).
    Qed.

    Lemma os_run_fn_re r f' args st :
      f' <> f -> refs_ok st -> RS st (snd (run_fn_re cfg b nest du rec r f' args st)).
    Proof.
      intros Hne Hr. unfold run_fn_re. pose proof (RS_run_fn st r f' args Hne) as H1.
      destruct (run_fn cfg b du r f' args st) as [[o e] st1]. cbn [snd] in H1.
      destruct (cfg_dry cfg); [exact H1|].
      assert (H2 : RS st1 (snd (run_nested rec (nest f' e) st1))).
      { apply os_run_nested; [apply Hnest|]. eapply refs_ok_frame; [apply RS_frame; exact H1|exact Hr]. }
      destruct (run_nested rec (nest f' e) st1) as [[a|] st2]; cbn [snd] in *; eapply RS_trans; eauto.
    Qed.

    Lemma os_call_ctor_re m st : PS (TOld (TCallCtor m)) st (call_ctor_re cfg b nest du rec m st).
    Proof.
      split; [apply grr_call_ctor_re; try frame_hyps; exact IHf|].
      intros Hr Hm. cbn [pre_re P_Once.pre] in Hm.
      split; [apply grr_call_ctor_re; try frame_hyps; exact IHf|].
      intros HOS. revert HOS.
      (* it is enough to chain RS along the call *)
      assert (CH : RS st (snd (call_ctor_re cfg b nest du rec m st)) \/ ~ OS st);
        [|destruct CH as [[_ H]|H]; [exact H|intros HOS; destruct (H HOS)]].
      unfold call_ctor_re.
      destruct (c_called (get_node st m)) eqn:Ec; [left; apply RS_refl|].
      destruct (c_onstack (get_node st m)) eqn:Eo; [left; apply RS_refl|].
      destruct (Nat.eq_dec m n) as [->|Hne].
      { right. intros (_ & _ & C & _). rewrite C in Eo. discriminate. }
      destruct (Nat.eq_dec (c_fn (get_node st m)) f) as [Ef|Hf].
      { right. intros (_ & _ & _ & D & _). exact (D m Hm Hne Ef). }
      left.
      set (c := get_node st m) in *.
      set (st0 := set_onstack st m true).
      assert (R0 : RS st st0) by (apply RS_set_onstack_other; exact Hne).
      assert (EXIT : forall Y, RS st Y -> RS st (set_onstack Y m false)).
      { intros Y HY. eapply RS_trans; [exact HY|apply RS_set_onstack_other; exact Hne]. }
      destruct (shallow_missing st0 (c_orig c) (sig_leaves (c_sig c))); [|cbn [snd]; apply EXIT; exact R0].
      assert (Hr0 : refs_ok st0) by (eapply refs_ok_frame; [apply RS_frame; exact R0|exact Hr]).
      pose proof (IHr (TOld (TLeaves (c_orig c) (sig_build_seq (c_sig c)))) st0 Hr0 I) as R1.
      destruct (rec (TOld (TLeaves (c_orig c) (sig_build_seq (c_sig c)))) st0) as [[built|e|a] st1]; cbn [snd] in *.
      2,3: apply EXIT; eapply RS_trans; eauto.
      assert (R01 : RS st st1) by (eapply RS_trans; eauto).
      assert (Hr1 : refs_ok st1) by (eapply refs_ok_frame; [apply RS_frame; exact R01|exact Hr]).
      pose proof (os_run_fn_re RoleCtor (c_fn c) (place (sig_order (c_sig c)) built) st1 Hf Hr1) as R2.
      destruct (run_fn_re cfg b nest du rec RoleCtor (c_fn c) (place (sig_order (c_sig c)) built) st1) as [[o e] st2].
      cbn [snd] in R2.
      assert (R02 : RS st st2) by (eapply RS_trans; eauto).
      destruct o as [[lens| |]|a]; [| |destruct (cfg_recover cfg)|]; cbn [snd]; apply EXIT.
      - eapply RS_trans; [exact R02|].
        eapply RS_trans; [apply RS_upd_scope; intros c0; apply P_Once.providers_commit_results|].
        eapply RS_trans; [apply RS_set_called|apply RS_callback].
      - eapply RS_trans; [exact R02|apply RS_callback].
      - eapply RS_trans; [exact R02|apply RS_callback].
      - eapply RS_trans; [exact R02|apply RS_callback].
      - eapply RS_trans; [exact R02|apply RS_callback].
    Qed.

    Lemma os_call_dec_re d st : PS (TOld (TCallDec d)) st (call_dec_re cfg b nest du rec d st).
    Proof.
      split; [apply grr_call_dec_re; try frame_hyps; exact IHf|].
      intros Hr [Hd _].
      split; [apply grr_call_dec_re; try frame_hyps; exact IHf|].
      intros HOS. revert HOS.
      assert (CH : RS st (snd (call_dec_re cfg b nest du rec d st)) \/ ~ OS st);
        [|destruct CH as [[_ H]|H]; [exact H|intros HOS; destruct (H HOS)]].
      unfold call_dec_re.
      destruct (dstate_eqb (d_state (get_dec st d)) DCalled); [left; apply RS_refl|].
      destruct (Nat.eq_dec (d_fn (get_dec st d)) f) as [Ef|Hf].
      { right. intros (_ & _ & _ & _ & E). exact (E d Hd Ef). }
      left.
      set (dn := get_dec st d) in *.
      set (st0 := set_dstate st d DOnStack).
      assert (R0 : RS st st0) by apply RS_set_dstate.
      assert (EXIT : forall Y, RS st Y -> RS st (set_dstate Y d DReady)).
      { intros Y HY. eapply RS_trans; [exact HY|apply RS_set_dstate]. }
      destruct (shallow_missing st0 (d_home dn) (sig_leaves (d_sig dn))); [|cbn [snd]; apply EXIT; exact R0].
      assert (Hr0 : refs_ok st0) by (eapply refs_ok_frame; [apply RS_frame; exact R0|exact Hr]).
      pose proof (IHr (TOld (TLeaves (d_home dn) (sig_build_seq (d_sig dn)))) st0 Hr0 I) as R1.
      destruct (rec (TOld (TLeaves (d_home dn) (sig_build_seq (d_sig dn)))) st0) as [[built|e|a] st1]; cbn [snd] in *.
      2,3: apply EXIT; eapply RS_trans; eauto.
      assert (R01 : RS st st1) by (eapply RS_trans; eauto).
      assert (Hr1 : refs_ok st1) by (eapply refs_ok_frame; [apply RS_frame; exact R01|exact Hr]).
      pose proof (os_run_fn_re RoleDec (d_fn dn) (place (sig_order (d_sig dn)) built) st1 Hf Hr1) as R2.
      destruct (run_fn_re cfg b nest du rec RoleDec (d_fn dn) (place (sig_order (d_sig dn)) built) st1) as [[o e] st2].
      cbn [snd] in R2.
      assert (R02 : RS st st2) by (eapply RS_trans; eauto).
      destruct o as [[lens| |]|a]; [| |destruct (cfg_recover cfg)|]; cbn [snd].
      - eapply RS_trans; [exact R02|].
        eapply RS_trans; [apply RS_upd_scope; intros c0; apply P_Once.providers_commit_decorated|].
        eapply RS_trans; [apply RS_set_dstate|apply RS_callback].
      - eapply RS_trans; [apply EXIT; exact R02|apply RS_callback].
      - eapply RS_trans; [apply EXIT; exact R02|apply RS_callback].
      - eapply RS_trans; [apply EXIT; exact R02|apply RS_callback].
      - eapply RS_trans; [apply EXIT; exact R02|apply RS_callback].
    Qed.

    Lemma os_invoke_tail_re s p st1 :
      ii_fn p <> f -> refs_ok st1 -> RS st1 (snd (invoke_tail_re cfg b nest du rec s p st1)).
    Proof.
      intros Hf Hr. unfold invoke_tail_re.
      pose proof (IHr (TOld (TLeaves s (sig_build_seq (ii_sig p)))) st1 Hr I) as R1.
      destruct (rec (TOld (TLeaves s (sig_build_seq (ii_sig p)))) st1) as [[built|e|a] st2]; cbn [snd] in *;
        [|exact R1|exact R1].
      assert (Hr2 : refs_ok st2) by (eapply refs_ok_frame; [apply RS_frame; exact R1|exact Hr]).
      pose proof (os_run_fn_re RoleInv (ii_fn p) (place (sig_order (ii_sig p)) built) st2 Hf Hr2) as R2.
      destruct (run_fn_re cfg b nest du rec RoleInv (ii_fn p) (place (sig_order (ii_sig p)) built) st2) as [[o e] st3].
      cbn [snd] in R2.
      destruct o as [[lens| |]|a]; [| |destruct (cfg_recover cfg)|]; cbn [snd]; eapply RS_trans; eauto.
    Qed.

    Lemma os_invoke_body s p st : PS (TInvoke s p) st (invoke_body cfg b nest du rec s p st).
    Proof.
      split; [apply grr_invoke_body; try frame_hyps; exact IHf|].
      intros Hr Hf. cbn [pre_re] in Hf. unfold invoke_body.
      destruct (shallow_missing st s (sig_leaves (ii_sig p))); [|apply RS_refl].
      destruct (s_verified (get_scope st s)).
      - apply os_invoke_tail_re; assumption.
      - destruct (is_acyclic (scope_graph st s)) as [[[|] pth]|]; cbn [snd]; [|apply RS_refl|apply RS_refl].
        assert (R0 : RS st (upd_scope st s (sc_set_verified true)))
          by (apply RS_upd_scope; intros c0; split; reflexivity).
        eapply RS_trans; [exact R0|]. apply os_invoke_tail_re; [exact Hf|].
        eapply refs_ok_frame; [apply RS_frame; exact R0|exact Hr].
    Qed.

    Lemma os_evalF_re t st : PS t st (evalF_re cfg b nest du rec t st).
    Proof.
      destruct t as [[v [k opt|k soft]|v ls|m|d]|s p]; cbn [evalF_re].
      - split; [apply (P_Once.gr_build_single _ P_Once.frame_refl P_Once.frame_trans (recO rec) (fun t0 st0 => IHf (TOld t0) st0))|].
        intros Hr _. apply (gp_build_single RS RS_refl RS_trans RS_frame _ IHo). exact Hr.
      - split; [apply (P_Once.gr_build_group _ P_Once.frame_refl P_Once.frame_trans (recO rec) (fun t0 st0 => IHf (TOld t0) st0))|].
        intros Hr _. apply (gp_build_group RS RS_refl RS_trans RS_frame _ IHo). exact Hr.
      - split; [apply (P_Once.gr_build_list _ P_Once.frame_refl P_Once.frame_trans (recO rec) (fun t0 st0 => IHf (TOld t0) st0))|].
        intros Hr _. apply (gp_build_list RS RS_refl RS_trans RS_frame _ IHo). exact Hr.
      - apply os_call_ctor_re.
      - apply os_call_dec_re.
      - apply os_invoke_body.
    Qed.

    (* one activation of node n executes f at most once: the resolution of its
       arguments does not (n is on the stack), its body is entered once, and
       whatever the body asks of the container does not either *)
    Lemma os_activation st :
      refs_ok st -> n < length (st_nodes st) -> c_fn (get_node st n) = f ->
      (forall m, m < length (st_nodes st) -> m <> n -> c_fn (get_node st m) <> f) ->
      (forall d, d < length (st_decs st) -> d_fn (get_dec st d) <> f) ->
      nexec f (st_log (snd (call_ctor_re cfg b nest du rec n st))) <= S (nexec f (st_log st)).
    Proof.
      intros Hr Hn Hfn Hm Hd. unfold call_ctor_re.
      destruct (c_called (get_node st n)); [cbn [snd]; lia|].
      destruct (c_onstack (get_node st n)); [cbn [snd]; lia|].
      set (c := get_node st n) in *.
      set (st0 := set_onstack st n true).
      assert (F0 : P_Once.frame st st0) by (apply P_Once.frame_upd_node; reflexivity).
      assert (O0 : OS st0).
      { split; [unfold st0, set_onstack; rewrite nodes_len_upd_node; exact Hn|].
        split; [rewrite (frame_c_fn _ _ n F0); exact Hfn|].
        split; [apply onstack_set_same; exact Hn|]. split.
        - intros m Hm' Hne. rewrite (frame_c_fn _ _ m F0). apply Hm; [|exact Hne].
          rewrite <- (frame_nodes_len _ _ F0). exact Hm'.
        - intros d Hd'. rewrite (frame_d_fn _ _ d F0). apply Hd. rewrite <- (frame_decs_len _ _ F0). exact Hd'. }
      assert (Hr0 : refs_ok st0) by (eapply refs_ok_frame; eauto).
      assert (L0 : st_log st0 = st_log st) by reflexivity.
      destruct (shallow_missing st0 (c_orig c) (sig_leaves (c_sig c))); [|cbn [snd]; rewrite log_set_onstack, L0; lia].
      pose proof (IHr (TOld (TLeaves (c_orig c) (sig_build_seq (c_sig c)))) st0 Hr0 I) as [F1 R1].
      destruct (R1 O0) as [C1 N1]. rewrite L0 in N1.
      destruct (rec (TOld (TLeaves (c_orig c) (sig_build_seq (c_sig c)))) st0) as [[built|e|a] st1]; cbn [snd] in *.
      2,3: rewrite log_set_onstack, N1; lia.
      pose proof (OS_frame _ _ F1 O0 C1) as O1.
      assert (Hr1 : refs_ok st1) by (eapply refs_ok_frame; eauto).
      (* the body: one EExec f, then its requests *)
      assert (BODY : nexec f (st_log (snd (run_fn_re cfg b nest du rec RoleCtor (c_fn c)
                                             (place (sig_order (c_sig c)) built) st1))) <= S (nexec f (st_log st1))).
      { unfold run_fn_re.
        pose proof (P_Once.frame_run_fn cfg b du st1 RoleCtor (c_fn c) (place (sig_order (c_sig c)) built)) as Ff.
        assert (Lf : nexec f (st_log (snd (run_fn cfg b du RoleCtor (c_fn c) (place (sig_order (c_sig c)) built) st1)))
                     <= S (nexec f (st_log st1))).
        { unfold run_fn. destruct (cfg_dry cfg); cbn [snd]; [lia|].
          rewrite log_add_event, nexec_cons. cbn [st_log bump_count set_count set_clock].
          destruct (exec_of f _); cbn; lia. }
        assert (Cf : c_onstack (get_node (snd (run_fn cfg b du RoleCtor (c_fn c) (place (sig_order (c_sig c)) built) st1)) n) = true).
        { unfold run_fn. destruct (cfg_dry cfg); cbn [snd]; exact C1. }
        destruct (run_fn cfg b du RoleCtor (c_fn c) (place (sig_order (c_sig c)) built) st1) as [[o e] st1'].
        cbn [snd] in *.
        destruct (cfg_dry cfg); [exact Lf|].
        assert (Hr1' : refs_ok st1') by (eapply refs_ok_frame; eauto).
        destruct (os_run_nested (nest (c_fn c) e) st1' (Hnest (c_fn c) e) Hr1') as [_ R2].
        destruct (R2 (OS_frame _ _ Ff O1 Cf)) as [_ N2].
        destruct (run_nested rec (nest (c_fn c) e) st1') as [[a|] st2]; cbn [snd] in *; rewrite N2; exact Lf. }
      destruct (run_fn_re cfg b nest du rec RoleCtor (c_fn c) (place (sig_order (c_sig c)) built) st1) as [[o e] st2].
      cbn [snd] in BODY. rewrite N1 in BODY.
      assert (CB : forall has f' cl start Y, nexec f (st_log (callback has f' cl start Y)) = nexec f (st_log Y)).
      { intros [|] f' cl start Y; unfold callback; [rewrite log_add_event; apply nexec_cons_cb|reflexivity]. }
      destruct o as [[lens| |]|a]; [| |destruct (cfg_recover cfg)|]; cbn [snd]; rewrite log_set_onstack, CB; try exact BODY.
    Qed.
  End Step.

  Lemma PS_fuel t st : PS t st (Abort AFuel, st).
  Proof. split; [apply P_Once.frame_refl|]. intros _ _. apply RS_refl. Qed.

  Lemma eval_lvl_PS inv :
    (forall s p st, PS (TInvoke s p) st (inv s p st)) ->
    forall fuel t st, PS t st (eval_lvl cfg b nest du inv fuel t st).
  Proof.
    intros Hinv. induction fuel as [|k IHk]; intros t st; cbn [eval_lvl]; [apply PS_fuel|].
    apply os_evalF_re. intros [t'|s p] st'; cbn [dispatch]; [apply IHk|apply Hinv].
  Qed.

  Lemma invoke_lvl_PS : forall depth s p st, PS (TInvoke s p) st (invoke_lvl cfg b nest du depth s p st).
  Proof.
    induction depth as [|d IHd]; intros s p st; cbn [invoke_lvl]; [apply PS_fuel|].
    apply eval_lvl_PS. exact IHd.
  Qed.

  Theorem eval_re_PS depth fuel t st : PS t st (eval_re cfg b nest du depth fuel t st).
  Proof. apply eval_lvl_PS. apply invoke_lvl_PS. Qed.

  (* THE CLAUSE.  While node n (running f) is on the stack, no task — the
     resolution of arguments, a constructor, a decorator, an Invoke called from
     inside a body, to any nesting depth — executes f, and n stays on the stack *)
  Theorem onstack_never_executed depth fuel t st :
    refs_ok st -> pre_re t st -> OS st ->
    c_onstack (get_node (snd (eval_re cfg b nest du depth fuel t st)) n) = true /\
    nexec f (st_log (snd (eval_re cfg b nest du depth fuel t st))) = nexec f (st_log st).
  Proof.
    intros Hr Hp HOS. destruct (eval_re_PS depth fuel t st) as [_ H].
    destruct (H Hr Hp) as [_ H2]. exact (H2 HOS).
  Qed.

  (* one activation of a constructor executes its function at most once *)
  Theorem ctor_activation_once depth fuel st :
    refs_ok st -> n < length (st_nodes st) -> c_fn (get_node st n) = f ->
    (forall m, m < length (st_nodes st) -> m <> n -> c_fn (get_node st m) <> f) ->
    (forall d, d < length (st_decs st) -> d_fn (get_dec st d) <> f) ->
    nexec f (st_log (snd (eval_re cfg b nest du depth fuel (TOld (TCallCtor n)) st))) <= S (nexec f (st_log st)).
  Proof.
    intros Hr Hn Hfn Hm Hd. unfold eval_re. destruct fuel as [|k]; cbn [eval_lvl snd]; [lia|].
    cbn [evalF_re]. apply os_activation; try assumption.
    intros [t'|s p] st'; cbn [dispatch]; [apply eval_lvl_PS; apply invoke_lvl_PS|apply invoke_lvl_PS].
  Qed.
End OnStack.
Print Assumptions onstack_never_executed.
Print Assumptions ctor_activation_once.

(* ====================================================================== *)
(* 6. Execution indices (checker code 201) for re-entrant runs: the index  *)
(*    logged with an execution is the number of earlier executions of the  *)
(*    same function — also when executions nest inside one another.        *)
(* ====================================================================== *)

Theorem eval_re_count cfg b nest du depth fuel t st :
  inv_count st -> inv_count (snd (eval_re cfg b nest du depth fuel t st)).
Proof.
  apply (eval_re_rel cfg b nest du (fun st st' => inv_count st -> inv_count st')); auto.
  - intros. apply inv_count_callback. auto.
  - intros. apply inv_count_run_fn. auto.
Qed.

Lemma invoke_re_count cfg b nest du depth st s p :
  inv_count st -> inv_count (snd (invoke_re cfg b nest du depth st s p)).
Proof.
  apply (invoke_re_rel cfg b nest du (fun st st' => inv_count st -> inv_count st')); auto.
  - intros. apply inv_count_callback. auto.
  - intros. apply inv_count_run_fn. auto.
Qed.

Lemma step_re_count cfg b nest du depth st o :
  inv_count st -> inv_count (snd (step_re cfg b nest du depth st o)).
Proof.
  intros H. destruct o as [p|s p|s p|s p|k s f].
  4: exact (invoke_re_count cfg b nest du depth st s p H).
  - exact (step_count cfg b du st (OScope p) H).
  - exact (step_count cfg b du st (OProvide s p) H).
  - exact (step_count cfg b du st (ODecorate s p) H).
  - exact H.
Qed.

Lemma step_re_log cfg b nest du depth st o :
  exists new, st_log (snd (step_re cfg b nest du depth st o)) = new ++ st_log st.
Proof.
  destruct o as [p|s p|s p|s p|k s f].
  4:{ apply frame_log. cbn [step_re].
      apply invoke_re_rel.
      - apply P_Once.frame_refl.
      - apply P_Once.frame_trans.
      - intros. apply P_Once.frame_upd_node. reflexivity.
      - intros. apply P_Once.frame_upd_node. reflexivity.
      - intros. apply P_Once.frame_upd_dec. reflexivity.
      - intros. apply P_Once.frame_upd_scope. intros c. apply P_Once.providers_commit_results.
      - intros. apply P_Once.frame_upd_scope. intros c. apply P_Once.providers_commit_decorated.
      - intros. apply P_Once.frame_callback.
      - intros. apply P_Once.frame_run_fn.
      - intros. apply P_Once.frame_upd_scope. intros c. split; reflexivity. }
  - destruct (step_D cfg b du st (OScope p)) as (new & L & _). exists new. exact L.
  - destruct (step_D cfg b du st (OProvide s p)) as (new & L & _). exists new. exact L.
  - destruct (step_D cfg b du st (ODecorate s p)) as (new & L & _). exists new. exact L.
  - exists []. reflexivity.
Qed.

Lemma run_from_re_log cfg b nest du depth h : forall st,
  st_log (snd (run_from_re cfg b nest du depth st h)) =
  rev (flat_map so_events (fst (run_from_re cfg b nest du depth st h))) ++ st_log st.
Proof.
  induction h as [|o h IHh]; intros st; [reflexivity|].
  cbn [run_from_re fst snd flat_map so_events]. rewrite IHh.
  destruct (step_re_log cfg b nest du depth st o) as (new & L). rewrite L, new_events_ext.
  rewrite rev_app_distr, rev_involutive, <- app_assoc. reflexivity.
Qed.

Definition run_re_events (depth : nat) (cfg : config) (b : beh) (nest : nestor) (du : dur) (h : history) : list event :=
  flat_map so_events (run_re_d depth cfg b nest du h).

Lemma reach_re_count cfg b nest du depth h : forall st,
  inv_count st -> inv_count (snd (run_from_re cfg b nest du depth st h)).
Proof.
  induction h as [|o h IHh]; intros st H; [exact H|].
  cbn [run_from_re snd]. apply IHh. apply step_re_count. exact H.
Qed.

(* no hypothesis at all: counters and logged indices agree on every re-entrant run *)
Theorem run_re_counters depth cfg b nest du h :
  let st := state_after_re_d depth cfg b nest du h in
  (forall f, get_count st f = nexec f (st_log st)) /\
  (forall pre f e r args o post,
      run_re_events depth cfg b nest du h = pre ++ EExec f e r args o :: post -> e = nexec f pre).
Proof.
  assert (H : inv_count (state_after_re_d depth cfg b nest du h)).
  { apply reach_re_count. split; [reflexivity|exact I]. }
  destruct H as [A B]. split; [exact A|].
  intros pre f e r args o post E.
  unfold state_after_re_d in B. rewrite run_from_re_log in B. cbn [st_log init_state] in B.
  rewrite app_nil_r in B. fold (run_re_d depth cfg b nest du h) in B.
  change (flat_map so_events (run_re_d depth cfg b nest du h)) with (run_re_events depth cfg b nest du h) in B.
  pose proof (log_all_chron _ _ B _ _ _ E) as H. cbn in H. rewrite nexec_rev in H. exact H.
Qed.
Print Assumptions run_re_counters.

(* ====================================================================== *)
(* 7. Provenance (checker code 203) for re-entrant runs: every value in a  *)
(*    cache, and every argument a function is called with — nested Invokes *)
(*    included — was produced by an execution that had ALREADY returned    *)
(*    successfully.  In particular a body never sees, through the          *)
(*    container, a value of an execution that is still running.            *)
(* ====================================================================== *)

Ltac frame_re_hyps :=
  first [ apply P_Once.frame_refl
        | apply P_Once.frame_trans
        | intros; apply P_Once.frame_upd_node; reflexivity
        | intros; apply P_Once.frame_upd_dec; reflexivity
        | intros; apply P_Once.frame_upd_scope; intros ?; apply P_Once.providers_commit_results
        | intros; apply P_Once.frame_upd_scope; intros ?; apply P_Once.providers_commit_decorated
        | intros; apply P_Once.frame_callback
        | intros; apply P_Once.frame_run_fn
        | intros; apply P_Once.frame_upd_scope; intros ?; split; reflexivity ].

Lemma inv_cache_set_verified st s x : inv_cache st -> inv_cache (upd_scope st s (sc_set_verified x)).
Proof.
  apply inv_cache_eq; [|reflexivity].
  intros i. destruct (get_scope_upd_cases st s (sc_set_verified x) i) as [->|[-> ->]]; reflexivity.
Qed.

Section CacheRe.
  Variables (cfg : config) (b : beh) (nest : nestor) (du : dur).

  Section Step.
    Variable rec : rtask -> state -> out.
    Hypothesis IHf : forall t st, P_Once.frame st (snd (rec t st)).
    Hypothesis IH : forall t st, PC st (rec t st).

    Let IHfo : forall t st, P_Once.frame st (snd (recO rec t st)) := fun t st => IHf (TOld t) st.
    Let IHo : forall t st, PC st (recO rec t st) := fun t st => IH (TOld t) st.

    Lemma cr_run_nested : forall reqs st, inv_cache st -> inv_cache (snd (run_nested rec reqs st)).
    Proof.
      induction reqs as [|[s p] t IHr]; intros st Hst; cbn [run_nested]; [exact Hst|].
      destruct (Nat.ltb s (length (st_scopes st))); [|apply IHr; exact Hst].
      pose proof (IH (TInvoke s p) st Hst) as [H _].
      destruct (rec (TInvoke s p) st) as [[x|e|a] st1]; cbn [snd] in *; auto.
    Qed.

    Lemma cr_run_fn_re r f args st o e st2 :
      run_fn_re cfg b nest du rec r f args st = (o, e, st2) ->
      inv_cache st -> args_okb (st_log st) args = true ->
      inv_cache st2 /\
      (forall lens, o = FOut (OOk lens) -> cfg_dry cfg = true \/ okb f e (st_log st2) = true).
    Proof.
      unfold run_fn_re. destruct (run_fn cfg b du r f args st) as [[o1 e1] st1] eqn:ER.
      intros E Hst Hargs.
      destruct (run_fn_cache _ _ _ _ _ _ _ _ _ _ ER Hst Hargs) as (H1 & _ & HO).
      destruct (cfg_dry cfg) eqn:Ed.
      { injection E as <- <- <-. split; [exact H1|]. intros; left; reflexivity. }
      pose proof (cr_run_nested (nest f e1) st1 H1) as H2.
      pose proof (grr_run_nested P_Once.frame P_Once.frame_refl P_Once.frame_trans rec IHf (nest f e1) st1) as F2.
      destruct (run_nested rec (nest f e1) st1) as [[a|] st2']; cbn [snd] in *; injection E as <- <- <-.
      - split; [exact H2|discriminate].
      - split; [exact H2|]. intros lens [= ->]. right.
        destruct (HO lens eq_refl) as [Hd|Hd]; [discriminate Hd|].
        destruct (frame_log _ _ F2) as [new ->]. apply okb_app_r. exact Hd.
    Qed.

    Lemma cr_call_ctor_re n st : PC st (call_ctor_re cfg b nest du rec n st).
    Proof.
      intros Hst. unfold call_ctor_re.
      destruct (c_called (get_node st n)).
      { split; [exact Hst|]. intros args [= <-]. reflexivity. }
      destruct (c_onstack (get_node st n)).
      { split; [exact Hst|discriminate]. }
      pose proof (inv_cache_onstack st n true Hst) as H0.
      destruct (shallow_missing (set_onstack st n true) _ _).
      2:{ cbn [fst snd]. split; [|discriminate]. apply inv_cache_onstack. exact H0. }
      pose proof (IH (TOld (TLeaves (c_orig (get_node st n)) (sig_build_seq (c_sig (get_node st n)))))
                     (set_onstack st n true) H0) as [H1 HA].
      destruct (rec _ (set_onstack st n true)) as [[built|e|a] st1]; cbn [fst snd] in *.
      2,3: split; [apply inv_cache_onstack; exact H1|discriminate].
      destruct (run_fn_re cfg b nest du rec RoleCtor _ _ st1) as [[o e] st2] eqn:ER.
      destruct (cr_run_fn_re _ _ _ _ _ _ _ ER H1 (place_ok _ _ _ (HA built eq_refl))) as (H2 & HO).
      destruct o as [[lens| |]|a]; [| |destruct (cfg_recover cfg)|]; cbn [fst snd].
      - split; [|intros args [= <-]; reflexivity].
        apply inv_cache_onstack. apply inv_cache_callback. apply inv_cache_called.
        apply inv_cache_upd_scope; [|exact H2].
        intros c. apply commit_results_ok.
        destruct (HO lens eq_refl) as [Hd|Hd]; [left; exact Hd|right; exact Hd].
      - split; [|discriminate]. apply inv_cache_onstack. apply inv_cache_callback. exact H2.
      - split; [|discriminate]. apply inv_cache_onstack. apply inv_cache_callback. exact H2.
      - split; [|discriminate]. apply inv_cache_onstack. apply inv_cache_callback. exact H2.
      - split; [|discriminate]. apply inv_cache_onstack. apply inv_cache_callback. exact H2.
    Qed.

    Lemma cr_call_dec_re d st : PC st (call_dec_re cfg b nest du rec d st).
    Proof.
      intros Hst. unfold call_dec_re.
      destruct (dstate_eqb (d_state (get_dec st d)) DCalled).
      { split; [exact Hst|]. intros args [= <-]. reflexivity. }
      pose proof (inv_cache_dstate st d DOnStack Hst) as H0.
      destruct (shallow_missing (set_dstate st d DOnStack) _ _).
      2:{ cbn [fst snd]. split; [|discriminate]. apply inv_cache_dstate. exact H0. }
      pose proof (IH (TOld (TLeaves (d_home (get_dec st d)) (sig_build_seq (d_sig (get_dec st d)))))
                     (set_dstate st d DOnStack) H0) as [H1 HA].
      destruct (rec _ (set_dstate st d DOnStack)) as [[built|e|a] st1]; cbn [fst snd] in *.
      2,3: split; [apply inv_cache_dstate; exact H1|discriminate].
      destruct (run_fn_re cfg b nest du rec RoleDec _ _ st1) as [[o e] st2] eqn:ER.
      destruct (cr_run_fn_re _ _ _ _ _ _ _ ER H1 (place_ok _ _ _ (HA built eq_refl))) as (H2 & HO).
      destruct o as [[lens| |]|a]; [| |destruct (cfg_recover cfg)|]; cbn [fst snd].
      - split; [|intros args [= <-]; reflexivity].
        apply inv_cache_callback. apply inv_cache_dstate.
        apply inv_cache_upd_scope; [|exact H2].
        intros c. apply commit_decorated_ok.
        destruct (HO lens eq_refl) as [Hd|Hd]; [left; exact Hd|right; exact Hd].
      - split; [|discriminate]. apply inv_cache_callback. apply inv_cache_dstate. exact H2.
      - split; [|discriminate]. apply inv_cache_callback. apply inv_cache_dstate. exact H2.
      - split; [|discriminate]. apply inv_cache_callback. apply inv_cache_dstate. exact H2.
      - split; [|discriminate]. apply inv_cache_callback. apply inv_cache_dstate. exact H2.
    Qed.

    Lemma cr_invoke_tail_re s p st1 : inv_cache st1 -> inv_cache (snd (invoke_tail_re cfg b nest du rec s p st1)).
    Proof.
      intros H1. unfold invoke_tail_re.
      pose proof (IH (TOld (TLeaves s (sig_build_seq (ii_sig p)))) st1 H1) as [H2 HA].
      destruct (rec (TOld (TLeaves s (sig_build_seq (ii_sig p)))) st1) as [[built|e|a] st2]; cbn [fst snd] in *;
        [|exact H2|exact H2].
      destruct (run_fn_re cfg b nest du rec RoleInv (ii_fn p) _ st2) as [[o e] st3] eqn:ER.
      destruct (cr_run_fn_re _ _ _ _ _ _ _ ER H2 (place_ok _ _ _ (HA built eq_refl))) as (H3 & _).
      destruct o as [[lens| |]|a]; [| |destruct (cfg_recover cfg)|]; exact H3.
    Qed.

    Lemma cr_invoke_body s p st : PC st (invoke_body cfg b nest du rec s p st).
    Proof.
      intros Hst.
      assert (A : inv_cache (snd (invoke_body cfg b nest du rec s p st))).
      { unfold invoke_body.
        destruct (shallow_missing st s (sig_leaves (ii_sig p))); [|exact Hst].
        destruct (s_verified (get_scope st s)); [apply cr_invoke_tail_re; exact Hst|].
        destruct (is_acyclic (scope_graph st s)) as [[[|] pth]|]; cbn [snd]; [|exact Hst|exact Hst].
        apply cr_invoke_tail_re. apply inv_cache_set_verified. exact Hst. }
      split; [exact A|].
      (* an Invoke returns no values *)
      intros args E. replace args with (@nil arg); [reflexivity|].
      revert E. unfold invoke_body.
      destruct (shallow_missing st s (sig_leaves (ii_sig p))); [|discriminate].
      assert (T : forall st1, fst (invoke_tail_re cfg b nest du rec s p st1) = Done args -> [] = args).
      { intros st1. unfold invoke_tail_re.
        destruct (rec (TOld (TLeaves s (sig_build_seq (ii_sig p)))) st1) as [[built|e|a] st2]; [|discriminate|discriminate].
        destruct (run_fn_re cfg b nest du rec RoleInv (ii_fn p) _ st2) as [[o e] st3].
        destruct o as [[lens| |]|a]; [| |destruct (cfg_recover cfg)|]; cbn [fst]; try discriminate.
        intros [= <-]. reflexivity. }
      destruct (s_verified (get_scope st s)); [apply T|].
      destruct (is_acyclic (scope_graph st s)) as [[[|] pth]|]; [apply T|discriminate|discriminate].
    Qed.

    Lemma cr_evalF_re t st : PC st (evalF_re cfg b nest du rec t st).
    Proof.
      destruct t as [[v [k opt|k soft]|v ls|n|d]|s p]; cbn [evalF_re].
      - apply (cc_build_single _ IHo).
      - apply (cc_build_group _ IHo).
      - apply (cc_build_list _ IHfo IHo).
      - apply cr_call_ctor_re.
      - apply cr_call_dec_re.
      - apply cr_invoke_body.
    Qed.
  End Step.

  Definition FPC (t : rtask) (st : state) (o : out) : Prop := P_Once.frame st (snd o) /\ PC st o.

  Lemma FPC_fuel t st : FPC t st (Abort AFuel, st).
  Proof. split; [apply P_Once.frame_refl|]. intros H. split; [exact H|discriminate]. Qed.

  Lemma eval_lvl_FPC inv :
    (forall s p st, FPC (TInvoke s p) st (inv s p st)) ->
    forall fuel t st, FPC t st (eval_lvl cfg b nest du inv fuel t st).
  Proof.
    intros Hinv. induction fuel as [|k IHk]; intros t st; cbn [eval_lvl]; [apply FPC_fuel|].
    assert (R : forall t' st', FPC t' st' (dispatch inv (eval_lvl cfg b nest du inv k) t' st')).
    { intros [t'|s p] st'; cbn [dispatch]; [apply IHk|apply Hinv]. }
    split.
    - apply grr_evalF_re; try frame_re_hyps. intros t' st'. apply R.
    - apply cr_evalF_re; intros t' st'; apply R.
  Qed.

  Lemma invoke_lvl_FPC : forall depth s p st, FPC (TInvoke s p) st (invoke_lvl cfg b nest du depth s p st).
  Proof.
    induction depth as [|d IHd]; intros s p st; cbn [invoke_lvl]; [apply FPC_fuel|].
    apply eval_lvl_FPC. exact IHd.
  Qed.

  Theorem eval_re_cache depth fuel t st : PC st (eval_re cfg b nest du depth fuel t st).
  Proof. apply eval_lvl_FPC. apply invoke_lvl_FPC. Qed.

  Lemma step_re_cache depth st o : inv_cache st -> inv_cache (snd (step_re cfg b nest du depth st o)).
  Proof.
    intros H. destruct o as [p|s p|s p|s p|k s f].
    4:{ cbn [step_re]. unfold invoke_re. cbn [snd].
        apply (invoke_lvl_FPC (S depth) s p st). exact H. }
    - exact (step_cache cfg b du st (OScope p) H).
    - exact (step_cache cfg b du st (OProvide s p) H).
    - exact (step_cache cfg b du st (ODecorate s p) H).
    - exact H.
  Qed.

  Lemma reach_re_cache depth h : forall st,
    inv_cache st -> inv_cache (snd (run_from_re cfg b nest du depth st h)).
  Proof.
    induction h as [|o h IHh]; intros st H; [exact H|].
    cbn [run_from_re snd]. apply IHh. apply step_re_cache. exact H.
  Qed.
End CacheRe.

(* no hypothesis at all *)
Theorem run_re_cache_sound depth cfg b nest du h :
  let st := state_after_re_d depth cfg b nest du h in
  (forall i, cache_ok (st_log st) (get_scope st i)) /\
  (forall pre f e r args o post a,
      run_re_events depth cfg b nest du h = pre ++ EExec f e r args o :: post ->
      In a (flat_map atoms_of_arg args) -> atom_okb pre a = true).
Proof.
  assert (H : inv_cache (state_after_re_d depth cfg b nest du h)).
  { apply reach_re_cache. split; [|exact I]. intros i. unfold get_scope, init_state. cbn.
    destruct i as [|[|i]]; apply cache_ok_empty. }
  destruct H as [A B]. split; [exact A|].
  intros pre f e r args o post a E Ha.
  unfold state_after_re_d in B. rewrite run_from_re_log in B. cbn [st_log init_state] in B.
  rewrite app_nil_r in B.
  change (flat_map so_events (fst (run_from_re cfg b nest du depth init_state h)))
    with (run_re_events depth cfg b nest du h) in B.
  pose proof (log_all_chron _ _ B _ _ _ E) as H. cbn in H.
  apply in_flat_map in Ha as (x & Hx & Ha).
  unfold args_okb in H. rewrite forallb_forall in H. specialize (H x Hx).
  unfold arg_okb in H. rewrite forallb_forall in H. rewrite <- atom_okb_rev. apply H. exact Ha.
Qed.
Print Assumptions run_re_cache_sound.

(* ====================================================================== *)
(* 8. The checker chk_C02 on re-entrant runs: codes 201 and 203 never      *)
(*    fire; 204 fires only for divergence (never for a crash of dig,       *)
(*    section 4).  Code 202 CAN fire: see ex_unwound_202 below.            *)
(* ====================================================================== *)

Lemma walk_events_allowed (Q : list lentry -> event -> list nat) (Q' : list event -> event -> Prop)
      (A : nat -> Prop) :
  (forall l ev, Q' l ev -> forall c, In c (Q (log_of_events (rev l)) ev) -> A c) ->
  forall evs old, log_all Q' (rev evs ++ old) ->
                  forall c, In c (walk_events Q (log_of_events (rev old)) evs) -> A c.
Proof.
  intros HQ. induction evs as [|ev t IH]; intros old H c0 Hc; [destruct Hc|].
  cbn [walk_events] in Hc. cbn [rev] in H. rewrite <- app_assoc in H. cbn [app] in H.
  apply in_app_or in Hc as [Hc|Hc].
  - exact (HQ old ev (log_all_split _ _ _ _ H) c0 Hc).
  - specialize (IH (ev :: old) H c0). cbn [rev] in IH. rewrite log_of_events_app in IH.
    unfold log_of_events at 2 in IH. cbn [flat_map] in IH. rewrite app_nil_r in IH. exact (IH Hc).
Qed.

Lemma chk_once_event_202 l ev :
  idx_ev l ev /\ args_ev l ev -> forall c, In c (chk_once_event (log_of_events (rev l)) ev) -> c = 202.
Proof.
  destruct ev as [f e rl args o|]; [|intros _ c0 []]. cbn [idx_ev args_ev chk_once_event].
  intros (A & C) c0 Hc.
  rewrite execs_of_events, nexec_rev, <- A, Nat.eqb_refl in Hc. cbn [guardb app] in Hc.
  replace (forallb (atom_from_success (log_of_events (rev l))) (flat_map atoms_of_arg args)) with true in Hc.
  - apply in_app_or in Hc as [Hc|Hc]; [|destruct Hc].
    destruct (negb _) in Hc; cbn [guardb] in Hc; [destruct Hc|]. destruct Hc as [<-|[]]. reflexivity.
  - symmetry. apply forallb_forall. intros a Ha. rewrite atom_from_success_events, atom_okb_rev.
    apply in_flat_map in Ha as (x & Hx & Ha).
    unfold args_okb in C. rewrite forallb_forall in C. specialize (C x Hx).
    unfold arg_okb in C. rewrite forallb_forall in C. apply C. exact Ha.
Qed.

Section WalkRe.
  Variables (cfg : config) (b : beh) (nest : nestor) (du : dur) (depth : nat).
  Variable G : state -> history -> Prop.
  Variable P : registry -> list lentry -> op -> oobs -> list nat.
  Variable Allowed : nat -> Prop.
  Hypothesis Gstep : forall st o h, G st (o :: h) -> G (snd (step_re cfg b nest du depth st o)) h.
  Hypothesis GP : forall st o h r new, G st (o :: h) ->
      st_log (snd (step_re cfg b nest du depth st o)) = new ++ st_log st ->
      forall c, In c (P r (log_of_events (rev (st_log st))) o
                        (mkOObs (overdict_of (fst (step_re cfg b nest du depth st o))) (rev new))) -> Allowed c.

  Lemma walk_run_from_re : forall h st i0 r, G st h ->
      forall i c, In (i, c) (walk P i0 r (log_of_events (rev (st_log st))) h
                              (map obs_of (fst (run_from_re cfg b nest du depth st h)))) -> Allowed c.
  Proof.
    induction h as [|o h IHh]; intros st i0 r HG i c Hin; [destruct Hin|].
    cbn [run_from_re fst map walk] in Hin.
    destruct (step_re_log cfg b nest du depth st o) as (new & L).
    rewrite L, new_events_ext in Hin. unfold obs_of at 1 2 3 in Hin. cbn [so_verdict so_events oo_events] in Hin.
    apply in_app_or in Hin as [Hin|Hin].
    - apply in_map_iff in Hin as (c' & [= _ ->] & Hin). eapply GP; eauto.
    - rewrite <- log_of_events_app, <- rev_app_distr, <- L in Hin.
      eapply IHh; [|exact Hin]. apply Gstep. exact HG.
  Qed.
End WalkRe.

(* no hypothesis: whatever bodies ask of the container, the checker of C02 can
   only ever complain about a re-execution (202) or a non-terminating /
   crashed operation (204) *)
Theorem chk_C02_re_codes depth cfg b nest du h :
  forall i c, In (i, c) (chk_C02 h (map obs_of (run_re_d depth cfg b nest du h))) -> c = 202 \/ c = 204.
Proof.
  intros i c. unfold chk_C02, run_re_d.
  change (@nil lentry) with (log_of_events (rev (st_log init_state))).
  apply (walk_run_from_re cfg b nest du depth (fun st _ => inv_count st /\ inv_cache st) _
           (fun c => c = 202 \/ c = 204)).
  - intros st o h' [H1 H2]. split; [apply step_re_count; exact H1|apply step_re_cache; exact H2].
  - intros st o h' r new [H1 H2] L c' Hc.
    apply in_app_or in Hc as [Hc|Hc].
    + left.
      pose proof (step_re_count cfg b nest du depth st o H1) as [_ A].
      pose proof (step_re_cache cfg b nest du depth st o H2) as [_ B].
      rewrite L in A, B.
      revert c' Hc. apply (walk_events_allowed _ (fun l ev => idx_ev l ev /\ args_ev l ev)) with (old := st_log st).
      * apply chk_once_event_202.
      * cbn [oo_events]. rewrite rev_involutive. apply log_all_and; assumption.
    + right. unfold chk_no_crash in Hc. cbn [oo_verdict] in Hc.
      destruct (overdict_of _); try destruct Hc as [<-|[]]; try destruct Hc; reflexivity.
  - split; [split; [reflexivity|exact I]|].
    split; [|exact I]. intros j. unfold get_scope, init_state. cbn.
    destruct j as [|[|j]]; apply cache_ok_empty.
Qed.
Print Assumptions chk_C02_re_codes.

(* ====================================================================== *)
(* 9. Examples (vm_compute): the model's observations are, literally, what *)
(*    the implementation did on the same case (recorded by the harness;    *)
(*    the right-hand sides are implementation traces, callbacks included)  *)
(* ====================================================================== *)

Section ReExamples.
Open Scope nat_scope.

(* a constructor's body asks the container for a consumer of its own result (eager warm-up); the nested demand must be refused (the constructor is on the stack), not start a second execution *)
Definition ex_nested_demand_while_running_impl : list oobs :=
  [(mkOObs OVOk []);
   (mkOObs OVOk []);
   (mkOObs OVOk [(EExec 0 0 RoleCtor [] (OOk [])); (EExec 2 0 RoleInv [(ASingle (AProd 0 0 0 0))] (OOk []))]);
   (mkOObs OVOk [(EExec 1 0 RoleCtor [(ASingle (AProd 0 0 0 0))] (OOk [])); (EExec 3 0 RoleInv [(ASingle (AProd 1 0 0 0))] (OOk []))]);
   (mkOObs OVOk [(EExec 4 0 RoleInv [(ASingle (AProd 0 0 0 0))] (OOk []))])].
Definition ex_nested_demand_while_running : case_re :=
  mkCaseRe (mkCase (mkConfig false true false)
    []
    []
    [OProvide 0 (mkProvideIn 0 (mkSig [] [(RSingle (mkKey 0 0 0) [])] false) false false);
     OProvide 0 (mkProvideIn 1 (mkSig [(PSingle (mkKey 0 0 0) false)] [(RSingle (mkKey 1 0 0) [])] false) false false);
     OInvoke 0 (mkInvokeIn 2 (mkSig [(PSingle (mkKey 0 0 0) false)] [] false));
     OInvoke 0 (mkInvokeIn 3 (mkSig [(PSingle (mkKey 1 0 0) false)] [] false));
     OInvoke 0 (mkInvokeIn 4 (mkSig [(PSingle (mkKey 0 0 0) false)] [] false))]
    ex_nested_demand_while_running_impl)
    [(0, [(0, (0, mkInvokeIn 5 (mkSig [(PSingle (mkKey 1 0 0) false)] [] false)))])].
Example ex_nested_demand_while_running_agrees : model_obs_re ex_nested_demand_while_running = ex_nested_demand_while_running_impl.
Proof. vm_compute. reflexivity. Qed.

(* decorator-body *)
Definition ex_decorator_body_impl : list oobs :=
  [(mkOObs OVOk []);
   (mkOObs OVOk []);
   (mkOObs OVOk []);
   (mkOObs OVOk [(EExec 0 0 RoleCtor [] (OOk [])); (EExec 1 0 RoleDec [(ASingle (AProd 0 0 0 0))] (OOk [])); (EExec 3 0 RoleInv [(ASingle (AProd 0 0 0 0))] (OOk [])); (EExec 2 0 RoleInv [(ASingle (AProd 1 0 0 0))] (OOk []))]);
   (mkOObs OVOk [(EExec 20 0 RoleInv [(ASingle (AProd 1 0 0 0))] (OOk []))])].
Definition ex_decorator_body : case_re :=
  mkCaseRe (mkCase (mkConfig false true false)
    []
    []
    [OProvide 0 (mkProvideIn 0 (mkSig [] [(RSingle (mkKey 0 0 0) [])] false) false false);
     OScope 0;
     ODecorate 0 (mkDecorateIn 1 (mkSig [(PSingle (mkKey 0 0 0) false)] [(RSingle (mkKey 0 0 0) [])] false) false);
     OInvoke 1 (mkInvokeIn 2 (mkSig [(PSingle (mkKey 0 0 0) false)] [] false));
     OInvoke 0 (mkInvokeIn 20 (mkSig [(PSingle (mkKey 0 0 0) false)] [] false))]
    ex_decorator_body_impl)
    [(1, [(0, (1, mkInvokeIn 3 (mkSig [(PSingle (mkKey 0 0 0) false)] [] false)))])].
Example ex_decorator_body_agrees : model_obs_re ex_decorator_body = ex_decorator_body_impl.
Proof. vm_compute. reflexivity. Qed.

(* nested-fills-cache *)
Definition ex_nested_fills_cache_impl : list oobs :=
  [(mkOObs OVOk []);
   (mkOObs OVOk []);
   (mkOObs OVOk [(EExec 0 0 RoleCtor [] (OOk [])); (EExec 1 0 RoleCtor [] (OOk [])); (ECallback 1 ENone 5%N); (EExec 4 0 RoleInv [(ASingle (AProd 1 0 0 0))] (OOk [])); (ECallback 0 ENone 15%N); (EExec 2 0 RoleInv [(ASingle (AProd 0 0 0 0)); (ASingle (AProd 1 0 0 0))] (OOk []))])].
Definition ex_nested_fills_cache : case_re :=
  mkCaseRe (mkCase (mkConfig false true false)
    []
    [(0, [3%N]); (1, [5%N]); (4, [7%N])]
    [OProvide 0 (mkProvideIn 0 (mkSig [] [(RSingle (mkKey 0 0 0) [])] false) false true);
     OProvide 0 (mkProvideIn 1 (mkSig [] [(RSingle (mkKey 1 0 0) [])] false) false true);
     OInvoke 0 (mkInvokeIn 2 (mkSig [(PSingle (mkKey 0 0 0) false); (PSingle (mkKey 1 0 0) false)] [] false))]
    ex_nested_fills_cache_impl)
    [(0, [(0, (0, mkInvokeIn 4 (mkSig [(PSingle (mkKey 1 0 0) false)] [] false)))])].
Example ex_nested_fills_cache_agrees : model_obs_re ex_nested_fills_cache = ex_nested_fills_cache_impl.
Proof. vm_compute. reflexivity. Qed.

(* nested-fn-panics-norecover *)
Definition ex_nested_fn_panics_norecover_impl : list oobs :=
  [(mkOObs OVOk []);
   (mkOObs (OVPanicked 4 0) [(EExec 0 0 RoleCtor [] (OOk [])); (EExec 4 0 RoleInv [] OPanic); (ECallback 0 ENone 11%N)]);
   (mkOObs OVOk [(EExec 0 1 RoleCtor [] (OOk [])); (ECallback 0 ENone 2%N); (EExec 20 0 RoleInv [(ASingle (AProd 0 1 0 0))] (OOk []))])].
Definition ex_nested_fn_panics_norecover : case_re :=
  mkCaseRe (mkCase (mkConfig false false false)
    [(4, [OPanic])]
    [(0, [2%N; 2%N]); (4, [9%N])]
    [OProvide 0 (mkProvideIn 0 (mkSig [] [(RSingle (mkKey 0 0 0) [])] false) false true);
     OInvoke 0 (mkInvokeIn 2 (mkSig [(PSingle (mkKey 0 0 0) false)] [] false));
     OInvoke 0 (mkInvokeIn 20 (mkSig [(PSingle (mkKey 0 0 0) false)] [] false))]
    ex_nested_fn_panics_norecover_impl)
    [(0, [(0, (0, mkInvokeIn 4 (mkSig [] [] false)))])].
Example ex_nested_fn_panics_norecover_agrees : model_obs_re ex_nested_fn_panics_norecover = ex_nested_fn_panics_norecover_impl.
Proof. vm_compute. reflexivity. Qed.

(* nested-fn-panics-recover *)
Definition ex_nested_fn_panics_recover_impl : list oobs :=
  [(mkOObs OVOk []);
   (mkOObs OVOk [(EExec 0 0 RoleCtor [] (OOk [])); (EExec 4 0 RoleInv [] OPanic); (ECallback 0 ENone 11%N); (EExec 2 0 RoleInv [(ASingle (AProd 0 0 0 0))] (OOk []))]);
   (mkOObs OVOk [(EExec 20 0 RoleInv [(ASingle (AProd 0 0 0 0))] (OOk []))])].
Definition ex_nested_fn_panics_recover : case_re :=
  mkCaseRe (mkCase (mkConfig false true false)
    [(4, [OPanic])]
    [(0, [2%N; 2%N]); (4, [9%N])]
    [OProvide 0 (mkProvideIn 0 (mkSig [] [(RSingle (mkKey 0 0 0) [])] false) false true);
     OInvoke 0 (mkInvokeIn 2 (mkSig [(PSingle (mkKey 0 0 0) false)] [] false));
     OInvoke 0 (mkInvokeIn 20 (mkSig [(PSingle (mkKey 0 0 0) false)] [] false))]
    ex_nested_fn_panics_recover_impl)
    [(0, [(0, (0, mkInvokeIn 4 (mkSig [] [] false)))])].
Example ex_nested_fn_panics_recover_agrees : model_obs_re ex_nested_fn_panics_recover = ex_nested_fn_panics_recover_impl.
Proof. vm_compute. reflexivity. Qed.

(* nested-panic-norecover *)
Definition ex_nested_panic_norecover_impl : list oobs :=
  [(mkOObs OVOk []);
   (mkOObs OVOk []);
   (mkOObs (OVPanicked 1 0) [(EExec 0 0 RoleCtor [] (OOk [])); (EExec 1 0 RoleCtor [] OPanic); (ECallback 0 ENone 0%N)]);
   (mkOObs OVOk [(EExec 0 1 RoleCtor [] (OOk [])); (EExec 1 1 RoleCtor [] (OOk [])); (EExec 4 0 RoleInv [(ASingle (AProd 1 1 0 0))] (OOk [])); (ECallback 0 ENone 0%N); (EExec 20 0 RoleInv [(ASingle (AProd 0 1 0 0))] (OOk []))])].
Definition ex_nested_panic_norecover : case_re :=
  mkCaseRe (mkCase (mkConfig false false false)
    [(1, [OPanic; OOk []])]
    []
    [OProvide 0 (mkProvideIn 0 (mkSig [] [(RSingle (mkKey 0 0 0) [])] false) false true);
     OProvide 0 (mkProvideIn 1 (mkSig [] [(RSingle (mkKey 1 0 0) [])] false) false false);
     OInvoke 0 (mkInvokeIn 2 (mkSig [(PSingle (mkKey 0 0 0) false)] [] false));
     OInvoke 0 (mkInvokeIn 20 (mkSig [(PSingle (mkKey 0 0 0) false)] [] false))]
    ex_nested_panic_norecover_impl)
    [(0, [(0, (0, mkInvokeIn 4 (mkSig [(PSingle (mkKey 1 0 0) false)] [] false))); (1, (0, mkInvokeIn 4 (mkSig [(PSingle (mkKey 1 0 0) false)] [] false)))])].
Example ex_nested_panic_norecover_agrees : model_obs_re ex_nested_panic_norecover = ex_nested_panic_norecover_impl.
Proof. vm_compute. reflexivity. Qed.

(* nested-panic-recover *)
Definition ex_nested_panic_recover_impl : list oobs :=
  [(mkOObs OVOk []);
   (mkOObs OVOk []);
   (mkOObs OVOk [(EExec 0 0 RoleCtor [] (OOk [])); (EExec 1 0 RoleCtor [] OPanic); (ECallback 0 ENone 0%N); (EExec 2 0 RoleInv [(ASingle (AProd 0 0 0 0))] (OOk []))]);
   (mkOObs OVOk [(EExec 20 0 RoleInv [(ASingle (AProd 0 0 0 0))] (OOk []))])].
Definition ex_nested_panic_recover : case_re :=
  mkCaseRe (mkCase (mkConfig false true false)
    [(1, [OPanic; OOk []])]
    []
    [OProvide 0 (mkProvideIn 0 (mkSig [] [(RSingle (mkKey 0 0 0) [])] false) false true);
     OProvide 0 (mkProvideIn 1 (mkSig [] [(RSingle (mkKey 1 0 0) [])] false) false false);
     OInvoke 0 (mkInvokeIn 2 (mkSig [(PSingle (mkKey 0 0 0) false)] [] false));
     OInvoke 0 (mkInvokeIn 20 (mkSig [(PSingle (mkKey 0 0 0) false)] [] false))]
    ex_nested_panic_recover_impl)
    [(0, [(0, (0, mkInvokeIn 4 (mkSig [(PSingle (mkKey 1 0 0) false)] [] false))); (1, (0, mkInvokeIn 4 (mkSig [(PSingle (mkKey 1 0 0) false)] [] false)))])].
Example ex_nested_panic_recover_agrees : model_obs_re ex_nested_panic_recover = ex_nested_panic_recover_impl.
Proof. vm_compute. reflexivity. Qed.
(* Why chk_C02 = [] cannot be a theorem of re-entrant runs as it stands.  Without
   RecoverFromPanics the panic of the nested function unwinds through the body of
   constructor 0, whose exec event (logged when the body starts) carries the planned
   outcome ok: the execution never returned, nothing was committed, the constructor
   legitimately runs again during the next Invoke — and the checker, which reads the
   event as a success, reports 202.  The implementation does exactly the same
   (ex_nested_fn_panics_norecover_agrees).  With RecoverFromPanics nothing unwinds
   and the checker is silent. *)
Example ex_unwound_202 :
  chk_C02 (cs_hist (cr_case ex_nested_fn_panics_norecover)) (model_obs_re ex_nested_fn_panics_norecover) = [(2, 202)].
Proof. vm_compute. reflexivity. Qed.
Example ex_recovered_silent :
  chk_C02 (cs_hist (cr_case ex_nested_fn_panics_recover)) (model_obs_re ex_nested_fn_panics_recover) = [] /\
  chk_C02 (cs_hist (cr_case ex_nested_panic_recover)) (model_obs_re ex_nested_panic_recover) = [] /\
  chk_C02 (cs_hist (cr_case ex_nested_demand_while_running)) (model_obs_re ex_nested_demand_while_running) = [] /\
  chk_C02 (cs_hist (cr_case ex_nested_fills_cache)) (model_obs_re ex_nested_fills_cache) = [] /\
  chk_C02 (cs_hist (cr_case ex_decorator_body)) (model_obs_re ex_decorator_body) = [].
Proof. vm_compute. repeat split. Qed.
End ReExamples.
