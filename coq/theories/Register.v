(* Register.v — Scope(), Provide, Decorate: graph nodes, duplicate check,
   snapshot / rollback, cycle check.  Definitions only.  These functions have
   no access to the behaviour oracle: registration cannot run user code. *)
From Dig Require Import Base Sig State Graph.

(* ---------- a scope's dependency graph (graph.go:64-78, param.go:338-356) ---------- *)

(* n.orders[s]; Go's map lookup yields 0 when absent *)
Definition order_in (st : state) (a : sid) (g : gref) : nat :=
  opt_default 0 (index_of gref_eqb g (s_gnodes (get_scope st a))).

Fixpoint leaf_edges (st : state) (a : sid) (n : nid) (i : nat) (ls : list pleaf) : list nat :=
  match ls with
  | [] => []
  | LSingle k _ :: t =>
      map (fun m => order_in st a (GCtor m)) (providers_on_path st a k) ++ leaf_edges st a n (S i) t
  | LGroup _ _ :: t =>
      order_in st a (GGroup n i) :: leaf_edges st a n (S i) t
  end.

Definition edges_of (st : state) (a : sid) (g : gref) : list nat :=
  match g with
  | GCtor n => leaf_edges st a n 0 (sig_leaves (c_sig (get_node st n)))
  | GGroup n i =>
      match nth_error (sig_leaves (c_sig (get_node st n))) i with
      | Some (LGroup k _) => map (fun m => order_in st a (GCtor m)) (providers_on_path st a k)
      | _ => []
      end
  end.

Definition scope_graph (st : state) (a : sid) : graph :=
  map (edges_of st a) (s_gnodes (get_scope st a)).

(* ---------- Scope() (scope.go:121) ---------- *)

Definition new_scope (st : state) (p : sid) : state :=
  let c := length (st_scopes st) in
  let child := sc_set_gnodes (s_gnodes (get_scope st p)) (empty_scope (Some p)) in
  let st1 := set_scopes st (st_scopes st ++ [child]) in
  upd_scope st1 p (fun ps => sc_set_children (s_children ps ++ [c]) ps).

(* ---------- Provide ---------- *)

Definition err_invalid_leaf : err := mkErr [] RInvalidLeaf.
Definition err_dup : err := mkErr [LProvide; LInvalid] RInvalidLeaf.
Definition err_noresults : err := mkErr [LProvide] RInvalidLeaf.
Definition err_provide_cycle : err := mkErr [LProvide; LInvalid] RCycle.

(* connectionVisitor (provide.go:569-665): walk the result leaves in
   declaration order; single keys conflict with anything already seen in this
   constructor or already provided by the target scope; group keys never
   conflict *)
Fixpoint dup_in_keys (provs : list (key * list nid)) (seen : list key) (ks : list key) : bool * list key :=
  match ks with
  | [] => (false, seen)
  | k :: t =>
      if memb key_eqb k seen || negb (is_nil (alookup_list key_eqb k provs)) then (true, seen)
      else dup_in_keys provs (k :: seen) t
  end.

Fixpoint dup_check (provs : list (key * list nid)) (seen : list key) (rs : list rleaf) : bool :=
  match rs with
  | [] => false
  | QSingle ks :: t =>
      let r := dup_in_keys provs seen ks in
      if fst r then true else dup_check provs (snd r) t
  | QGroup ks _ :: t => dup_check provs (ks ++ seen) t
  end.

Fixpoint group_grefs (n : nid) (i : nat) (ls : list pleaf) : list gref :=
  match ls with
  | [] => []
  | LGroup _ _ :: t => GGroup n i :: group_grefs n (S i) t
  | LSingle _ _ :: t => group_grefs n (S i) t
  end.

Definition append_gnodes (gs : list gref) (st : state) (a : sid) : state :=
  upd_scope st a (fun c => sc_set_gnodes (s_gnodes c ++ gs) c).

(* graphHolder.Snapshot / Rollback *)
Definition snapshot (st : state) (A : list sid) : list (sid * nat) :=
  map (fun a => (a, length (s_gnodes (get_scope st a)))) A.

Definition rollback_gnodes (snap : list (sid * nat)) (st : state) : state :=
  fold_left (fun st p => upd_scope st (fst p) (fun c => sc_set_gnodes (firstn (snd p) (s_gnodes c)) c)) snap st.

Definition add_provider (n : nid) (ps : list (key * list nid)) (k : key) : list (key * list nid) :=
  aset key_eqb k (alookup_list key_eqb k ps ++ [n]) ps.

(* the loop `for _, s := range allScopes` of provide(): returns the first scope
   whose graph is cyclic, if any.  res: Done None = all verified,
   Done (Some a) = cycle in a. *)
Fixpoint verify_loop (defer_ : bool) (A : list sid) (st : state) : res (option sid) * state :=
  match A with
  | [] => (Done None, st)
  | a :: t =>
      let st1 := upd_scope st a (sc_set_verified false) in
      if defer_ then verify_loop defer_ t st1
      else match is_acyclic (scope_graph st1 a) with
           | None => (Abort AFuel, st1)
           | Some (false, _) => (Done (Some a), st1)
           | Some (true, _) => verify_loop defer_ t (upd_scope st1 a (sc_set_verified true))
           end
  end.

Record provide_in := mkProvideIn {
  pi_fn : fnid;
  pi_sig : fsig;
  pi_export : bool;
  pi_cb : bool
}.

Definition provide (cfg : config) (st : state) (s0 : sid) (p : provide_in) : verdict * state :=
  let s := if pi_export p then 0 else s0 in
  let A := subtree st s in
  let snap := snapshot st A in
  let n := length (st_nodes st) in
  let nodes0 := st_nodes st in
  let node := mkCNode (pi_fn p) (pi_sig p) s s0 false false (pi_cb p) in
  let st1 := set_nodes st (st_nodes st ++ [node]) in
  let gs := group_grefs n 0 (sig_leaves (pi_sig p)) ++ [GCtor n] in
  let st2 := fold_left (append_gnodes gs) A st1 in
  let undo := fun (x : state) => set_nodes (rollback_gnodes snap x) nodes0 in
  let provs := s_providers (get_scope st2 s) in
  if dup_check provs [] (sig_rleaves (pi_sig p)) then (VErr err_dup, undo st2)
  else
    let keys := dedup_first key_eqb (sig_keys (pi_sig p)) in
    if is_nil keys then (VErr err_noresults, undo st2)
    else
      let st3 := upd_scope st2 s (fun c => sc_set_providers (fold_left (add_provider n) keys (s_providers c)) c) in
      match verify_loop (cfg_defer cfg) A st3 with
      | (Abort a, st4) => (VAbort a, st4)
      | (Fail e, st4) => (VErr e, st4)
      | (Done (Some _), st4) =>
          (VErr err_provide_cycle, undo (upd_scope st4 s (sc_set_providers provs)))
      | (Done None, st4) =>
          (VOk, upd_scope st4 s (fun c => sc_set_nodes (s_nodes c ++ [n]) c))
      end.

(* ---------- Decorate (decorate.go:237-283) ---------- *)

Record decorate_in := mkDecorateIn {
  di_fn : fnid;
  di_sig : fsig;
  di_cb : bool
}.

(* findResultKeys: the keys a decorator decorates (one per result leaf; no As) *)
Definition dec_keys (sg : fsig) : list key :=
  flat_map (fun r => match r with
                     | QSingle (k :: _) => [k]
                     | QGroup (k :: _) _ => [k]
                     | _ => []
                     end) (sig_rleaves sg).

(* a key already decorated in the scope, or returned twice by the decorator itself *)
Definition err_dec_dup : err := mkErr [] RInvalidLeaf.

Definition decorate (st : state) (s : sid) (p : decorate_in) : verdict * state :=
  let keys := dec_keys (di_sig p) in
  let decs := s_decorators (get_scope st s) in
  if negb (nodupb key_eqb keys) || existsb (fun k => is_some (alookup key_eqb k decs)) keys then (VErr err_dec_dup, st)
  else
    let d := length (st_decs st) in
    let st1 := set_decs st (st_decs st ++ [mkDNode (di_fn p) (di_sig p) s DReady (di_cb p)]) in
    (VOk, upd_scope st1 s (fun c => sc_set_decorators (fold_left (fun m k => aset key_eqb k d m) keys (s_decorators c)) c)).
