(* P_C05.v — the container-level content of property C05 for the model:
   a Provide that closes a cycle as seen from any single scope is rejected
   immediately (non-deferred mode); a graph that is acyclic under even the
   most permissive reading is never reported as cyclic.

   Part 0  graph theory: transitive closure [tc], [cyclic_tc], homomorphisms
           [cyclic_hom], contraction of vertices [contract_cycle]
   Part 1  the graph-node invariant [GN] (exact contents of every graph
           holder), proved along [step]; [GN_state_after]
   Part 2  [contraction] : cyclic (scope_graph st a) <-> cyclic (view_graph r a (r_ctors r))
   Part 4  [view_cyclic_perm] : every view graph maps into the permissive
           graph; [invoke_static_cycle_perm]
   Part 3  [provide_verdict_exact], [provide_cycle_iff] : the verdict of a
           non-deferred Provide is exactly the checker's expression
   Part 5  the run-time guard of constructorNode.Call: [eval_PC],
           [invoke_cycle_perm] (needs pairwise distinct decorator functions)
   Part 6  [chk_C05_nil] / [chk_C05_ok] : chk_C05 accepts every run of the
           model; [chk_C05_weak] without the hypothesis on decorator functions
   Examples (module C05Example), including the counterexample showing that
   the hypothesis on decorator functions cannot be dropped. *)
From Coq Require Import List Arith Bool Lia PeanoNat Permutation.
From Dig Require Import Base Sig State Graph GraphProofs Register Resolve Run EvalInd Spec Check.
From Dig Require Import P_Events P_Frame.
From Dig Require P_Once.
From Dig Require Import P_Reg P_Term.
Import ListNotations.


(* ================================================================== *)
(* Part 0 : graph theory                                                *)
(* ================================================================== *)

(* ---------- transitive closure ---------- *)

Inductive tc {A : Type} (R : A -> A -> Prop) : A -> A -> Prop :=
| tc1 : forall x y, R x y -> tc R x y
| tcS : forall x y z, R x y -> tc R y z -> tc R x z.
Arguments tc1 {A R} x y _.
Arguments tcS {A R} x y z _ _.

Lemma tc_trans : forall (A : Type) (R : A -> A -> Prop) x y z, tc R x y -> tc R y z -> tc R x z.
Proof.
  intros A R x y z H; induction H as [x y H|x y w H Ht IH]; intros Hz.
  - eapply tcS; eauto.
  - eapply tcS; [exact H|]. apply IH. exact Hz.
Qed.

Lemma tc_snoc : forall (A : Type) (R : A -> A -> Prop) x y z, tc R x y -> R y z -> tc R x z.
Proof. intros A R x y z H Hz. eapply tc_trans; [exact H|]. apply tc1. exact Hz. Qed.

Lemma tc_map_tc : forall (A B : Type) (R : A -> A -> Prop) (R' : B -> B -> Prop) (f : A -> B),
  (forall u v, R u v -> tc R' (f u) (f v)) -> forall u v, tc R u v -> tc R' (f u) (f v).
Proof.
  intros A B R R' f H u v Ht; induction Ht as [x y Hxy|x y z Hxy Ht IH].
  - apply H. exact Hxy.
  - eapply tc_trans; [apply H; exact Hxy | exact IH].
Qed.

Lemma tc_map : forall (A B : Type) (R : A -> A -> Prop) (R' : B -> B -> Prop) (f : A -> B),
  (forall u v, R u v -> R' (f u) (f v)) -> forall u v, tc R u v -> tc R' (f u) (f v).
Proof. intros A B R R' f H. apply tc_map_tc. intros u v Huv. apply tc1. apply H. exact Huv. Qed.
Arguments tc_map {A B} R R' f _ u v _.
Arguments tc_map_tc {A B} R R' f _ u v _.

(* the last step of a non-empty walk *)
Lemma tc_last : forall (A : Type) (R : A -> A -> Prop) x y, tc R x y ->
  exists c, R c y /\ (c = x \/ tc R x c).
Proof.
  intros A R x y H; induction H as [x y H|x y z H Ht IH].
  - exists x. split; [exact H | left; reflexivity].
  - destruct IH as (c & Hc & [->|Hyc]).
    + exists y. split; [exact Hc | right; apply tc1; exact H].
    + exists c. split; [exact Hc | right; eapply tcS; eauto].
Qed.

(* ---------- closed paths and the transitive closure of the edge relation ---------- *)

Lemma last_default : forall (A : Type) (l : list A) (d d' : A), l <> [] -> last l d = last l d'.
Proof.
  intros A l d d'; induction l as [|x t IH]; intros H; [contradiction|].
  destruct t as [|y t']; [reflexivity|]. cbn [last] in *. apply IH. discriminate.
Qed.

Lemma hd_error_rev_last : forall (A : Type) (l : list A) (d : A), l <> [] ->
  hd_error (rev l) = Some (last l d).
Proof.
  intros A l d. induction l as [|a l' _] using rev_ind; intros H; [contradiction|].
  rewrite rev_unit, last_last. reflexivity.
Qed.

Lemma path_tc : forall g t x, t <> [] -> is_path g (x :: t) -> tc (edge g) x (last t x).
Proof.
  intros g t; induction t as [|y t IH]; intros x Hne Hp; [contradiction|].
  destruct t as [|y' t'].
  - cbn in Hp. cbn [last]. apply tc1. apply Hp.
  - change (is_path g (x :: y :: y' :: t')) with (edge g x y /\ is_path g (y :: y' :: t')) in Hp.
    destruct Hp as [He Hp].
    eapply tcS; [exact He|].
    change (last (y :: y' :: t') x) with (last (y' :: t') x).
    rewrite (last_default _ (y' :: t') x y) by discriminate.
    apply IH; [discriminate | exact Hp].
Qed.

Lemma tc_path : forall g x z, tc (edge g) x z ->
  exists t, t <> [] /\ is_path g (x :: t) /\ last t x = z.
Proof.
  intros g x z H; induction H as [x y H|x y z H Ht IH].
  - exists [y]. split; [discriminate|]. split; [|reflexivity]. cbn. split; [exact H | exact I].
  - destruct IH as (t & Hne & Hp & Hl). exists (y :: t). split; [discriminate|]. split.
    + destruct t as [|y' t']; [contradiction|].
      change (edge g x y /\ is_path g (y :: y' :: t')). split; assumption.
    + destruct t as [|y' t']; [contradiction|].
      change (last (y' :: t') x = z). rewrite (last_default _ (y' :: t') x y) by discriminate. exact Hl.
Qed.

Theorem cyclic_tc : forall g, cyclic g <-> exists v, tc (edge g) v v.
Proof.
  intros g. split.
  - intros (p & Hl & Hp & Hh). destruct p as [|x t]; [cbn in Hl; lia|].
    assert (Hne : t <> []) by (destruct t; [cbn in Hl; lia | discriminate]).
    exists x. pose proof (path_tc g t x Hne Hp) as Ht.
    rewrite (hd_error_rev_last _ (x :: t) x) in Hh by discriminate.
    cbn [hd_error] in Hh. injection Hh as Hh.
    destruct t as [|y t']; [contradiction|]. change (last (x :: y :: t') x) with (last (y :: t') x) in Hh.
    rewrite <- Hh in Ht. exact Ht.
  - intros (v & Ht). destruct (tc_path g v v Ht) as (t & Hne & Hp & Hl).
    exists (v :: t). split; [destruct t; [contradiction | cbn; lia]|]. split; [exact Hp|].
    rewrite (hd_error_rev_last _ (v :: t) v) by discriminate.
    destruct t as [|y t']; [contradiction|]. change (last (v :: y :: t') v) with (last (y :: t') v).
    rewrite Hl. reflexivity.
Qed.
Print Assumptions cyclic_tc.

(* graph homomorphisms carry cycles *)
Corollary cyclic_hom : forall g g' (f : nat -> nat),
  (forall u v, edge g u v -> tc (edge g') (f u) (f v)) -> cyclic g -> cyclic g'.
Proof.
  intros g g' f H Hc. apply cyclic_tc in Hc. destruct Hc as [v Hv].
  apply cyclic_tc. exists (f v). eapply tc_map_tc; eauto.
Qed.

(* ---------- contraction of vertices with a single kind of predecessor ---------- *)

Section Contraction.
  Variable A : Type.
  Variables (R S : A -> A -> Prop) (K : A -> Prop).
  Hypothesis Kdec : forall x, K x \/ ~ K x.
  Hypothesis H1 : forall x y, R x y -> K x -> K y -> S x y.
  Hypothesis H2 : forall x w y, R x w -> R w y -> ~ K w -> K x -> S x y.
  Hypothesis H3 : forall w y, R w y -> ~ K w -> K y.

  Lemma contract_walk : forall x y, tc R x y -> K y ->
    (K x -> tc S x y) /\ (~ K x -> forall c, K c -> R c x -> tc S c y).
  Proof.
    intros x y H; induction H as [x y H|x x1 y H Ht IH]; intros Ky.
    - split.
      + intros Kx. apply tc1. apply H1; assumption.
      + intros NKx c Kc Hc. apply tc1. eapply H2; eauto.
    - destruct (IH Ky) as [IHa IHb]. split.
      + intros Kx. destruct (Kdec x1) as [Kx1|NKx1].
        * eapply tcS; [apply H1; eassumption | apply IHa; exact Kx1].
        * apply (IHb NKx1 x Kx H).
      + intros NKx c Kc Hc. pose proof (H3 _ _ H NKx) as Kx1.
        eapply tcS; [eapply H2; eauto | apply IHa; exact Kx1].
  Qed.

  Theorem contract_cycle : (exists x, tc R x x) -> exists x, K x /\ tc S x x.
  Proof.
    intros [x Hx]. destruct (Kdec x) as [Kx|NKx].
    - exists x. split; [exact Kx|]. apply (proj1 (contract_walk x x Hx Kx)); exact Kx.
    - (* rotate the cycle to start at the successor of x *)
      assert (Hm : exists m, R x m /\ tc R m x).
      { inversion Hx as [? ? Hr|? m ? Hr Ht]; subst.
        - exfalso. apply NKx. eapply H3; eauto.
        - exists m. split; assumption. }
      destruct Hm as (m & Hxm & Hmx). pose proof (H3 _ _ Hxm NKx) as Km.
      exists m. split; [exact Km|].
      apply (proj1 (contract_walk m m (tc_snoc _ _ _ _ _ Hmx Hxm) Km)). exact Km.
  Qed.
End Contraction.

(* ================================================================== *)
(* Part 1 : the graph-node invariant                                    *)
(* ================================================================== *)

(* the graph nodes Provide appends for constructor n *)
Definition gn_of (st : state) (n : nat) : list gref :=
  group_grefs n 0 (sig_leaves (c_sig (get_node st n))) ++ [GCtor n].

(* n's home is a or an ancestor of a *)
Definition vis_here (st : state) (a : sid) (n : nat) : bool :=
  memb Nat.eqb (c_home (get_node st n)) (path st a).

Definition visn (st : state) (a : sid) : list nat :=
  filter (vis_here st a) (seq 0 (length (st_nodes st))).

(* the graph holder of scope a lists exactly the constructors whose home
   encloses a, in order of acceptance, each preceded by its group-parameter
   nodes *)
Definition GN (st : state) : Prop :=
  forall a, s_gnodes (get_scope st a) = flat_map (gn_of st) (visn st a).

Lemma GN_ext : forall st st',
  length (st_scopes st) = length (st_scopes st') ->
  (forall a, s_parent (get_scope st a) = s_parent (get_scope st' a)) ->
  (forall a, s_gnodes (get_scope st a) = s_gnodes (get_scope st' a)) ->
  length (st_nodes st) = length (st_nodes st') ->
  (forall n, c_sig (get_node st n) = c_sig (get_node st' n)) ->
  (forall n, c_home (get_node st n) = c_home (get_node st' n)) ->
  GN st -> GN st'.
Proof.
  intros st st' Hl Hp Hg Hn Hsig Hhome H a.
  rewrite <- Hg, H.
  assert (Hpath : forall x, path st x = path st' x).
  { intros x. unfold path. rewrite <- Hl. apply path_fuel_parents. exact Hp. }
  unfold visn. rewrite <- Hn.
  rewrite (filter_ext (vis_here st a) (vis_here st' a))
    by (intros n; unfold vis_here; rewrite Hhome, Hpath; reflexivity).
  apply flat_map_ext. intros n. unfold gn_of. rewrite Hsig. reflexivity.
Qed.

Lemma GN_skel : forall st st', skel st = skel st' -> GN st -> GN st'.
Proof.
  intros st st' E. apply skel_eq_fields in E. destruct E. apply GN_ext; assumption.
Qed.

Lemma GN_init : GN init_state.
Proof.
  intros a. unfold visn. cbn [init_state st_nodes length seq filter flat_map].
  unfold get_scope. cbn [init_state st_scopes]. destruct a as [|[|a]]; reflexivity.
Qed.

Lemma GN_new_scope : forall st p, SInv st -> p < length (st_scopes st) -> GN st -> GN (new_scope st p).
Proof.
  intros st p [HT HB] Hp H a.
  rewrite (np_gnodes st p Hp).
  assert (Hnodes : st_nodes (new_scope st p) = st_nodes st) by reflexivity.
  assert (Hgn : forall n, gn_of (new_scope st p) n = gn_of st n) by reflexivity.
  unfold visn. rewrite Hnodes. rewrite (flat_map_ext _ _ Hgn).
  destruct (Nat.eqb_spec a (length (st_scopes st))) as [->|Hne].
  - rewrite H. unfold visn. f_equal. apply filter_ext_in. intros n Hn. apply in_seq in Hn.
    unfold vis_here. rewrite (np_path_new st p HT Hp).
    change (get_node (new_scope st p) n) with (get_node st n). cbn [memb].
    destruct (Nat.eqb_spec (c_home (get_node st n)) (length (st_scopes st))) as [E|_]; [|reflexivity].
    exfalso. destruct (bi_node_home HB n) as [Hh _]; [lia|]. lia.
  - destruct (Nat.lt_ge_cases a (length (st_scopes st))) as [Hlt|Hge].
    + rewrite H. unfold visn. f_equal. apply filter_ext. intros n. unfold vis_here.
      rewrite (np_path_old st p HT Hp a Hlt). reflexivity.
    + rewrite H. unfold visn. f_equal. apply filter_ext_in. intros n Hn. apply in_seq in Hn.
      unfold vis_here.
      rewrite (path_out_of_range st a (ti_nonempty HT) Hge).
      rewrite (path_out_of_range (new_scope st p) a)
        by (rewrite new_scope_length; lia).
      reflexivity.
Qed.

Lemma subtree_path_iff : forall st s x, SInv st -> s < length (st_scopes st) ->
  (In x (subtree st s) <-> In s (path st x)).
Proof.
  intros st s x [HT HB] Hs.
  destruct (Nat.lt_ge_cases x (length (st_scopes st))) as [Hx|Hx].
  - rewrite (path_anc st x s HT Hx). split.
    + intros H. apply (subtree_fuel_anc HT _ s x Hs H).
    + intros H. apply (anc_subtree st HT x s H Hx).
  - split.
    + intros H. apply (subtree_fuel_bounds HT _ s x Hs) in H. lia.
    + intros H. rewrite (path_out_of_range st x (ti_nonempty HT) Hx) in H.
      destruct H as [H|[]]. lia.
Qed.

Lemma provide_ok_gnodes : forall cfg st s0 p st',
  SInv st -> s0 < length (st_scopes st) -> provide cfg st s0 p = (VOk, st') ->
  let s := if pi_export p then 0 else s0 in
  let n := length (st_nodes st) in
  forall x, s_gnodes (get_scope st' x) =
            if in_dec Nat.eq_dec x (subtree st s)
            then s_gnodes (get_scope st x) ++ (group_grefs n 0 (sig_leaves (pi_sig p)) ++ [GCtor n])
            else s_gnodes (get_scope st x).
Proof.
  intros cfg st s0 p st' HS Hs0 H s n x.
  pose proof (provide_target_lt st s0 p HS Hs0) as Hs. fold s in Hs.
  rewrite <- (provide_appends_once (group_grefs n 0 (sig_leaves (pi_sig p)) ++ [GCtor n]) st s
                (st_nodes st ++ [mkCNode (pi_fn p) (pi_sig p) s s0 false false (pi_cb p)]) x HS Hs).
  unfold provide in H. cbv zeta in H. fold s n in H.
  destruct (dup_check _ _ _); [discriminate|].
  destruct (is_nil _); [discriminate|].
  destruct (verify_loop _ _ _) as [[[o|]|e'|y] st4] eqn:Ev; try discriminate.
  inversion H; subst st'; clear H.
  apply verify_loop_E in Ev. apply same_but_verified_iff in Ev.
  destruct Ev as (_ & _ & _ & _ & _ & _ & Esc).
  destruct (Esc x) as (_ & _ & _ & _ & _ & _ & _ & _ & _ & Eg).
  match goal with |- s_gnodes (get_scope (upd_scope st4 s ?F) x) = _ =>
    assert (E1 : s_gnodes (get_scope (upd_scope st4 s F) x) = s_gnodes (get_scope st4 x))
      by (rewrite get_scope_upd; destruct (_ && _); reflexivity) end.
  rewrite E1, Eg.
  rewrite get_scope_upd. destruct (_ && _); reflexivity.
Qed.

Lemma GN_provide_ok : forall cfg st s0 p st',
  SInv st -> s0 < length (st_scopes st) -> provide cfg st s0 p = (VOk, st') -> GN st -> GN st'.
Proof.
  intros cfg st s0 p st' HS Hs0 H HG a.
  pose proof (provide_target_lt st s0 p HS Hs0) as Hs.
  destruct (provide_ok_shape cfg st s0 p st' Hs H) as (Hn & _ & Hl & Hpar & _).
  rewrite (provide_ok_gnodes cfg st s0 p st' HS Hs0 H a).
  set (s := if pi_export p then 0 else s0) in *.
  set (N := length (st_nodes st)) in *.
  assert (HN : length (st_nodes st') = S N) by (rewrite Hn, app_length; cbn; fold N; lia).
  assert (Hold : forall n, n < N -> get_node st' n = get_node st n).
  { intros n Hlt. unfold get_node. rewrite Hn. apply app_nth1. exact Hlt. }
  assert (Hnew : get_node st' N = P_Once.new_node s0 p).
  { unfold get_node. rewrite Hn. unfold N. apply nth_middle. }
  assert (Hpath : forall x, path st' x = path st x).
  { intros x. unfold path. rewrite Hl. apply path_fuel_parents. exact Hpar. }
  unfold visn. rewrite HN.
  rewrite (filter_seq_snoc (vis_here st a) (vis_here st' a) N)
    by (intros n Hlt; unfold vis_here; rewrite Hold, Hpath by exact Hlt; reflexivity).
  rewrite flat_map_app.
  rewrite (P_Frame.flat_map_ext_in _ _ (gn_of st') (gn_of st) (filter (vis_here st a) (seq 0 N))).
  2:{ intros n Hin. apply filter_In in Hin. destruct Hin as [Hin _]. apply in_seq in Hin.
      unfold gn_of. rewrite Hold by lia. reflexivity. }
  change (filter (vis_here st a) (seq 0 N)) with (visn st a). rewrite <- (HG a).
  unfold vis_here at 1. rewrite Hnew, Hpath.
  change (c_home (P_Once.new_node s0 p)) with s.
  destruct (in_dec Nat.eq_dec a (subtree st s)) as [Hin|Hnin].
  - apply (subtree_path_iff st s a HS Hs) in Hin. apply memb_nat_In in Hin. rewrite Hin.
    cbn [flat_map]. rewrite app_nil_r. unfold gn_of. rewrite Hnew. reflexivity.
  - destruct (memb Nat.eqb s (path st a)) eqn:E.
    + exfalso. apply Hnin. apply (subtree_path_iff st s a HS Hs). apply memb_nat_In. exact E.
    + cbn [flat_map]. rewrite app_nil_r. reflexivity.
Qed.

Lemma GN_provide : forall cfg st s0 p v st',
  SInv st -> s0 < length (st_scopes st) -> provide cfg st s0 p = (v, st') -> GN st -> GN st'.
Proof.
  intros cfg st s0 p [|e|x] st' HS Hs0 H HG.
  - eapply GN_provide_ok; eauto.
  - apply (GN_skel st st'); [|exact HG]. apply sbv_skel. eapply provide_rejected_frame_gen; eauto.
  - exfalso. eapply provide_never_aborts; eauto.
Qed.

Lemma GN_decorate : forall st s p v st', decorate st s p = (v, st') -> GN st -> GN st'.
Proof.
  intros st s p v st' H HG. unfold decorate in H.
  destruct (negb _ || existsb _ _); [inversion H; subst; exact HG|].
  inversion H; subst; clear H.
  eapply GN_ext; [| | | | | |exact HG].
  - rewrite upd_scope_length. reflexivity.
  - intros a. rewrite get_scope_upd. destruct (_ && _); reflexivity.
  - intros a. rewrite get_scope_upd. destruct (_ && _); reflexivity.
  - reflexivity.
  - intros n. reflexivity.
  - intros n. reflexivity.
Qed.

Theorem GN_step : forall cfg b du st o,
  SInv st -> op_ok (length (st_scopes st)) o = true -> GN st -> GN (snd (step cfg b du st o)).
Proof.
  intros cfg b du st [q|s q|s q|s q|k s f] HS Hok HG; cbn [step op_ok snd] in *.
  - apply GN_new_scope; [exact HS | apply Nat.ltb_lt; exact Hok | exact HG].
  - destruct (provide cfg st s q) as [v st'] eqn:E. cbn [snd].
    eapply GN_provide; eauto. apply Nat.ltb_lt; exact Hok.
  - destruct (decorate st s q) as [v st'] eqn:E. cbn [snd]. eapply GN_decorate; eauto.
  - apply (GN_skel st); [symmetry; apply invoke_skel | exact HG].
  - exact HG.
Qed.
Print Assumptions GN_step.

Theorem GN_run_from : forall cfg b du h st,
  SInv st -> wf_scopes_from (length (st_scopes st)) h = true -> GN st ->
  GN (snd (run_from cfg b du st h)).
Proof.
  intros cfg b du h; induction h as [|o t IH]; intros st HS Hwf HG.
  - exact HG.
  - rewrite run_from_cons. cbn [snd]. cbn [wf_scopes_from] in Hwf.
    apply andb_true_iff in Hwf. destruct Hwf as [Hok Hwf].
    apply IH.
    + apply SInv_step; assumption.
    + rewrite step_scopes_length. exact Hwf.
    + apply GN_step; assumption.
Qed.

Theorem GN_state_after : forall cfg b du h, wf_scopes h = true -> GN (state_after cfg b du h).
Proof.
  intros cfg b du h Hwf. unfold state_after.
  apply GN_run_from; [apply SInv_init | exact Hwf | apply GN_init].
Qed.
Print Assumptions GN_state_after.

(* ================================================================== *)
(* Part 2 : the scope graph contracts to the view graph                 *)
(* ================================================================== *)

(* ---------- list lemmas ---------- *)

Lemma nth_map_error : forall (A : Type) (f : A -> list nat) (l : list A) (u : nat),
  nth u (map f l) [] = match nth_error l u with Some x => f x | None => [] end.
Proof.
  intros A f l; induction l as [|h t IH]; intros [|u]; cbn; try reflexivity. apply IH.
Qed.

Lemma nth_error_nth_d : forall (A : Type) (l : list A) (u : nat) (x d : A),
  nth_error l u = Some x -> nth u l d = x.
Proof. intros A l u x d H. apply nth_error_nth. exact H. Qed.

Section IndexOf.
  Variable A : Type.
  Variable eqb : A -> A -> bool.
  Hypothesis eqb_spec : forall x y, eqb x y = true <-> x = y.

  Lemma index_of_nth_error : forall (l : list A) (x : A), In x l ->
    nth_error l (opt_default 0 (index_of eqb x l)) = Some x.
  Proof.
    induction l as [|h t IH]; intros x Hin; [destruct Hin|].
    cbn [index_of]. destruct (eqb x h) eqn:E.
    - apply eqb_spec in E. subst. reflexivity.
    - destruct Hin as [->|Hin].
      + assert (eqb x x = true) by (apply eqb_spec; reflexivity). congruence.
      + specialize (IH x Hin). destruct (index_of eqb x t) as [i|] eqn:Ei; cbn [option_map opt_default] in *.
        * exact IH.
        * exfalso. clear IH. revert Ei. clear E. induction t as [|h' t' IH']; [destruct Hin|].
          cbn [index_of]. destruct (eqb x h') eqn:E'; [discriminate|].
          destruct Hin as [->|Hin].
          -- assert (eqb x x = true) by (apply eqb_spec; reflexivity). congruence.
          -- destruct (index_of eqb x t'); [discriminate|]. intros _. apply IH'; [exact Hin|reflexivity].
  Qed.
End IndexOf.

Lemma gref_eqb_spec : forall x y, gref_eqb x y = true <-> x = y.
Proof.
  intros [n|n i] [m|m j]; cbn [gref_eqb]; split; intros H; try discriminate.
  - apply Nat.eqb_eq in H. subst. reflexivity.
  - injection H as ->. apply Nat.eqb_refl.
  - apply andb_true_iff in H. destruct H as [H1 H2]. apply Nat.eqb_eq in H1, H2. subst. reflexivity.
  - injection H as -> ->. rewrite !Nat.eqb_refl. reflexivity.
Qed.

Lemma order_in_nth : forall st a x, In x (s_gnodes (get_scope st a)) ->
  nth_error (s_gnodes (get_scope st a)) (order_in st a x) = Some x.
Proof. intros st a x H. unfold order_in. apply index_of_nth_error; [apply gref_eqb_spec | exact H]. Qed.

(* ---------- graphs given by "each vertex selects, per leaf, the vertices
   satisfying a test" (the shape of view_graph and perm_graph) ---------- *)

Lemma in_combine_seq : forall (V : Type) (vs : list V) (s i : nat) (w : V),
  In (i, w) (combine (seq s (length vs)) vs) <-> s <= i /\ nth_error vs (i - s) = Some w.
Proof.
  intros V vs; induction vs as [|h t IH]; intros s i w; cbn [length seq combine].
  - split; [intros [] | intros [_ H]; destruct (i - s); discriminate].
  - cbn [In]. rewrite IH. split.
    + intros [H|[H1 H2]].
      * injection H as <- <-. split; [lia|]. rewrite Nat.sub_diag. reflexivity.
      * split; [lia|]. replace (i - s) with (S (i - S s)) by lia. exact H2.
    + intros [H1 H2]. destruct (Nat.eq_dec i s) as [->|Hne].
      * left. rewrite Nat.sub_diag in H2. cbn in H2. injection H2 as ->. reflexivity.
      * right. split; [lia|]. replace (i - s) with (S (i - S s)) in H2 by lia. exact H2.
Qed.

Lemma sel_In : forall (V : Type) (P : V -> bool) (vs : list V) (j : nat),
  In j (flat_map (fun p => if P (snd p) then [fst p] else []) (combine (seq 0 (length vs)) vs)) <->
  exists w, nth_error vs j = Some w /\ P w = true.
Proof.
  intros V P vs j. rewrite in_flat_map. split.
  - intros ([i w] & Hin & Hj). cbn [fst snd] in Hj. apply in_combine_seq in Hin.
    destruct Hin as [_ Hin]. rewrite Nat.sub_0_r in Hin.
    destruct (P w) eqn:E; [|destruct Hj]. destruct Hj as [<-|[]]. exists w. split; assumption.
  - intros (w & Hn & Hp). exists (j, w). split.
    + apply in_combine_seq. split; [lia|]. rewrite Nat.sub_0_r. exact Hn.
    + cbn [fst snd]. rewrite Hp. left; reflexivity.
Qed.

Definition leafsel_graph (V L : Type) (Lv : V -> list L) (Q : V -> L -> V -> bool) (vs : list V) : graph :=
  map (fun v => flat_map (fun l => flat_map (fun p => if Q v l (snd p) then [fst p] else [])
                                            (combine (seq 0 (length vs)) vs)) (Lv v)) vs.

Lemma leafsel_edge : forall (V L : Type) (Lv : V -> list L) (Q : V -> L -> V -> bool) (vs : list V) i j,
  edge (leafsel_graph V L Lv Q vs) i j <->
  exists v w l, nth_error vs i = Some v /\ nth_error vs j = Some w /\ In l (Lv v) /\ Q v l w = true.
Proof.
  intros V L Lv Q vs i j. unfold edge, leafsel_graph. rewrite nth_map_error.
  destruct (nth_error vs i) as [v|] eqn:Ei.
  - rewrite in_flat_map. split.
    + intros (l & Hl & Hj). apply (sel_In V (Q v l)) in Hj. destruct Hj as (w & Hw & Hq).
      exists v, w, l. auto.
    + intros (v' & w & l & [= <-] & Hw & Hl & Hq). exists l. split; [exact Hl|].
      apply (sel_In V (Q v l)). exists w. auto.
  - split; [intros [] | intros (v & w & l & H & _); discriminate].
Qed.

Lemma leafsel_wf : forall (V L : Type) (Lv : V -> list L) (Q : V -> L -> V -> bool) (vs : list V),
  wf_graph (leafsel_graph V L Lv Q vs) = true.
Proof.
  intros V L Lv Q vs. unfold wf_graph. apply forallb_forall. intros es Hes.
  apply forallb_forall. intros j Hj. apply Nat.ltb_lt.
  apply In_nth_error in Hes. destruct Hes as [i Hi].
  assert (He : edge (leafsel_graph V L Lv Q vs) i j).
  { unfold edge. rewrite (nth_error_nth_d _ _ _ _ [] Hi). exact Hj. }
  apply leafsel_edge in He. destruct He as (v & w & l & _ & Hw & _).
  unfold leafsel_graph. rewrite map_length. apply nth_error_Some. congruence.
Qed.

Lemma view_graph_leafsel : forall r a cs,
  view_graph r a cs =
  leafsel_graph sctor pleaf (fun c => sig_leaves (sc_sig c))
    (fun _ l c' => provides_single c' (pleaf_key l) || feeds_group c' (pleaf_key l))
    (filter (fun c => encloses r (sc_home c) a) cs).
Proof. reflexivity. Qed.

Lemma perm_graph_leafsel : forall r vs,
  perm_graph r vs =
  leafsel_graph vertex pleaf vertex_leaves
    (fun v l w => vertex_offers w (pleaf_key l) && comparable r (vertex_home v) (vertex_home w) &&
                  negb (is_self_decoration v w)) vs.
Proof. reflexivity. Qed.

Lemma wf_view_graph : forall r a cs, wf_graph (view_graph r a cs) = true.
Proof. intros. rewrite view_graph_leafsel. apply leafsel_wf. Qed.

Lemma wf_perm_graph : forall r vs, wf_graph (perm_graph r vs) = true.
Proof. intros. rewrite perm_graph_leafsel. apply leafsel_wf. Qed.

Lemma acyclicb_false_iff : forall g, wf_graph g = true -> (acyclicb g = false <-> cyclic g).
Proof.
  intros g Hwf. unfold acyclicb. destruct (dfs_decides g Hwf) as [(p & E & Hp)|[E Hn]]; rewrite E.
  - split; [intros _; exists p; exact Hp | reflexivity].
  - split; [discriminate | intros Hc; contradiction].
Qed.

(* ---------- the abstract digraph on graph nodes ---------- *)

Definition leaves_of (st : state) (n : nat) : list pleaf := sig_leaves (c_sig (get_node st n)).

Inductive gR (st : state) (a : sid) : gref -> gref -> Prop :=
| gR_single : forall n m i k o,
    nth_error (leaves_of st n) i = Some (LSingle k o) -> In m (providers_on_path st a k) ->
    gR st a (GCtor n) (GCtor m)
| gR_group : forall n i k s,
    nth_error (leaves_of st n) i = Some (LGroup k s) -> gR st a (GCtor n) (GGroup n i)
| gR_feed : forall n i k s m,
    nth_error (leaves_of st n) i = Some (LGroup k s) -> In m (providers_on_path st a k) ->
    gR st a (GGroup n i) (GCtor m).

(* restricted to sources present in the holder *)
Definition gRL (st : state) (a : sid) (x y : gref) : Prop :=
  In x (s_gnodes (get_scope st a)) /\ gR st a x y.

Lemma leaf_edges_In2 : forall st a n ls j v,
  In v (leaf_edges st a n j ls) <->
  exists i l, nth_error ls i = Some l /\
    match l with
    | LSingle k _ => exists m, In m (providers_on_path st a k) /\ v = order_in st a (GCtor m)
    | LGroup _ _ => v = order_in st a (GGroup n (j + i))
    end.
Proof.
  intros st a n ls; induction ls as [|[k o|k sf] t IH]; intros j v; cbn [leaf_edges].
  - split; [intros [] | intros (i & l & H & _); destruct i; discriminate].
  - rewrite in_app_iff, in_map_iff, IH. split.
    + intros [(m & <- & Hm)|(i & l & Hi & Hl)].
      * exists 0, (LSingle k o). split; [reflexivity|]. exists m. auto.
      * exists (S i), l. split; [exact Hi|]. destruct l; [exact Hl|].
        replace (j + S i) with (S j + i) by lia. exact Hl.
    + intros ([|i] & l & Hi & Hl).
      * cbn in Hi. injection Hi as <-. destruct Hl as (m & Hm & ->). left. exists m. auto.
      * right. exists i, l. split; [exact Hi|]. destruct l; [exact Hl|].
        replace (S j + i) with (j + S i) by lia. exact Hl.
  - cbn [In]. rewrite IH. split.
    + intros [<-|(i & l & Hi & Hl)].
      * exists 0, (LGroup k sf). split; [reflexivity|]. rewrite Nat.add_0_r. reflexivity.
      * exists (S i), l. split; [exact Hi|]. destruct l; [exact Hl|].
        replace (j + S i) with (S j + i) by lia. exact Hl.
    + intros ([|i] & l & Hi & Hl).
      * cbn in Hi. injection Hi as <-. left. rewrite Nat.add_0_r in Hl. symmetry; exact Hl.
      * right. exists i, l. split; [exact Hi|]. destruct l; [exact Hl|].
        replace (S j + i) with (j + S i) by lia. exact Hl.
Qed.

Lemma edges_of_gR : forall st a x v,
  In v (edges_of st a x) <-> exists y, gR st a x y /\ v = order_in st a y.
Proof.
  intros st a [n|n i] v; cbn [edges_of].
  - rewrite leaf_edges_In2. fold (leaves_of st n). split.
    + intros (i & [k o|k sf] & Hi & Hl).
      * destruct Hl as (m & Hm & ->). exists (GCtor m). split; [|reflexivity]. eapply gR_single; eauto.
      * cbn [Nat.add] in Hl. subst v. exists (GGroup n i). split; [|reflexivity]. eapply gR_group; eauto.
    + intros (y & Hr & ->). inversion Hr as [n' m i k o Hi Hm|n' i k sf Hi|]; subst.
      * exists i, (LSingle k o). split; [exact Hi|]. exists m. auto.
      * exists i, (LGroup k sf). split; [exact Hi|]. reflexivity.
  - fold (leaves_of st n). split.
    + intros H. destruct (nth_error (leaves_of st n) i) as [[k o|k sf]|] eqn:Ei; try destruct H.
      apply in_map_iff in H. destruct H as (m & <- & Hm). exists (GCtor m). split; [|reflexivity].
      eapply gR_feed; eauto.
    + intros (y & Hr & ->). inversion Hr as [| |n' i' k sf m Hi Hm]; subst. rewrite Hi.
      apply (in_map (fun m => order_in st a (GCtor m))). exact Hm.
Qed.

Lemma scope_graph_edge : forall st a u v,
  edge (scope_graph st a) u v <->
  exists x y, nth_error (s_gnodes (get_scope st a)) u = Some x /\ gR st a x y /\ v = order_in st a y.
Proof.
  intros st a u v. unfold edge, scope_graph. rewrite nth_map_error.
  destruct (nth_error (s_gnodes (get_scope st a)) u) as [x|] eqn:Eu.
  - rewrite edges_of_gR. split.
    + intros (y & Hr & Hv). exists x, y. auto.
    + intros (x' & y & [= <-] & Hr & Hv). exists y. auto.
  - split; [intros [] | intros (x & y & H & _); discriminate].
Qed.

(* ---------- membership in the holder, from GN ---------- *)

Lemma group_grefs_In : forall n ls j g,
  In g (group_grefs n j ls) <-> exists i k s, g = GGroup n (j + i) /\ nth_error ls i = Some (LGroup k s).
Proof.
  intros n ls; induction ls as [|[k o|k sf] t IH]; intros j g; cbn [group_grefs].
  - split; [intros [] | intros (i & k & s & _ & H); destruct i; discriminate].
  - rewrite IH. split.
    + intros (i & k' & s & -> & Hi). exists (S i), k', s. split; [f_equal; lia | exact Hi].
    + intros ([|i] & k' & s & -> & Hi); [discriminate|]. exists i, k', s. split; [f_equal; lia | exact Hi].
  - cbn [In]. rewrite IH. split.
    + intros [<-|(i & k' & s & -> & Hi)].
      * exists 0, k, sf. split; [f_equal; lia | reflexivity].
      * exists (S i), k', s. split; [f_equal; lia | exact Hi].
    + intros ([|i] & k' & s & -> & Hi).
      * left. f_equal. lia.
      * right. exists i, k', s. split; [f_equal; lia | exact Hi].
Qed.

Lemma visn_In : forall st a n,
  In n (visn st a) <-> n < length (st_nodes st) /\ In (c_home (get_node st n)) (path st a).
Proof.
  intros st a n. unfold visn. rewrite filter_In, in_seq. unfold vis_here. rewrite memb_nat_In.
  split; [intros [[_ H1] H2] | intros [H1 H2]]; repeat split; auto; lia.
Qed.

Lemma GN_ctor_In : forall st a n, GN st ->
  (In (GCtor n) (s_gnodes (get_scope st a)) <-> In n (visn st a)).
Proof.
  intros st a n H. rewrite (H a), in_flat_map. split.
  - intros (m & Hm & Hin). unfold gn_of in Hin. apply in_app_iff in Hin. destruct Hin as [Hin|[Hin|[]]].
    + apply group_grefs_In in Hin. destruct Hin as (i & k & s & E & _). discriminate.
    + injection Hin as ->. exact Hm.
  - intros Hn. exists n. split; [exact Hn|]. unfold gn_of. apply in_app_iff. right; left; reflexivity.
Qed.

Lemma GN_group_In : forall st a n i, GN st ->
  (In (GGroup n i) (s_gnodes (get_scope st a)) <->
   In n (visn st a) /\ exists k s, nth_error (leaves_of st n) i = Some (LGroup k s)).
Proof.
  intros st a n i H. rewrite (H a), in_flat_map. split.
  - intros (m & Hm & Hin). unfold gn_of in Hin. apply in_app_iff in Hin. destruct Hin as [Hin|[Hin|[]]]; [|discriminate].
    apply group_grefs_In in Hin. destruct Hin as (i' & k & s & E & Hi). cbn [Nat.add] in E.
    injection E as -> ->. split; [exact Hm|]. exists k, s. exact Hi.
  - intros (Hn & k & s & Hi). exists n. split; [exact Hn|]. unfold gn_of. apply in_app_iff. left.
    apply group_grefs_In. exists i, k, s. split; [reflexivity | exact Hi].
Qed.

Lemma pop_visn : forall st r a k m, RegRel st r ->
  (In m (providers_on_path st a k) <-> In m (visn st a) /\ In k (sig_keys (c_sig (get_node st m)))).
Proof.
  intros st r a k m HR. rewrite (providers_on_path_In st r a k m HR), visn_In. tauto.
Qed.

(* no duplicates: [order_in] numbers the holder injectively *)
Lemma group_grefs_NoDup : forall n ls j, NoDup (group_grefs n j ls).
Proof.
  intros n ls; induction ls as [|[k o|k sf] t IH]; intros j; cbn [group_grefs]; [constructor|apply IH|].
  constructor; [|apply IH]. intros Hin. apply group_grefs_In in Hin.
  destruct Hin as (i & k' & s & E & _). injection E as E. lia.
Qed.

Theorem GN_NoDup : forall st a, GN st -> NoDup (s_gnodes (get_scope st a)).
Proof.
  intros st a H. rewrite (H a). apply NoDup_flat_map_disjoint.
  - unfold visn. apply NoDup_filter. apply seq_NoDup.
  - intros n _. unfold gn_of. apply NoDup_app_disjoint; [apply group_grefs_NoDup | constructor; [intros []|constructor] |].
    intros x Hx [<-|[]]. apply group_grefs_In in Hx. destruct Hx as (i & k & s & E & _). discriminate.
  - intros n m x _ _ Hne Hx Hy.
    assert (Hnid : forall u y, In y (gn_of st u) -> gref_nid y = u).
    { intros u y Hin. unfold gn_of in Hin. apply in_app_iff in Hin. destruct Hin as [Hin|[<-|[]]]; [|reflexivity].
      eapply group_grefs_nid; eauto. }
    apply Hne. rewrite <- (Hnid n x Hx), <- (Hnid m x Hy). reflexivity.
Qed.

Print Assumptions GN_NoDup.

Corollary order_in_inj : forall st a x y, GN st ->
  In x (s_gnodes (get_scope st a)) -> In y (s_gnodes (get_scope st a)) ->
  order_in st a x = order_in st a y -> x = y.
Proof.
  intros st a x y HG Hx Hy E.
  pose proof (order_in_nth st a x Hx) as H1. pose proof (order_in_nth st a y Hy) as H2.
  rewrite E in H1. congruence.
Qed.

(* the holder is closed under the edge relation *)
Lemma gR_closed : forall st r a x y, GN st -> RegRel st r ->
  In x (s_gnodes (get_scope st a)) -> gR st a x y -> In y (s_gnodes (get_scope st a)).
Proof.
  intros st r a x y HG HR Hx Hr. inversion Hr as [n m i k o Hi Hm|n i k s Hi|n i k s m Hi Hm]; subst.
  - apply (GN_ctor_In st a m HG). apply (pop_visn st r a k m HR) in Hm. tauto.
  - apply (GN_group_In st a n i HG). split; [apply (GN_ctor_In st a n HG); exact Hx|]. eauto.
  - apply (GN_ctor_In st a m HG). apply (pop_visn st r a k m HR) in Hm. tauto.
Qed.

(* ---------- scope_graph is the image of the abstract digraph ---------- *)

Theorem scope_graph_cyclic_gRL : forall st r a, GN st -> RegRel st r ->
  (cyclic (scope_graph st a) <-> exists x, tc (gRL st a) x x).
Proof.
  intros st r a HG HR. rewrite cyclic_tc. split.
  - intros [u Hu]. exists (nth u (s_gnodes (get_scope st a)) (GCtor 0)).
    apply (tc_map (edge (scope_graph st a)) (gRL st a)
                  (fun u => nth u (s_gnodes (get_scope st a)) (GCtor 0))); [|exact Hu].
    intros u' v' He. apply scope_graph_edge in He. destruct He as (x & y & Hx & Hr & ->).
    rewrite (nth_error_nth_d _ _ _ _ (GCtor 0) Hx).
    assert (Hxin : In x (s_gnodes (get_scope st a))) by (eapply nth_error_In; eauto).
    pose proof (gR_closed st r a x y HG HR Hxin Hr) as Hyin.
    rewrite (nth_error_nth_d _ _ _ _ (GCtor 0) (order_in_nth st a y Hyin)).
    split; assumption.
  - intros [x Hx]. exists (order_in st a x).
    apply (tc_map (gRL st a) (edge (scope_graph st a)) (order_in st a)); [|exact Hx].
    intros x' y' [Hin Hr]. apply scope_graph_edge. exists x', y'.
    split; [apply order_in_nth; exact Hin|]. split; [exact Hr | reflexivity].
Qed.

(* ---------- the contracted digraph on constructor ids ---------- *)

Definition nS (st : state) (a : sid) (n m : nat) : Prop :=
  In n (visn st a) /\ In m (visn st a) /\
  exists l, In l (leaves_of st n) /\ In (pleaf_key l) (sig_keys (c_sig (get_node st m))).

Definition is_gctor (x : gref) : Prop := exists n, x = GCtor n.

Theorem gRL_contract : forall st r a, GN st -> RegRel st r ->
  ((exists x, tc (gRL st a) x x) <-> exists n, tc (nS st a) n n).
Proof.
  intros st r a HG HR. split.
  - intros Hc.
    destruct (contract_cycle gref (gRL st a)
                (fun x y => nS st a (gref_nid x) (gref_nid y)) is_gctor) as (x & _ & Hx).
    + intros [n|n i]; [left; exists n; reflexivity | right; intros [m E]; discriminate].
    + intros x y [Hin Hr] [n ->] [m ->]. cbn [gref_nid].
      inversion Hr as [n' m' i k o Hi Hm| |]; subst.
      apply (pop_visn st r a k m HR) in Hm. destruct Hm as [Hm Hk].
      split; [apply (GN_ctor_In st a n HG); exact Hin|]. split; [exact Hm|].
      exists (LSingle k o). split; [eapply nth_error_In; eauto | exact Hk].
    + intros x w y [Hin Hr] [_ Hr2] NK [n ->]. inversion Hr as [n' m' i k o Hi Hm|n' i k s Hi|]; subst.
      * exfalso. apply NK. exists m'. reflexivity.
      * inversion Hr2 as [| |n' i' k' s' m Hi' Hm]; subst. cbn [gref_nid].
        apply (pop_visn st r a k' m HR) in Hm. destruct Hm as [Hm Hk].
        split; [apply (GN_ctor_In st a n HG); exact Hin|]. split; [exact Hm|].
        exists (LGroup k' s'). split; [eapply nth_error_In; eauto | exact Hk].
    + intros w y [_ Hr] NK. inversion Hr; subst.
      * exfalso. apply NK. eexists; reflexivity.
      * exfalso. apply NK. eexists; reflexivity.
      * eexists; reflexivity.
    + exact Hc.
    + exists (gref_nid x). apply (tc_map _ (nS st a) gref_nid (fun u v H => H) _ _ Hx).
  - intros [n Hn]. exists (GCtor n).
    apply (tc_map_tc (nS st a) (gRL st a) GCtor); [|exact Hn].
    intros u v (Hu & Hv & l & Hl & Hk).
    assert (Huin : In (GCtor u) (s_gnodes (get_scope st a))) by (apply (GN_ctor_In st a u HG); exact Hu).
    assert (Hm : In v (providers_on_path st a (pleaf_key l))) by (apply (pop_visn st r a _ v HR); auto).
    apply In_nth_error in Hl. destruct Hl as [i Hi].
    destruct l as [k o|k s]; cbn [pleaf_key] in *.
    + apply tc1. split; [exact Huin|]. eapply gR_single; eauto.
    + eapply tcS; [split; [exact Huin|]; eapply gR_group; eauto|].
      apply tc1. split; [|eapply gR_feed; eauto].
      apply (GN_group_In st a u i HG). split; [exact Hu|]. eauto.
Qed.

(* ---------- view_graph is the image of the contracted digraph ---------- *)

Lemma vis_reg : forall st r a, RegRel st r ->
  filter (fun c => encloses r (sc_home c) a) (r_ctors r) = map (node_sctor st) (visn st a).
Proof.
  intros st r a HR. rewrite (rr_ctors HR).
  rewrite <- (map_filter_seq_nth _ _ sctor_of (fun c => encloses r (sc_home c) a) dummy_cnode (st_nodes st)).
  unfold visn, node_sctor, get_node. f_equal.
  apply filter_ext. intros n. unfold vis_here, get_node.
  rewrite (encloses_memb_path st r _ a HR). reflexivity.
Qed.

Lemma memb_sig_keys_In : forall k sg,
  provides_single (mkSCtor 0 sg 0 0) k || feeds_group (mkSCtor 0 sg 0 0) k = true <-> In k (sig_keys sg).
Proof.
  intros k sg. unfold provides_single, feeds_group. cbn [sc_sig].
  rewrite <- memb_sig_keys. apply memb_key_In.
Qed.

Lemma offers_In : forall c k,
  provides_single c k || feeds_group c k = true <-> In k (sig_keys (sc_sig c)).
Proof.
  intros c k. unfold provides_single, feeds_group. rewrite <- memb_sig_keys. apply memb_key_In.
Qed.

Lemma nat_eqb_spec : forall x y, Nat.eqb x y = true <-> x = y.
Proof. intros. apply Nat.eqb_eq. Qed.

Theorem view_cyclic_nS : forall st r a, RegRel st r ->
  (cyclic (view_graph r a (r_ctors r)) <-> exists n, tc (nS st a) n n).
Proof.
  intros st r a HR. rewrite cyclic_tc, view_graph_leafsel, (vis_reg st r a HR).
  set (g := leafsel_graph _ _ _ _ _).
  assert (He : forall i j, edge g i j <->
            exists n m l, nth_error (visn st a) i = Some n /\ nth_error (visn st a) j = Some m /\
                          In l (leaves_of st n) /\ In (pleaf_key l) (sig_keys (c_sig (get_node st m)))).
  { intros i j. unfold g. rewrite leafsel_edge. split.
    - intros (v & w & l & Hv & Hw & Hl & Hq).
      rewrite nth_error_map in Hv, Hw.
      match type of Hv with option_map _ ?X = _ => destruct X as [n|] eqn:En; [|discriminate] end.
      match type of Hw with option_map _ ?X = _ => destruct X as [m|] eqn:Em; [|discriminate] end.
      cbn [option_map] in Hv, Hw. injection Hv as <-. injection Hw as <-.
      exists n, m, l. split; [exact En|]. split; [exact Em|]. split; [exact Hl|]. apply offers_In in Hq. exact Hq.
    - intros (n & m & l & Hn & Hm & Hl & Hk).
      exists (node_sctor st n), (node_sctor st m), l.
      split; [apply map_nth_error; exact Hn|]. split; [apply map_nth_error; exact Hm|].
      split; [exact Hl|]. apply offers_In. exact Hk. }
  split.
  - intros [u Hu]. exists (nth u (visn st a) 0).
    apply (tc_map (edge g) (nS st a) (fun u => nth u (visn st a) 0)); [|exact Hu].
    intros i j Hij. apply He in Hij. destruct Hij as (n & m & l & Hn & Hm & Hl & Hk).
    rewrite (nth_error_nth_d _ _ _ _ 0 Hn), (nth_error_nth_d _ _ _ _ 0 Hm).
    split; [eapply nth_error_In; eauto|]. split; [eapply nth_error_In; eauto|]. exists l. auto.
  - intros [n Hn]. exists (opt_default 0 (index_of Nat.eqb n (visn st a))).
    apply (tc_map (nS st a) (edge g) (fun n => opt_default 0 (index_of Nat.eqb n (visn st a)))); [|exact Hn].
    intros u v (Hu & Hv & l & Hl & Hk). apply He. exists u, v, l.
    split; [apply (index_of_nth_error nat Nat.eqb nat_eqb_spec); exact Hu|].
    split; [apply (index_of_nth_error nat Nat.eqb nat_eqb_spec); exact Hv|]. auto.
Qed.

(* ---------- target 1 ---------- *)

Theorem contraction : forall st r a, RegRel st r -> GN st ->
  (cyclic (scope_graph st a) <-> cyclic (view_graph r a (r_ctors r))).
Proof.
  intros st r a HR HG.
  rewrite (scope_graph_cyclic_gRL st r a HG HR), (gRL_contract st r a HG HR).
  symmetry. apply view_cyclic_nS. exact HR.
Qed.
Print Assumptions contraction.

(* the verdicts agree *)
Corollary contraction_verdict : forall st r a, RegRel st r -> GN st ->
  acyclicb (scope_graph st a) = acyclicb (view_graph r a (r_ctors r)).
Proof.
  intros st r a HR HG.
  pose proof (acyclicb_false_iff _ (wf_scope_graph st a)) as H1.
  pose proof (acyclicb_false_iff _ (wf_view_graph r a (r_ctors r))) as H2.
  pose proof (contraction st r a HR HG) as H3.
  destruct (acyclicb (scope_graph st a)), (acyclicb (view_graph r a (r_ctors r))); try reflexivity.
  - apply (proj2 H1). apply (proj2 H3). apply (proj1 H2). reflexivity.
  - symmetry. apply (proj2 H2). apply (proj1 H3). apply (proj1 H1). reflexivity.
Qed.
Print Assumptions contraction_verdict.

(* ================================================================== *)
(* Part 4 : every view graph is a subgraph of the permissive graph      *)
(* ================================================================== *)

(* two scopes that both enclose a lie on one line *)
Lemma path_comparable : forall st r a x y, RegRel st r -> TInv st ->
  In x (path st a) -> In y (path st a) -> comparable r x y = true.
Proof.
  intros st r a x y HR HT Hx Hy. apply (comparable_path st r x y HR).
  destruct (Nat.lt_ge_cases a (length (st_scopes st))) as [Ha|Ha].
  - pose proof (path_in_range st a x HT Ha Hx) as Hxl.
    pose proof (path_in_range st a y HT Ha Hy) as Hyl.
    apply path_fuel_anc in Hx. apply path_fuel_anc in Hy.
    destruct (anc_linear Hx Hy) as [H|H].
    + right. apply anc_in_path; assumption.
    + left. apply anc_in_path; assumption.
  - rewrite (path_out_of_range st a (ti_nonempty HT) Ha) in Hx, Hy.
    destruct Hx as [<-|[]]. destruct Hy as [<-|[]].
    left. rewrite (path_out_of_range st a (ti_nonempty HT) Ha). left; reflexivity.
Qed.

Lemma all_vertices_ctor : forall st r n, RegRel st r -> n < length (st_nodes st) ->
  nth_error (all_vertices r) n = Some (VC (node_sctor st n)).
Proof.
  intros st r n HR Hn. unfold all_vertices. rewrite (rr_ctors HR).
  rewrite nth_error_app1 by (rewrite !map_length; exact Hn).
  apply map_nth_error. unfold node_sctor, get_node. apply map_nth_error.
  apply nth_error_nth'. exact Hn.
Qed.

Lemma all_vertices_dec : forall st r d, RegRel st r -> d < length (st_decs st) ->
  nth_error (all_vertices r) (length (st_nodes st) + d) = Some (VD (node_sdec st d)).
Proof.
  intros st r d HR Hd. unfold all_vertices. rewrite (rr_ctors HR), (rr_decs HR).
  rewrite nth_error_app2 by (rewrite !map_length; lia).
  rewrite !map_length. replace (length (st_nodes st) + d - length (st_nodes st)) with d by lia.
  apply map_nth_error. unfold node_sdec, get_dec. apply map_nth_error.
  apply nth_error_nth'. exact Hd.
Qed.

Lemma nS_perm_edge : forall st r a n m, RegRel st r -> TInv st ->
  nS st a n m -> edge (perm_graph r (all_vertices r)) n m.
Proof.
  intros st r a n m HR HT (Hn & Hm & l & Hl & Hk).
  apply visn_In in Hn. destruct Hn as [Hn Hnp]. apply visn_In in Hm. destruct Hm as [Hm Hmp].
  rewrite perm_graph_leafsel. apply leafsel_edge.
  exists (VC (node_sctor st n)), (VC (node_sctor st m)), l.
  split; [apply (all_vertices_ctor st r n HR Hn)|].
  split; [apply (all_vertices_ctor st r m HR Hm)|].
  split; [exact Hl|].
  cbn [vertex_offers vertex_home is_self_decoration negb].
  rewrite andb_true_r. apply andb_true_iff. split.
  - apply offers_In. exact Hk.
  - apply (path_comparable st r a _ _ HR HT Hnp Hmp).
Qed.

(* ---------- target 3 ---------- *)

Theorem view_cyclic_perm : forall st r a, RegRel st r -> TInv st ->
  cyclic (view_graph r a (r_ctors r)) -> cyclic (perm_graph r (all_vertices r)).
Proof.
  intros st r a HR HT Hc. apply (view_cyclic_nS st r a HR) in Hc. destruct Hc as [n Hn].
  apply cyclic_tc. exists n.
  apply (tc_map (nS st a) (edge (perm_graph r (all_vertices r))) (fun x => x)); [|exact Hn].
  intros u v H. eapply nS_perm_edge; eauto.
Qed.
Print Assumptions view_cyclic_perm.

Corollary scope_cyclic_perm : forall st r a, RegRel st r -> TInv st -> GN st ->
  cyclic (scope_graph st a) -> acyclicb (perm_graph r (all_vertices r)) = false.
Proof.
  intros st r a HR HT HG Hc. apply (acyclicb_false_iff _ (wf_perm_graph r _)).
  apply (view_cyclic_perm st r a HR HT). apply (contraction st r a HR HG). exact Hc.
Qed.

(* the static check inside Invoke (reachable only in deferred mode) *)
Theorem invoke_static_cycle_perm : forall st r s, RegRel st r -> TInv st -> GN st ->
  forall c, is_acyclic (scope_graph st s) = Some (false, c) ->
  acyclicb (perm_graph r (all_vertices r)) = false.
Proof.
  intros st r s HR HT HG c Hc. apply (scope_cyclic_perm st r s HR HT HG).
  destruct (dfs_decides _ (wf_scope_graph st s)) as [(p & E & Hp)|[E _]].
  - exists p. exact Hp.
  - rewrite E in Hc. discriminate.
Qed.
Print Assumptions invoke_static_cycle_perm.

(* ================================================================== *)
(* Part 3 : static exactness of Provide                                 *)
(* ================================================================== *)

Lemma subtree_of_In : forall st r s a, RegRel st r -> SInv st -> s < length (st_scopes st) ->
  (In a (subtree_of r s) <-> In a (subtree st s)).
Proof.
  intros st r s a HR HS Hs. unfold subtree_of. rewrite filter_In, in_seq, (RegRel_nscopes st r HR).
  rewrite (encloses_path st r s a HR), (subtree_path_iff st s a HS Hs).
  split; [tauto|]. intros H.
  pose proof (proj2 (subtree_path_iff st s a HS Hs) H) as Hin. destruct HS as [HT _].
  pose proof (subtree_fuel_bounds HT _ s a Hs Hin) as Hb.
  split; [|exact H]. split; [lia|]. cbn. lia.
Qed.

(* what the verification loop of Provide computes in non-deferred mode *)
Lemma verify_loop_false_char : forall A st r st4, verify_loop false A st = (r, st4) ->
  (r = Done None /\ forall a, In a A -> acyclicb (scope_graph st a) = true) \/
  (exists a, r = Done (Some a) /\ In a A /\ acyclicb (scope_graph st a) = false).
Proof.
  intros A; induction A as [|a0 A IH]; intros st r st4 H; cbn [verify_loop] in H.
  - inversion H; subst. left. split; [reflexivity | intros a []].
  - rewrite scope_graph_upd_verified in H.
    destruct (is_acyclic (scope_graph st a0)) as [[[|] c]|] eqn:Ea.
    + destruct (IH _ _ _ H) as [[-> Hall]|(a & -> & Hin & Hc)].
      * left. split; [reflexivity|]. intros a [<-|Hin].
        -- unfold acyclicb. rewrite Ea. reflexivity.
        -- specialize (Hall a Hin). rewrite !scope_graph_upd_verified in Hall. exact Hall.
      * right. exists a. split; [reflexivity|]. split; [right; exact Hin|].
        rewrite !scope_graph_upd_verified in Hc. exact Hc.
    + inversion H; subst. right. exists a0. split; [reflexivity|]. split; [left; reflexivity|].
      unfold acyclicb. rewrite Ea. reflexivity.
    + exfalso. eapply scope_graph_fuel; eauto.
Qed.

Section ProvideExact.
  Variables (st : state) (s0 : sid) (p : provide_in) (r : registry).
  Let s := if pi_export p then 0 else s0.
  Let A := subtree st s.
  Let n := length (st_nodes st).
  Let node := mkCNode (pi_fn p) (pi_sig p) s s0 false false (pi_cb p).
  Let gs := group_grefs n 0 (sig_leaves (pi_sig p)) ++ [GCtor n].
  Let st2 := fold_left (append_gnodes gs) A (set_nodes st (st_nodes st ++ [node])).
  Let keys := dedup_first key_eqb (sig_keys (pi_sig p)).
  Let st3 := upd_scope st2 s (fun c => sc_set_providers (fold_left (add_provider n) keys (s_providers c)) c).
  Let undo := fun x : state => set_nodes (rollback_gnodes (snapshot st A) x) (st_nodes st).
  Let F := fun c : scope => sc_set_nodes (s_nodes c ++ [n]) c.
  Let cand := mkSCtor (pi_fn p) (pi_sig p) s s0.
  Let r' := mkReg (r_parents r) (r_ctors r ++ [cand]) (r_decs r).

  Lemma provide_unf : forall cfg,
    provide cfg st s0 p =
    if dup_check (s_providers (get_scope st2 s)) [] (sig_rleaves (pi_sig p)) then (VErr err_dup, undo st2)
    else if is_nil keys then (VErr err_noresults, undo st2)
    else match verify_loop (cfg_defer cfg) A st3 with
         | (Abort a, st4) => (VAbort a, st4)
         | (Fail e, st4) => (VErr e, st4)
         | (Done (Some _), st4) =>
             (VErr err_provide_cycle, undo (upd_scope st4 s (sc_set_providers (s_providers (get_scope st2 s)))))
         | (Done None, st4) => (VOk, upd_scope st4 s F)
         end.
  Proof. reflexivity. Qed.

  Hypothesis HS : SInv st.
  Hypothesis Hs0 : s0 < length (st_scopes st).
  Hypothesis HG : GN st.
  Hypothesis HR : RegRel st r.
  Hypothesis Hdup : dup_check (s_providers (get_scope st2 s)) [] (sig_rleaves (pi_sig p)) = false.
  Hypothesis Hnil : is_nil keys = false.

  (* the candidate graphs the loop inspects are the view graphs of the
     registry extended with the candidate: run the same Provide in deferred
     mode, where it is accepted, and use the contraction theorem there *)
  Lemma deferred_twin : exists std,
    RegRel std r' /\ SInv std /\ GN std /\ forall a, scope_graph std a = scope_graph st3 a.
  Proof.
    set (cfgd := mkConfig true false false).
    destruct (verify_loop true A st3) as [rr st4] eqn:Ev.
    pose proof (verify_loop_defer _ _ _ _ Ev) as ->.
    assert (Hp : provide cfgd st s0 p = (VOk, upd_scope st4 s F)).
    { rewrite provide_unf, Hdup, Hnil. cbn [cfg_defer cfgd]. rewrite Ev. reflexivity. }
    exists (upd_scope st4 s F).
    split; [exact (RegRel_provide_ok cfgd st s0 p _ r HS Hs0 Hp HR)|].
    split; [exact (SInv_provide cfgd st s0 p _ _ HS Hs0 Hp)|].
    split; [exact (GN_provide_ok cfgd st s0 p _ HS Hs0 Hp HG)|].
    intros a.
    assert (Hg45 : graph_same st4 (upd_scope st4 s F)).
    { constructor.
      - rewrite upd_scope_length. reflexivity.
      - intros x. rewrite get_scope_upd. destruct (_ && _); reflexivity.
      - intros x. rewrite get_scope_upd. destruct (_ && _); reflexivity.
      - intros x. rewrite get_scope_upd. destruct (_ && _); reflexivity.
      - intros m. reflexivity. }
    rewrite <- (graph_same_graph Hg45). apply scope_graph_skel.
    apply verify_loop_E in Ev. rewrite <- (skel_erase st4), <- (skel_erase st3), Ev. reflexivity.
  Qed.

  Lemma st3_view : forall a,
    acyclicb (scope_graph st3 a) = acyclicb (view_graph r' a (r_ctors r')).
  Proof.
    intros a. destruct deferred_twin as (std & HR' & _ & HG' & Hgraph).
    rewrite <- Hgraph. apply contraction_verdict; assumption.
  Qed.

  Lemma st3_cyclic_perm : forall a, acyclicb (scope_graph st3 a) = false ->
    acyclicb (perm_graph r' (all_vertices r')) = false.
  Proof.
    intros a Hc. destruct deferred_twin as (std & HR' & [HT' _] & HG' & Hgraph).
    apply (scope_cyclic_perm std r' a HR' HT' HG').
    rewrite Hgraph. apply (acyclicb_false_iff _ (wf_scope_graph st3 a)). exact Hc.
  Qed.

  Lemma some_view_cyclic_iff :
    existsb (fun a => negb (acyclicb (view_graph r' a (r_ctors r')))) (subtree_of r s) = true <->
    exists a, In a A /\ acyclicb (scope_graph st3 a) = false.
  Proof.
    pose proof (provide_target_lt st s0 p HS Hs0) as Hs. fold s in Hs.
    rewrite existsb_exists. split.
    - intros (a & Hin & Hc). exists a. split; [apply (subtree_of_In st r s a HR HS Hs); exact Hin|].
      rewrite st3_view. apply negb_true_iff. exact Hc.
    - intros (a & Hin & Hc). exists a. split; [apply (subtree_of_In st r s a HR HS Hs); exact Hin|].
      rewrite <- st3_view. apply negb_true_iff. exact Hc.
  Qed.

  Theorem provide_verdict_exact_sec : forall cfg, cfg_defer cfg = false ->
    let svc := existsb (fun a => negb (acyclicb (view_graph r' a (r_ctors r')))) (subtree_of r s) in
    (fst (provide cfg st s0 p) = VErr err_provide_cycle /\ svc = true /\
     acyclicb (perm_graph r' (all_vertices r')) = false) \/
    (fst (provide cfg st s0 p) = VOk /\ svc = false).
  Proof.
    intros cfg Hd svc. rewrite provide_unf, Hdup, Hnil, Hd.
    destruct (verify_loop false A st3) as [rr st4] eqn:Ev.
    destruct (verify_loop_false_char _ _ _ _ Ev) as [[-> Hall]|(a & -> & Hin & Hc)]; cbn [fst].
    - right. split; [reflexivity|].
      destruct svc eqn:E; [|reflexivity]. exfalso.
      apply some_view_cyclic_iff in E. destruct E as (a & Hin & Hc).
      rewrite (Hall a Hin) in Hc. discriminate.
    - left. split; [reflexivity|]. split; [apply some_view_cyclic_iff; exists a; auto|].
      apply (st3_cyclic_perm a Hc).
  Qed.
End ProvideExact.

(* ---------- target 2 ---------- *)

Theorem provide_verdict_exact : forall cfg st s0 p r,
  cfg_defer cfg = false -> SInv st -> GN st -> RegRel st r -> s0 < length (st_scopes st) ->
  let cand := mkSCtor (pi_fn p) (pi_sig p) (if pi_export p then 0 else s0) s0 in
  let r' := mkReg (r_parents r) (r_ctors r ++ [cand]) (r_decs r) in
  let svc := existsb (fun a => negb (acyclicb (view_graph r' a (r_ctors r')))) (subtree_of r (sc_home cand)) in
  fst (provide cfg st s0 p) = VErr err_dup \/
  fst (provide cfg st s0 p) = VErr err_noresults \/
  (fst (provide cfg st s0 p) = VErr err_provide_cycle /\ svc = true /\
   acyclicb (perm_graph r' (all_vertices r')) = false) \/
  (fst (provide cfg st s0 p) = VOk /\ svc = false).
Proof.
  intros cfg st s0 p r Hd HS HG HR Hs0 cand r' svc.
  pose proof (provide_unf st s0 p cfg) as Hu. cbv zeta in Hu.
  match type of Hu with _ = if ?c then _ else _ => destruct c eqn:Edup end.
  { left. rewrite Hu. reflexivity. }
  match type of Hu with _ = if ?c then _ else _ => destruct c eqn:Enil end.
  { right; left. rewrite Hu. reflexivity. }
  right; right.
  exact (provide_verdict_exact_sec st s0 p r HS Hs0 HG HR Edup Enil cfg Hd).
Qed.
Print Assumptions provide_verdict_exact.

(* the same as an equivalence, for a Provide that is not rejected earlier *)
Corollary provide_cycle_iff : forall cfg st s0 p r,
  cfg_defer cfg = false -> SInv st -> GN st -> RegRel st r -> s0 < length (st_scopes st) ->
  fst (provide cfg st s0 p) <> VErr err_dup -> fst (provide cfg st s0 p) <> VErr err_noresults ->
  let cand := mkSCtor (pi_fn p) (pi_sig p) (if pi_export p then 0 else s0) s0 in
  let r' := mkReg (r_parents r) (r_ctors r ++ [cand]) (r_decs r) in
  (fst (provide cfg st s0 p) = VErr err_provide_cycle <->
   existsb (fun a => negb (acyclicb (view_graph r' a (r_ctors r')))) (subtree_of r (sc_home cand)) = true) /\
  (fst (provide cfg st s0 p) = VOk <->
   existsb (fun a => negb (acyclicb (view_graph r' a (r_ctors r')))) (subtree_of r (sc_home cand)) = false).
Proof.
  intros cfg st s0 p r Hd HS HG HR Hs0 N1 N2 cand r'.
  destruct (provide_verdict_exact cfg st s0 p r Hd HS HG HR Hs0) as [E|[E|[(E & Hsvc & _)|(E & Hsvc)]]];
    try contradiction; cbv zeta in Hsvc; fold cand r' in Hsvc; rewrite E, Hsvc;
    split; split; intros H; try reflexivity; discriminate.
Qed.
Print Assumptions provide_cycle_iff.

(* ================================================================== *)
(* Part 5 : the run-time guard of constructorNode.Call                  *)
(* ================================================================== *)

(* ---------- the build order only mentions declared leaves ---------- *)

Lemma build_order_range : forall p off i, In i (build_order off p) -> off <= i < off + nleaves p.
Proof.
  fix IH 1. intros [k o|k s|fs] off i H.
  - cbn in H. destruct H as [<-|[]]. unfold nleaves. cbn. lia.
  - cbn in H. destruct H as [<-|[]]. unfold nleaves. cbn. lia.
  - unfold nleaves. cbn [build_order decl_leaves] in *.
    set (go := fix go (off : nat) (l : list param) {struct l} : list nat * list nat :=
                  match l with
                  | [] => ([], [])
                  | f :: t =>
                      let r := go (off + nleaves f) t in
                      if is_soft_group f then (fst r, off :: snd r)
                      else (build_order off f ++ fst r, snd r)
                  end) in *.
    set (dl := fix go (l : list param) : list pleaf :=
                  match l with [] => [] | x :: t => decl_leaves x ++ go t end).
    assert (Hgo : forall off i, In i (fst (go off fs)) \/ In i (snd (go off fs)) -> off <= i < off + length (dl fs)).
    { clear H off i. induction fs as [|f t IHt]; intros off i H.
      - cbn in H. destruct H as [[]|[]].
      - cbn [go dl] in H |- *. rewrite app_length. fold (nleaves f).
        set (r := go (off + nleaves f) t) in *.
        assert (Hr : In i (fst r) \/ In i (snd r) -> off + nleaves f <= i < off + nleaves f + length (dl t))
          by (apply IHt).
        destruct (is_soft_group f) eqn:Es; cbn [fst snd] in H.
        + destruct f as [| k [|] |]; try discriminate. unfold nleaves in *. cbn in *.
          destruct H as [H|[<-|H]]; [specialize (Hr (or_introl H)); lia | lia | specialize (Hr (or_intror H)); lia].
        + destruct H as [H|H].
          * apply in_app_iff in H. destruct H as [H|H].
            -- apply IH in H. lia.
            -- specialize (Hr (or_introl H)). lia.
          * specialize (Hr (or_intror H)). lia. }
    apply Hgo. apply in_app_iff in H. exact H.
Qed.

Lemma build_order_list_range : forall ps off i, In i (build_order_list off ps) ->
  off <= i < off + length (decl_leaves_list ps).
Proof.
  induction ps as [|p t IH]; intros off i H; cbn [build_order_list decl_leaves_list] in *; [destruct H|].
  rewrite app_length. fold (nleaves p). apply in_app_iff in H. destruct H as [H|H].
  - apply build_order_range in H. lia.
  - apply IH in H. lia.
Qed.

Lemma build_seq_In : forall sg l, In l (sig_build_seq sg) -> In l (sig_leaves sg).
Proof.
  intros sg l H. unfold sig_build_seq in H. apply in_map_iff in H. destruct H as (i & <- & Hi).
  unfold sig_order in Hi. apply build_order_list_range in Hi. apply nth_In. unfold sig_leaves. lia.
Qed.

(* ---------- two more static invariants ---------- *)

(* a constructor's results live in the scope it was provided to, or in the root (Export) *)
Definition HO (st : state) : Prop :=
  forall n, n < length (st_nodes st) ->
    c_home (get_node st n) = c_orig (get_node st n) \/ c_home (get_node st n) = 0.

(* decorator functions are pairwise distinct *)
Definition DF (st : state) : Prop := NoDup (map d_fn (st_decs st)).

Lemma DF_skel : forall st st', skel st = skel st' -> DF st -> DF st'.
Proof.
  intros st st' E H. unfold DF in *.
  assert (E2 : map d_fn (st_decs st) = map d_fn (st_decs st')).
  { apply (f_equal st_decs) in E. cbn [skel st_decs] in E.
    apply (f_equal (map d_fn)) in E. rewrite !map_map in E. exact E. }
  rewrite <- E2. exact H.
Qed.

Lemma HO_skel : forall st st', skel st = skel st' -> HO st -> HO st'.
Proof.
  intros st st' E H n Hn. apply skel_eq_fields in E. destruct E.
  rewrite <- sf_chome, <- sf_corig. apply H. lia.
Qed.

Lemma find_provider_in : forall st k bs s ns, find_provider st bs k = PProv s ns -> In s bs.
Proof.
  intros st k bs; induction bs as [|a bs IH]; intros s ns; cbn [find_provider]; [discriminate|].
  destruct (alookup key_eqb k (s_values (get_scope st a))); [discriminate|].
  destruct (providers_at st a k) as [|n0 ns0].
  - intros H. right. eapply IH; eauto.
  - intros H. injection H as <- _. left; reflexivity.
Qed.

Lemma find_dec_full : forall st v k d s, find_dec st v k = Some (d, s) ->
  In s (path st v) /\ alookup key_eqb k (s_decorators (get_scope st s)) = Some d /\
  d_state (get_dec st d) <> DOnStack.
Proof.
  intros st v k d s H. pose proof (find_dec_inv st v k d s H) as [H1 H2].
  split; [|split; assumption].
  unfold find_dec in H. apply P_Once.find_map_some in H. destruct H as (x & Hx & H).
  destruct (alookup key_eqb k (s_decorators (get_scope st x))) as [d'|]; [|discriminate].
  destruct (dstate_eqb _ _); [discriminate|]. injection H as _ <-. exact Hx.
Qed.

Definition cyc_err (o : res (list arg)) : Prop := exists e, o = Fail e /\ e_root e = RCycle.

Section Guard.
  Variable r : registry.

  Definition PGr : graph := perm_graph r (all_vertices r).

  Definition SI (st : state) : Prop := G st /\ RegRel st r /\ DF st /\ HO st.

  (* every constructor on the resolution stack reaches vertex w in the permissive graph *)
  Definition Reach (st : state) (w : nat) : Prop :=
    forall m, m < length (st_nodes st) -> c_onstack (get_node st m) = true -> tc (edge PGr) m w.

  (* the vertices resolution may call for key k from view v *)
  Inductive Cand (st : state) (v : sid) (k : key) : nat -> Prop :=
  | cand_ctor : forall n, In n (providers_on_path st v k) -> Cand st v k n
  | cand_dec : forall d bsc, In bsc (path st v) ->
      alookup key_eqb k (s_decorators (get_scope st bsc)) = Some d ->
      d_state (get_dec st d) <> DOnStack -> Cand st v k (length (st_nodes st) + d).

  Definition PreLeaf (st : state) (v : sid) (l : pleaf) : Prop :=
    forall w, Cand st v (pleaf_key l) w -> Reach st w.

  Definition Pre (t : task) (st : state) : Prop :=
    match t with
    | TLeaf v l => PreLeaf st v l
    | TLeaves v ls => forall l, In l ls -> PreLeaf st v l
    | TCallCtor n => Reach st n
    | TCallDec d => Reach st (length (st_nodes st) + d)
    end.

  Definition PC (t : task) (st : state) (o : out) : Prop :=
    tpre t st -> SI st -> Pre t st -> cyc_err (fst o) -> cyclic PGr.

  (* ---------- frames ---------- *)

  Lemma SI_frame : forall st st1, pres st st1 -> G st1 -> SI st -> SI st1.
  Proof.
    intros st st1 Hp HG1 (_ & HR & HD & HH). destruct Hp as [E V].
    split; [exact HG1|]. split; [apply (RegRel_pres st st1 r (conj E V) HR)|].
    split; [apply (DF_skel st st1); [symmetry; exact E | exact HD] | apply (HO_skel st st1); [symmetry; exact E | exact HH]].
  Qed.

  Lemma Reach_frame : forall st st1 w, pres st st1 -> TR st st1 -> (Reach st w <-> Reach st1 w).
  Proof.
    intros st st1 w Hp (A & _ & _). destruct (pres_lens _ _ Hp) as (LN & _ & _).
    split; intros H m Hm Ho.
    - apply H; [rewrite <- LN; exact Hm | rewrite <- A; exact Ho].
    - apply H; [rewrite LN; exact Hm | rewrite A; exact Ho].
  Qed.

  Lemma pres_path : forall st st1 v, pres st st1 -> path st1 v = path st v.
  Proof.
    intros st st1 v [E _]. apply skel_eq_fields in E. destruct E. unfold path. rewrite sf_len.
    apply path_fuel_parents. exact sf_parent.
  Qed.

  Lemma pres_pop : forall st st1 v k, pres st st1 -> providers_on_path st1 v k = providers_on_path st v k.
  Proof. intros st st1 v k [E _]. apply graph_same_pop. apply skel_graph_same. exact E. Qed.

  Lemma Cand_frame : forall st st1 v k w, pres st st1 -> TR st st1 -> Cand st1 v k w -> Cand st v k w.
  Proof.
    intros st st1 v k w Hp (_ & B & _) H. destruct (pres_lens _ _ Hp) as (LN & _ & _).
    destruct H as [n Hn|d bsc Hb Ha Hs].
    - apply cand_ctor. rewrite <- (pres_pop st st1 v k Hp). exact Hn.
    - rewrite LN. apply (cand_dec st v k d bsc).
      + rewrite <- (pres_path st st1 v Hp). exact Hb.
      + destruct Hp as [E _]. apply skel_eq_fields in E. destruct E. rewrite <- sf_decorators. exact Ha.
      + intros H. apply Hs. apply B. exact H.
  Qed.

  Lemma PreLeaf_frame : forall st st1 v l, pres st st1 -> TR st st1 -> PreLeaf st v l -> PreLeaf st1 v l.
  Proof.
    intros st st1 v l Hp HT H w Hc. apply (Reach_frame st st1 w Hp HT). apply H.
    eapply Cand_frame; eauto.
  Qed.

  (* ---------- a call is an edge of the permissive graph ---------- *)

  Lemma cmp_ctor : forall st n h, SI st -> n < length (st_nodes st) ->
    In h (path st (c_orig (get_node st n))) -> comparable r (c_home (get_node st n)) h = true.
  Proof.
    intros st n h (((HT & HB) & _) & HR & _ & HH) Hn Hh.
    apply (comparable_path st r _ _ HR).
    destruct (HH n Hn) as [E|E]; rewrite E.
    - right. exact Hh.
    - left. destruct (bi_node_home HB n Hn) as [_ Ho].
      pose proof (path_in_range st _ h HT Ho Hh) as Hl.
      unfold path. apply path_reaches_root; assumption.
  Qed.

  Lemma cand_edge_ctor : forall st n l w, SI st -> n < length (st_nodes st) ->
    In l (leaves_of st n) -> Cand st (c_orig (get_node st n)) (pleaf_key l) w -> edge PGr n w.
  Proof.
    intros st n l w HSI Hn Hl Hc.
    pose proof HSI as ((HS & HK & _) & HR & _ & _).
    unfold PGr. rewrite perm_graph_leafsel. apply leafsel_edge.
    destruct Hc as [n' Hn'|d bsc Hb Ha Hs].
    - apply (providers_on_path_In st r _ _ n' HR) in Hn'. destruct Hn' as (Hn'l & Hh & Hk).
      exists (VC (node_sctor st n)), (VC (node_sctor st n')), l.
      split; [apply (all_vertices_ctor st r n HR Hn)|].
      split; [apply (all_vertices_ctor st r n' HR Hn'l)|].
      split; [exact Hl|].
      cbn [vertex_offers vertex_home is_self_decoration negb]. rewrite andb_true_r.
      apply andb_true_iff. split; [apply offers_In; exact Hk|].
      apply (cmp_ctor st n _ HSI Hn Hh).
    - pose proof (dec_range st bsc _ d HS Ha) as Hd.
      destruct (ki_dec HK _ _ _ Ha) as [Hhome Hkeys].
      exists (VC (node_sctor st n)), (VD (node_sdec st d)), l.
      split; [apply (all_vertices_ctor st r n HR Hn)|].
      split; [apply (all_vertices_dec st r d HR Hd)|].
      split; [exact Hl|].
      cbn [vertex_offers vertex_home is_self_decoration negb]. rewrite andb_true_r.
      apply andb_true_iff. split.
      + unfold decorates. apply memb_key_In. exact Hkeys.
      + cbn [node_sdec sdec_of sd_home]. rewrite Hhome. apply (cmp_ctor st n _ HSI Hn Hb).
  Qed.

  Lemma cand_edge_dec : forall st d l w, SI st -> d < length (st_decs st) ->
    d_state (get_dec st d) = DOnStack ->
    In l (sig_leaves (d_sig (get_dec st d))) ->
    Cand st (d_home (get_dec st d)) (pleaf_key l) w -> edge PGr (length (st_nodes st) + d) w.
  Proof.
    intros st d l w HSI Hd Hon Hl Hc.
    pose proof HSI as ((HS & HK & _) & HR & HD & _).
    unfold PGr. rewrite perm_graph_leafsel. apply leafsel_edge.
    destruct Hc as [n' Hn'|d' bsc Hb Ha Hs].
    - apply (providers_on_path_In st r _ _ n' HR) in Hn'. destruct Hn' as (Hn'l & Hh & Hk).
      exists (VD (node_sdec st d)), (VC (node_sctor st n')), l.
      split; [apply (all_vertices_dec st r d HR Hd)|].
      split; [apply (all_vertices_ctor st r n' HR Hn'l)|].
      split; [exact Hl|].
      cbn [vertex_offers vertex_home is_self_decoration negb]. rewrite andb_true_r.
      apply andb_true_iff. split; [apply offers_In; exact Hk|].
      apply (comparable_path st r _ _ HR). right. exact Hh.
    - pose proof (dec_range st bsc _ d' HS Ha) as Hd'.
      destruct (ki_dec HK _ _ _ Ha) as [Hhome Hkeys].
      exists (VD (node_sdec st d)), (VD (node_sdec st d')), l.
      split; [apply (all_vertices_dec st r d HR Hd)|].
      split; [apply (all_vertices_dec st r d' HR Hd')|].
      split; [exact Hl|].
      cbn [vertex_offers vertex_home is_self_decoration].
      apply andb_true_iff. split; [apply andb_true_iff; split|].
      + unfold decorates. apply memb_key_In. exact Hkeys.
      + cbn [node_sdec sdec_of sd_home]. rewrite Hhome.
        apply (comparable_path st r _ _ HR). right. exact Hb.
      + apply negb_true_iff. apply Nat.eqb_neq. cbn [node_sdec sdec_of sd_fn]. intros E.
        assert (Hne : d <> d') by (intros ->; apply Hs; exact Hon).
        apply Hne. unfold DF in HD.
        rewrite (NoDup_nth (map d_fn (st_decs st)) (d_fn dummy_dnode)) in HD.
        apply HD; rewrite ?map_length; auto. rewrite !map_nth. exact E.
  Qed.

  (* ---------- one unfolding of evalF ---------- *)

  Variables (cfg : config) (b : beh) (du : dur).
  Variable rec : task -> state -> out.
  Hypothesis HPT : forall t st, PT t st (rec t st).
  Hypothesis IH : forall t st, PC t st (rec t st).

  Let IHp : forall t st, pres st (snd (rec t st)) := fun t st => proj1 (HPT t st).

  Lemma rec_frame : forall t st, tpre t st -> SI st ->
    pres st (snd (rec t st)) /\ TR st (snd (rec t st)) /\ SI (snd (rec t st)).
  Proof.
    intros t st Hpre HSI. destruct (HPT t st) as [Hp H]. pose proof HSI as (HG & _).
    destruct (H Hpre HG) as (G1 & T1 & _).
    split; [exact Hp|]. split; [exact T1|]. apply (SI_frame st _ Hp G1 HSI).
  Qed.

  Lemma C_call_ctors : forall ns st, SI st ->
    (forall n, In n ns -> n < length (st_nodes st) /\ Reach st n) ->
    forall c e, fst (call_ctors rec ns st) = LFail c e -> e_root e = RCycle -> cyclic PGr.
  Proof.
    induction ns as [|n t IHn]; intros st HSI Hns c e; cbn [call_ctors]; [discriminate|].
    destruct (Hns n (or_introl eq_refl)) as [Hn Hr].
    pose proof (rec_frame (TCallCtor n) st Hn HSI) as (Hp & HT & HSI1).
    pose proof (IH (TCallCtor n) st Hn HSI Hr) as Hc.
    destruct (rec (TCallCtor n) st) as [[x|e'|a] st1]; cbn [fst snd] in *.
    - apply IHn; [exact HSI1|]. intros m Hm. destruct (Hns m (or_intror Hm)) as [Hm1 Hm2].
      split; [rewrite (proj1 (pres_lens _ _ Hp)); exact Hm1 | apply (Reach_frame st st1 _ Hp HT); exact Hm2].
    - intros [= <- <-] Hroot. apply Hc. exists e'. auto.
    - discriminate.
  Qed.

  Lemma C_call_group_decs k : forall bs st, SI st ->
    (forall bsc d, In bsc bs -> alookup key_eqb k (s_decorators (get_scope st bsc)) = Some d ->
                   d_state (get_dec st d) <> DOnStack -> Reach st (length (st_nodes st) + d)) ->
    forall c e, fst (call_group_decs rec k bs st) = LFail c e -> e_root e = RCycle -> cyclic PGr.
  Proof.
    induction bs as [|s t IHb]; intros st HSI Hbs c e; cbn [call_group_decs]; [discriminate|].
    assert (Htl : forall bsc d, In bsc t -> alookup key_eqb k (s_decorators (get_scope st bsc)) = Some d ->
                   d_state (get_dec st d) <> DOnStack -> Reach st (length (st_nodes st) + d))
      by (intros bsc d Hin; apply Hbs; right; exact Hin).
    destruct (alookup key_eqb k (s_decorators (get_scope st s))) as [d|] eqn:E; [|apply IHb; assumption].
    destruct (dstate_eqb (d_state (get_dec st d)) DOnStack) eqn:E2; [apply IHb; assumption|].
    apply P_Once.dstate_eqb_false in E2.
    pose proof HSI as ((HS & _) & _).
    assert (Hpre : tpre (TCallDec d) st) by (split; [eapply dec_range; eauto | exact E2]).
    pose proof (rec_frame (TCallDec d) st Hpre HSI) as (Hp & HT & HSI1).
    pose proof (IH (TCallDec d) st Hpre HSI (Hbs s d (or_introl eq_refl) E E2)) as Hc.
    destruct (rec (TCallDec d) st) as [[x|e'|a] st1]; cbn [fst snd] in *.
    - apply IHb; [exact HSI1|]. intros bsc d' Hin Ha Hs.
      destruct (pres_lens _ _ Hp) as (LN & _ & _). rewrite LN.
      apply (Reach_frame st st1 _ Hp HT). apply (Htl bsc d' Hin).
      + destruct Hp as [Ek _]. apply skel_eq_fields in Ek. destruct Ek. rewrite <- sf_decorators. exact Ha.
      + intros H. apply Hs. apply HT. exact H.
    - intros [= <- <-] Hroot. apply Hc. exists e'. auto.
    - discriminate.
  Qed.

  Lemma C_build_list v : forall ls st, SI st -> forallb leaf_ok ls = true ->
    (forall l, In l ls -> PreLeaf st v l) -> cyc_err (fst (build_list rec v ls st)) -> cyclic PGr.
  Proof.
    induction ls as [|l t IHl]; intros st HSI Hok Hpre; cbn [build_list].
    - intros (e & H & _). discriminate.
    - cbn [forallb] in Hok. apply andb_true_iff in Hok as [Hl Ht].
      pose proof (rec_frame (TLeaf v l) st Hl HSI) as (Hp & HT & HSI1).
      pose proof (IH (TLeaf v l) st Hl HSI (Hpre l (or_introl eq_refl))) as Hc.
      destruct (rec (TLeaf v l) st) as [[a|e'|ab] st1]; cbn [fst snd] in *.
      + assert (H1 : cyc_err (fst (build_list rec v t st1)) -> cyclic PGr).
        { apply IHl; [exact HSI1 | exact Ht|]. intros l' Hin.
          apply (PreLeaf_frame st st1 v l' Hp HT). apply Hpre. right; exact Hin. }
        destruct (build_list rec v t st1) as [[r2|e2|a2] st2]; cbn [fst] in *.
        * intros (e & H & _). discriminate.
        * exact H1.
        * exact H1.
      + exact Hc.
      + intros (e & H & _). discriminate.
  Qed.

  Lemma C_build_single v k opt st : SI st -> PreLeaf st v (LSingle k opt) ->
    cyc_err (fst (build_single rec v k opt st)) -> cyclic PGr.
  Proof.
    intros HSI Hpre. unfold build_single. pose proof HSI as ((HS & _) & _).
    destruct (find_dec st v k) as [[d bsc]|] eqn:EF.
    - apply find_dec_full in EF. destruct EF as (Hb & Ha & Hs).
      assert (Hpd : tpre (TCallDec d) st) by (split; [eapply dec_range; eauto | exact Hs]).
      pose proof (IH (TCallDec d) st Hpd HSI (Hpre _ (cand_dec st v k d bsc Hb Ha Hs))) as Hc.
      destruct (rec (TCallDec d) st) as [[x|e'|a] st1]; cbn [fst snd] in *.
      + destruct (alookup key_eqb k (s_dvalues (get_scope st1 bsc))); intros (e & H & _); discriminate.
      + intros (e & H & Hr). cbn [fst] in H. injection H as <-. apply Hc. exists e'. split; [reflexivity | exact Hr].
      + intros (e & H & _). discriminate.
    - destruct (find_map _ (path st v)); [intros (e & H & _); discriminate|].
      destruct (find_provider st (path st v) k) as [a|bsc ns|] eqn:EP.
      + intros (e & H & _). discriminate.
      + pose proof (find_provider_PProv _ _ _ _ _ EP) as Ens.
        pose proof (find_provider_in _ _ _ _ _ EP) as Hb.
        assert (Hns : forall n, In n ns -> n < length (st_nodes st) /\ Reach st n).
        { intros n Hn. rewrite Ens in Hn.
          assert (Hpop : In n (providers_on_path st v k)).
          { unfold providers_on_path. apply in_flat_map. exists bsc. split; assumption. }
          split; [eapply pop_bound; [apply HS | exact Hpop] | apply Hpre; apply cand_ctor; exact Hpop]. }
        pose proof (C_call_ctors ns st HSI Hns) as Hc.
        destruct (call_ctors rec ns st) as [[|c e|a] st1]; cbn [fst snd] in *.
        * destruct (alookup key_eqb k (s_values (get_scope st1 bsc))); intros (e & H & _); discriminate.
        * destruct (opt && has_missingdeps e).
          -- intros (e0 & H & _). discriminate.
          -- intros (e0 & H & Hr). cbn [fst] in H. injection H as <-.
             apply (Hc c e eq_refl). exact Hr.
        * intros (e & H & _). discriminate.
      + destruct opt; intros (e & H & Hr); cbn [fst] in H; [discriminate|].
        injection H as <-. cbn in Hr. discriminate.
  Qed.

  Lemma C_build_group v k soft st : SI st -> PreLeaf st v (LGroup k soft) ->
    cyc_err (fst (build_group rec v k soft st)) -> cyclic PGr.
  Proof.
    intros HSI Hpre. unfold build_group. pose proof HSI as (HG & _).
    assert (Hbs : forall bsc d, In bsc (rev (path st v)) ->
              alookup key_eqb k (s_decorators (get_scope st bsc)) = Some d ->
              d_state (get_dec st d) <> DOnStack -> Reach st (length (st_nodes st) + d)).
    { intros bsc d Hin Ha Hs. apply Hpre. apply (cand_dec st v k d bsc); auto. apply in_rev. exact Hin. }
    pose proof (C_call_group_decs k (rev (path st v)) st HSI Hbs) as Hc.
    pose proof (pres_call_group_decs rec IHp k (rev (path st v)) st) as Hp.
    destruct (T_call_group_decs rec HPT k (rev (path st v)) st HG) as (G1 & T1 & _).
    destruct (call_group_decs rec k (rev (path st v)) st) as [[|c e|a] st1]; cbn [fst snd] in *.
    - destruct (find_map _ (path st1 v)); [intros (e & H & _); discriminate|].
      destruct soft; [intros (e & H & _); discriminate|].
      pose proof (SI_frame st st1 Hp G1 HSI) as HSI1.
      assert (Hns : forall n, In n (providers_on_path st1 v k) -> n < length (st_nodes st1) /\ Reach st1 n).
      { intros n Hn. split; [eapply pop_bound; [apply G1 | exact Hn]|].
        apply (Reach_frame st st1 n Hp T1). apply Hpre. apply cand_ctor. cbn [pleaf_key].
        rewrite <- (pres_pop st st1 v k Hp). exact Hn. }
      pose proof (C_call_ctors _ st1 HSI1 Hns) as Hc2.
      destruct (call_ctors rec (providers_on_path st1 v k) st1) as [[|c e|a] st2]; cbn [fst snd] in *.
      + intros (e & H & _). discriminate.
      + intros (e0 & H & Hr). injection H as <-. apply (Hc2 c e eq_refl). exact Hr.
      + intros (e & H & _). discriminate.
    - intros (e0 & H & Hr). injection H as <-. apply (Hc c e eq_refl). exact Hr.
    - intros (e & H & _). discriminate.
  Qed.

  Lemma C_call_ctor n st : PC (TCallCtor n) st (call_ctor cfg b du rec n st).
  Proof.
    intros Hn HSI Hr. cbn [tpre] in Hn. cbn [Pre] in Hr. unfold call_ctor.
    destruct (c_called (get_node st n)); [intros (e & H & _); discriminate|].
    destruct (c_onstack (get_node st n)) eqn:Eo.
    { (* the guard fires: n reaches itself *)
      intros _. apply cyclic_tc. exists n. apply Hr; assumption. }
    set (c := get_node st n).
    set (st0 := set_onstack st n true).
    destruct (shallow_missing st0 (c_orig c) (sig_leaves (c_sig c))) as [|k0 ks].
    2:{ intros (e & H & Hroot). cbn [fst] in H. injection H as <-. cbn in Hroot. discriminate. }
    pose proof HSI as (HG & _).
    pose proof (pres_set_onstack st n true) as Hp0. fold st0 in Hp0.
    pose proof (SI_frame st st0 Hp0 (G_push_node st n HG) HSI) as HSI0.
    pose proof HSI0 as ((_ & HK0 & _) & _).
    assert (Hsk : skel_fields st st0) by (apply skel_eq_fields; symmetry; apply Hp0).
    assert (Hn0 : n < length (st_nodes st0)) by (rewrite <- (sf_nlen _ _ Hsk); exact Hn).
    assert (Hpre0 : tpre (TLeaves (c_orig c) (sig_build_seq (c_sig c))) st0).
    { cbn [tpre]. apply wf_sig_build_seq. unfold c. rewrite (sf_csig _ _ Hsk). apply (ki_nsig HK0). }
    assert (HP0 : Pre (TLeaves (c_orig c) (sig_build_seq (c_sig c))) st0).
    { intros l Hl w Hc m Hm Hon.
      apply build_seq_In in Hl.
      assert (He : edge PGr n w).
      { apply (cand_edge_ctor st0 n l w HSI0 Hn0).
        - unfold leaves_of. rewrite <- (sf_csig _ _ Hsk). exact Hl.
        - rewrite <- (sf_corig _ _ Hsk). exact Hc. }
      destruct (Nat.eq_dec m n) as [->|Hne]; [apply tc1; exact He|].
      eapply tc_snoc; [|exact He]. apply Hr.
      - rewrite (sf_nlen _ _ Hsk). exact Hm.
      - unfold st0 in Hon. rewrite onstack_set_other in Hon by exact Hne. exact Hon. }
    pose proof (IH _ st0 Hpre0 HSI0 HP0) as Hc.
    destruct (rec (TLeaves (c_orig c) (sig_build_seq (c_sig c))) st0) as [[built|e'|a] st1]; cbn [fst snd] in *.
    - destruct (run_fn cfg b du RoleCtor (c_fn c) (place (sig_order (c_sig c)) built) st1) as [[o ex] st2].
      destruct o as [lens| |]; [| |destruct (cfg_recover cfg)];
        intros (e & H & Hroot); cbn [fst] in H; try discriminate; injection H as <-; cbn in Hroot; discriminate.
    - intros (e & H & Hroot). cbn [fst] in H. injection H as <-. apply Hc. exists e'. split; [reflexivity|exact Hroot].
    - intros (e & H & _). discriminate.
  Qed.

  Lemma C_call_dec d st : PC (TCallDec d) st (call_dec cfg b du rec d st).
  Proof.
    intros [Hd Hs] HSI Hr. cbn [Pre] in Hr. unfold call_dec.
    destruct (dstate_eqb (d_state (get_dec st d)) DCalled); [intros (e & H & _); discriminate|].
    set (dn := get_dec st d).
    set (st0 := set_dstate st d DOnStack).
    destruct (shallow_missing st0 (d_home dn) (sig_leaves (d_sig dn))) as [|k0 ks].
    2:{ intros (e & H & Hroot). cbn [fst] in H. injection H as <-. cbn in Hroot. discriminate. }
    pose proof HSI as (HG & _).
    pose proof (pres_set_dstate st d DOnStack) as Hp0. fold st0 in Hp0.
    pose proof (SI_frame st st0 Hp0 (G_push_dec st d Hd HG) HSI) as HSI0.
    pose proof HSI0 as ((_ & HK0 & _) & _).
    assert (Hsk : skel_fields st st0) by (apply skel_eq_fields; symmetry; apply Hp0).
    assert (Hd0 : d < length (st_decs st0)) by (rewrite <- (sf_dlen _ _ Hsk); exact Hd).
    assert (Hon0 : d_state (get_dec st0 d) = DOnStack) by (apply dstate_set_same; exact Hd).
    assert (Hpre0 : tpre (TLeaves (d_home dn) (sig_build_seq (d_sig dn))) st0).
    { cbn [tpre]. apply wf_sig_build_seq. unfold dn. rewrite (sf_dsig _ _ Hsk). apply (ki_dsig HK0). }
    assert (HP0 : Pre (TLeaves (d_home dn) (sig_build_seq (d_sig dn))) st0).
    { intros l Hl w Hc m Hm Hon.
      apply build_seq_In in Hl.
      assert (He : edge PGr (length (st_nodes st0) + d) w).
      { apply (cand_edge_dec st0 d l w HSI0 Hd0 Hon0).
        - rewrite <- (sf_dsig _ _ Hsk). exact Hl.
        - rewrite <- (sf_dhome _ _ Hsk). exact Hc. }
      eapply tc_snoc; [|exact He]. rewrite <- (sf_nlen _ _ Hsk). apply Hr.
      - rewrite (sf_nlen _ _ Hsk). exact Hm.
      - exact Hon. }
    pose proof (IH _ st0 Hpre0 HSI0 HP0) as Hc.
    destruct (rec (TLeaves (d_home dn) (sig_build_seq (d_sig dn))) st0) as [[built|e'|a] st1]; cbn [fst snd] in *.
    - destruct (run_fn cfg b du RoleDec (d_fn dn) (place (sig_order (d_sig dn)) built) st1) as [[o ex] st2].
      destruct o as [lens| |]; [| |destruct (cfg_recover cfg)];
        intros (e & H & Hroot); cbn [fst] in H; try discriminate; injection H as <-; cbn in Hroot; discriminate.
    - intros (e & H & Hroot). cbn [fst] in H. injection H as <-. apply Hc. exists e'. split; [reflexivity|exact Hroot].
    - intros (e & H & _). discriminate.
  Qed.

  Lemma C_evalF t st : PC t st (evalF cfg b du rec t st).
  Proof.
    destruct t as [v [k opt|k soft]|v ls|n|d]; cbn [evalF].
    - intros _ HSI Hpre. apply C_build_single; assumption.
    - intros _ HSI Hpre. apply C_build_group; assumption.
    - intros Hok HSI Hpre. apply C_build_list; assumption.
    - apply C_call_ctor.
    - apply C_call_dec.
  Qed.
End Guard.

Theorem eval_PC : forall r cfg b du fuel t st, PC r t st (eval cfg b du fuel t st).
Proof.
  intros r cfg b du fuel; induction fuel as [|f IHf]; intros t st.
  - intros _ _ _ (e & H & _). discriminate.
  - cbn [eval]. apply C_evalF; [apply eval_PT | exact IHf].
Qed.
Print Assumptions eval_PC.

(* ---------- target 4 : Invoke ---------- *)

Theorem invoke_cycle_perm : forall cfg b du st r s p e,
  RI st -> RegRel st r -> GN st -> DF st -> HO st ->
  forallb leaf_ok (sig_leaves (ii_sig p)) = true ->
  fst (invoke cfg b du st s p) = VErr e -> e_root e = RCycle ->
  acyclicb (perm_graph r (all_vertices r)) = false.
Proof.
  intros cfg b du st r s p e HRI HR HG HD HH Hl Hv Hroot.
  assert (TAIL : forall st1, RI st1 -> RegRel st1 r -> DF st1 -> HO st1 ->
    fst (match eval cfg b du (eval_fuel st1) (TLeaves s (sig_build_seq (ii_sig p))) st1 with
         | (Fail e, st2) => (VErr (wrap LArgsFailed e), st2)
         | (Abort a, st2) => (VAbort a, st2)
         | (Done built, st2) =>
             let args := place (sig_order (ii_sig p)) built in
             match run_fn cfg b du RoleInv (ii_fn p) args st2 with
             | (OOk _, _, st3) => (VOk, st3)
             | (OErr, e, st3) => (VErr (mkErr [] (RUser (ii_fn p) e)), st3)
             | (OPanic, e, st3) =>
                 if cfg_recover cfg then (VErr (mkErr [] (RPanic (ii_fn p) e)), st3)
                 else (VAbort (APanicked (ii_fn p) e), st3)
             end
         end) = VErr e -> acyclicb (perm_graph r (all_vertices r)) = false).
  { intros st1 (HS1 & HK1 & HV1 & HQ1) HR1 HD1 HH1 H.
    pose proof (eval_PC r cfg b du (eval_fuel st1) (TLeaves s (sig_build_seq (ii_sig p))) st1) as HPC.
    assert (Hcyc : cyc_err (fst (eval cfg b du (eval_fuel st1) (TLeaves s (sig_build_seq (ii_sig p))) st1)) ->
                   acyclicb (perm_graph r (all_vertices r)) = false).
    { intros Hc. apply (acyclicb_false_iff _ (wf_perm_graph r _)). apply HPC; [| |  |exact Hc].
      - cbn [tpre]. apply leaves_build_seq. exact Hl.
      - split; [split; [exact HS1|split; [exact HK1|exact HV1]]|]. split; [exact HR1|]. split; assumption.
      - intros l _ w _ m _ Hon. destruct HQ1 as [Qn _]. rewrite Qn in Hon. discriminate. }
    destruct (eval cfg b du (eval_fuel st1) (TLeaves s (sig_build_seq (ii_sig p))) st1) as [[built|e'|a] st2];
      cbn [fst] in *.
    - cbv zeta in H.
      destruct (run_fn cfg b du RoleInv (ii_fn p) (place (sig_order (ii_sig p)) built) st2) as [[o ex] st3].
      destruct o as [lens| |]; [| |destruct (cfg_recover cfg)]; cbn [fst] in H; try discriminate;
        injection H as <-; cbn in Hroot; discriminate.
    - injection H as <-. apply Hcyc. exists e'. split; [reflexivity | exact Hroot].
    - discriminate. }
  unfold invoke in Hv.
  destruct (shallow_missing st s (sig_leaves (ii_sig p))) as [|k0 ks].
  2:{ cbn [fst] in Hv. injection Hv as <-. cbn in Hroot. discriminate. }
  destruct (s_verified (get_scope st s)).
  - apply (TAIL st HRI HR HD HH). exact Hv.
  - destruct (is_acyclic (scope_graph st s)) as [[[|] c]|] eqn:Ea.
    + assert (Esk : skel st = skel (upd_scope st s (sc_set_verified true)))
        by (symmetry; apply skel_upd_verified).
      apply (TAIL (upd_scope st s (sc_set_verified true))); [| | | |exact Hv].
      * apply RI_set_verified. exact HRI.
      * apply (RegRel_skel st _ r Esk HR).
      * apply (DF_skel st _ Esk HD).
      * apply (HO_skel st _ Esk HH).
    + destruct HRI as ((HT & _) & _). apply (invoke_static_cycle_perm st r s HR HT HG c Ea).
    + cbn [fst] in Hv. discriminate.
Qed.
Print Assumptions invoke_cycle_perm.

(* ================================================================== *)
(* Part 6 : assembly                                                    *)
(* ================================================================== *)

(* ---------- the static invariants along a run ---------- *)

Definition dec_fns_of (h : history) : list fnid :=
  flat_map (fun o => match o with ODecorate _ p => [di_fn p] | _ => [] end) h.

(* the functions passed to Decorate are pairwise distinct *)
Definition wf_dec_fns (h : history) : bool := nodupb Nat.eqb (dec_fns_of h).

Definition DFH (st : state) (h : history) : Prop := NoDup (map d_fn (st_decs st) ++ dec_fns_of h).

Lemma DFH_DF : forall st h, DFH st h -> DF st.
Proof. intros st h H. unfold DFH in H. apply P_Once.NoDup_app_l in H. exact H. Qed.

Lemma skel_dec_fns : forall st st', skel st = skel st' -> map d_fn (st_decs st) = map d_fn (st_decs st').
Proof.
  intros st st' E. apply (f_equal st_decs) in E. cbn [skel st_decs] in E.
  apply (f_equal (map d_fn)) in E. rewrite !map_map in E. exact E.
Qed.

Lemma DFH_step : forall cfg b du st o h, DFH st (o :: h) -> DFH (snd (step cfg b du st o)) h.
Proof.
  intros cfg b du st [q|s q|s q|s q|k s f] h H; unfold DFH in *; cbn [step snd dec_fns_of flat_map app] in *.
  - exact H.
  - destruct (provide cfg st s q) as [v st'] eqn:E. cbn [snd]. apply provide_aux in E.
    unfold aux in E. injection E as E _ _ _ _. rewrite E. exact H.
  - fold (dec_fns_of h) in H. unfold decorate.
    destruct (negb _ || existsb _ _); cbn [snd].
    + apply NoDup_remove_1 in H. exact H.
    + cbn [upd_scope set_scopes set_decs st_decs]. rewrite map_app, <- app_assoc. exact H.
  - rewrite (skel_dec_fns _ _ (invoke_skel cfg b du st s q)). exact H.
  - exact H.
Qed.

Lemma HO_step : forall cfg b du st o,
  SInv st -> op_ok (length (st_scopes st)) o = true -> HO st -> HO (snd (step cfg b du st o)).
Proof.
  intros cfg b du st [q|s q|s q|s q|k s f] HS Hok H; cbn [step snd op_ok] in *.
  - exact H.
  - apply Nat.ltb_lt in Hok. destruct (provide cfg st s q) as [[|e|a] st'] eqn:E; cbn [snd].
    + pose proof (provide_target_lt st s q HS Hok) as Hs.
      destruct (provide_ok_shape cfg st s q st' Hs E) as (Hn & _).
      intros n Hlt. rewrite Hn, app_length in Hlt. cbn [length] in Hlt. unfold get_node. rewrite Hn.
      destruct (Nat.eq_dec n (length (st_nodes st))) as [->|Hne].
      * rewrite nth_middle. unfold P_Once.new_node. cbn [c_home c_orig].
        destruct (pi_export q); [right | left]; reflexivity.
      * rewrite app_nth1 by lia. apply H. lia.
    + apply (HO_skel st st'); [|exact H]. apply sbv_skel. eapply provide_rejected_frame_gen; eauto.
    + exfalso. eapply provide_never_aborts; eauto.
  - unfold decorate. destruct (negb _ || existsb _ _); cbn [snd]; exact H.
  - apply (HO_skel st); [symmetry; apply invoke_skel | exact H].
  - exact H.
Qed.

(* ---------- one operation ---------- *)

Lemma root_cycle : forall e, rkind_of (e_root e) = QCycle -> e_root e = RCycle.
Proof. intros [ls [ks| | | |f x|f x|]]; cbn; intros H; try discriminate; reflexivity. Qed.

Lemma is_cycle_verdict_inv : forall v, is_cycle_verdict (overdict_of v) = true ->
  exists e, v = VErr e /\ e_root e = RCycle.
Proof.
  intros [|e|[f x|c|]]; cbn; intros H; try discriminate.
  exists e. split; [reflexivity|]. apply root_cycle. destruct (rkind_of (e_root e)); try discriminate. reflexivity.
Qed.

Lemma chk_cycle_op_nil : forall cfg b du st o r evs,
  RI st -> GN st -> HO st -> (match o with OInvoke _ _ => DF st | _ => True end) -> RegRel st r ->
  op_ok (length (st_scopes st)) o = true -> op_keys_ok o = true ->
  chk_cycle_op (cfg_defer cfg) r o (mkOObs (overdict_of (fst (step cfg b du st o))) evs) = [].
Proof.
  intros cfg b du st o r evs HRI HG HH HD HR Hok Hk.
  destruct (step_RI cfg b du st o Hok Hk HRI) as [_ Hvok].
  unfold chk_cycle_op. rewrite (vok_no_crash _ evs Hvok). cbn [app oo_verdict].
  pose proof HRI as (HS & _).
  destruct o as [q|s q|s q|s q|k s f]; cbn [step fst] in *.
  - reflexivity.
  - (* Provide *)
    apply Nat.ltb_lt in Hok.
    destruct (cfg_defer cfg) eqn:Ed.
    + cbn [orb]. destruct (is_cycle_verdict _) eqn:Ec.
      * exfalso. apply is_cycle_verdict_inv in Ec. destruct Ec as (e & Ev & Hroot).
        destruct (provide cfg st s q) as [v st'] eqn:E. cbn [fst] in Ev. subst v.
        destruct (provide_rejected_cases _ _ _ _ _ _ E) as [[-> _]|[[-> _]|(_ & Hf & _)]];
          [cbn in Hroot; discriminate | cbn in Hroot; discriminate | congruence].
      * destruct (accepted _); reflexivity.
    + cbn [orb].
      destruct (provide_verdict_exact cfg st s q r Ed HS HG HR Hok) as [E|[E|[(E & Hsvc & Hperm)|(E & Hsvc)]]];
        rewrite E; cbn [overdict_of is_cycle_verdict err_dup err_noresults err_provide_cycle
                        e_links e_root map lkind_of rkind_of accepted oo_verdict].
      * reflexivity.
      * reflexivity.
      * cbv zeta in Hsvc, Hperm |- *. rewrite Hperm, Hsvc. reflexivity.
      * cbv zeta in Hsvc |- *. rewrite Hsvc. reflexivity.
  - (* Decorate *)
    unfold decorate. destruct (negb _ || existsb _ _); reflexivity.
  - (* Invoke *)
    destruct (is_cycle_verdict _) eqn:Ec; [|reflexivity].
    apply is_cycle_verdict_inv in Ec. destruct Ec as (e & Ev & Hroot).
    cbn [op_keys_ok] in Hk.
    rewrite (invoke_cycle_perm cfg b du st r s q e HRI HR HG HD HH Hk Ev Hroot). reflexivity.
  - reflexivity.
Qed.

(* ---------- target 5 ---------- *)

Definition GW0 (st : state) (h : history) : Prop :=
  RI st /\ GN st /\ HO st /\
  wf_scopes_from (length (st_scopes st)) h = true /\ wf_keys h = true.

Definition GW (st : state) (h : history) : Prop := GW0 st h /\ DFH st h.

Lemma GW0_step : forall cfg b du st o h, GW0 st (o :: h) -> GW0 (snd (step cfg b du st o)) h.
Proof.
  intros cfg b du st o h' (HRI & HG & HH & Hw & Hkk).
  cbn [wf_scopes_from] in Hw. apply andb_true_iff in Hw as [Hok Hw].
  unfold wf_keys in Hkk. cbn [forallb] in Hkk. apply andb_true_iff in Hkk as [Hko Hkk].
  pose proof HRI as (HS & _).
  split; [apply (step_RI cfg b du st o Hok Hko HRI)|].
  split; [apply GN_step; assumption|].
  split; [apply HO_step; assumption|].
  split; [rewrite step_scopes_length; exact Hw | exact Hkk].
Qed.

Lemma GW0_wf : forall st o h, GW0 st (o :: h) ->
  SInv st /\ op_ok (length (st_scopes st)) o = true /\ op_keys_ok o = true.
Proof.
  intros st o h' (HRI & _ & _ & Hw & Hkk).
  cbn [wf_scopes_from] in Hw. apply andb_true_iff in Hw as [Hok Hw].
  unfold wf_keys in Hkk. cbn [forallb] in Hkk. apply andb_true_iff in Hkk as [Hko Hkk].
  split; [apply HRI|]. split; assumption.
Qed.

Lemma GW0_init : forall h, wf_scopes h = true -> wf_keys h = true -> GW0 init_state h.
Proof.
  intros h Hs Hk. split; [apply RI_init|]. split; [apply GN_init|].
  split; [intros n Hn; cbn in Hn; lia|]. split; assumption.
Qed.

Theorem chk_C05_nil : forall cfg b du h,
  wf_scopes h = true -> wf_keys h = true -> wf_dec_fns h = true ->
  chk_C05 cfg h (map obs_of (run cfg b du h)) = [].
Proof.
  intros cfg b du h Hs Hk Hf. apply viols_nil. intros i c Hin. unfold chk_C05, run in Hin.
  apply (walk_run_from_reg cfg b du GW
           (fun r _ o ob => chk_cycle_op (cfg_defer cfg) r o ob) (fun _ => False))
    with (h := h) (st := init_state) (i0 := 0) (r := reg0) (i := i) (c := c).
  - intros st o h' [H0 HD]. split; [apply GW0_step; exact H0 | apply DFH_step; exact HD].
  - intros st o h' [H0 _]. destruct (GW0_wf st o h' H0) as (HS & Hok & _). split; assumption.
  - intros st o h' r new [H0 HD] HR _ c' Hc.
    destruct (GW0_wf st o h' H0) as (_ & Hok & Hko). destruct H0 as (HRI & HG & HH & _).
    assert (HDo : match o with OInvoke _ _ => DF st | _ => True end)
      by (destruct o; try exact I; exact (DFH_DF st _ HD)).
    rewrite (chk_cycle_op_nil cfg b du st o r (rev new) HRI HG HH HDo HR Hok Hko) in Hc. destruct Hc.
  - split; [apply GW0_init; assumption|].
    unfold DFH. cbn [init_state st_decs map app]. apply P_Once.nodupb_NoDup. exact Hf.
  - apply RegRel_init.
  - exact Hin.
Qed.
Print Assumptions chk_C05_nil.

(* without the hypothesis on decorator functions only code 502 can appear,
   and only on an Invoke (see C05Example.bad_violation below) *)
Lemma chk_cycle_op_weak : forall cfg b du st o r evs,
  RI st -> GN st -> HO st -> RegRel st r ->
  op_ok (length (st_scopes st)) o = true -> op_keys_ok o = true ->
  forall c, In c (chk_cycle_op (cfg_defer cfg) r o (mkOObs (overdict_of (fst (step cfg b du st o))) evs)) ->
  c = 502 /\ exists s q, o = OInvoke s q.
Proof.
  intros cfg b du st o r evs HRI HG HH HR Hok Hk c Hc.
  destruct o as [q|s q|s q|s q|k s f].
  1: rewrite (chk_cycle_op_nil cfg b du st (OScope q) r evs HRI HG HH I HR Hok Hk) in Hc; destruct Hc.
  1: rewrite (chk_cycle_op_nil cfg b du st (OProvide s q) r evs HRI HG HH I HR Hok Hk) in Hc; destruct Hc.
  1: rewrite (chk_cycle_op_nil cfg b du st (ODecorate s q) r evs HRI HG HH I HR Hok Hk) in Hc; destruct Hc.
  2: rewrite (chk_cycle_op_nil cfg b du st (OBad k s f) r evs HRI HG HH I HR Hok Hk) in Hc; destruct Hc.
  destruct (step_RI cfg b du st _ Hok Hk HRI) as [_ Hvok].
  unfold chk_cycle_op in Hc. rewrite (vok_no_crash _ evs Hvok) in Hc. cbn [app oo_verdict] in Hc.
  destruct (is_cycle_verdict _); [|destruct Hc].
  destruct (negb _); cbn [guardb] in Hc; [destruct Hc|].
  destruct Hc as [<-|[]]. split; [reflexivity|]. eauto.
Qed.

Theorem chk_C05_weak : forall cfg b du h,
  wf_scopes h = true -> wf_keys h = true ->
  forall i c, In (i, c) (chk_C05 cfg h (map obs_of (run cfg b du h))) -> c = 502.
Proof.
  intros cfg b du h Hs Hk i c Hin. unfold chk_C05, run in Hin.
  apply (walk_run_from_reg cfg b du GW0
           (fun r _ o ob => chk_cycle_op (cfg_defer cfg) r o ob) (fun c => c = 502))
    with (h := h) (st := init_state) (i0 := 0) (r := reg0) (i := i) (c := c).
  - intros st o h' H0. apply GW0_step; exact H0.
  - intros st o h' H0. destruct (GW0_wf st o h' H0) as (HS & Hok & _). split; assumption.
  - intros st o h' r new H0 HR _ c' Hc.
    destruct (GW0_wf st o h' H0) as (_ & Hok & Hko). destruct H0 as (HRI & HG & HH & _).
    apply (chk_cycle_op_weak cfg b du st o r (rev new) HRI HG HH HR Hok Hko c' Hc).
  - apply GW0_init; assumption.
  - apply RegRel_init.
  - exact Hin.
Qed.
Print Assumptions chk_C05_weak.

(* P_Once.wf_fns (all function ids distinct) implies the hypothesis used here *)
Lemma NoDup_sub_flat_map : forall (h : history),
  NoDup (P_Once.op_fns h) -> NoDup (dec_fns_of h).
Proof.
  assert (Hincl : forall h f, In f (dec_fns_of h) -> In f (P_Once.op_fns h)).
  { induction h as [|o h IH]; intros f Hf; [destruct Hf|].
    unfold dec_fns_of, P_Once.op_fns in *. cbn [flat_map] in *. apply in_app_iff in Hf. apply in_app_iff.
    destruct Hf as [Hf|Hf]; [left | right; apply IH; exact Hf].
    destruct o; cbn in Hf |- *; try contradiction; exact Hf. }
  induction h as [|o h IH]; intros H; [constructor|].
  unfold dec_fns_of, P_Once.op_fns in *. cbn [flat_map] in *.
  pose proof (P_Once.NoDup_app_r _ _ H) as Hr. specialize (IH Hr).
  destruct o as [q|s q|s q|s q|k s f]; cbn [app P_Once.op_fn] in *; try exact IH.
  constructor; [|exact IH]. inversion H as [|? ? Hn _]; subst. intros Hin. apply Hn.
  apply (Hincl h). exact Hin.
Qed.

Lemma wf_fns_dec_fns : forall h, P_Once.wf_fns h = true -> wf_dec_fns h = true.
Proof.
  intros h H. unfold wf_dec_fns. apply P_Once.nodupb_NoDup in H. apply NoDup_sub_flat_map in H.
  clear -H. induction (dec_fns_of h) as [|x l IH]; [reflexivity|].
  inversion H as [|? ? Hn Hl]; subst. cbn [nodupb]. rewrite (IH Hl), andb_true_r.
  apply negb_true_iff. destruct (memb Nat.eqb x l) eqn:E; [|reflexivity].
  exfalso. apply Hn. apply memb_nat_In. exact E.
Qed.

Corollary chk_C05_ok : forall cfg b du h,
  wf_scopes h = true -> wf_keys h = true -> P_Once.wf_fns h = true ->
  chk_C05 cfg h (map obs_of (run cfg b du h)) = [].
Proof. intros cfg b du h Hs Hk Hf. apply chk_C05_nil; auto. apply wf_fns_dec_fns. exact Hf. Qed.
Print Assumptions chk_C05_ok.

(* ================================================================== *)
(* Examples                                                             *)
(* ================================================================== *)

Module C05Example.
  Definition cfgN : config := mkConfig false false false.   (* verification at Provide *)
  Definition cfgD : config := mkConfig true false false.    (* DeferAcyclicVerification *)
  Definition b0 : beh := fun _ _ => OOk [].
  Definition d0 : dur := fun _ _ => 0%N.

  Definition kA : key := KV 1 0.
  Definition kG : key := KG 2 1.

  (* grandchild: consumes A, feeds group G;  root (later): consumes group G, provides A *)
  Definition pG : provide_in := mkProvideIn 10 (mkSig [PSingle kA false] [RGroup kG false []] false) false false.
  Definition pR : provide_in := mkProvideIn 11 (mkSig [PGroup kG false] [RSingle kA []] false) false false.

  Definition regs : history := [OScope 0; OScope 1; OProvide 2 pG].
  Definition hist : history := regs ++ [OProvide 0 pR].

  Example hist_wf : wf_scopes hist = true /\ wf_keys hist = true /\ wf_dec_fns hist = true.
  Proof. vm_compute. auto. Qed.

  (* the Provide into the root is rejected at once ... *)
  Example rejected :
    map so_verdict (run cfgN b0 d0 hist) = [VOk; VOk; VOk; VErr err_provide_cycle].
  Proof. vm_compute. reflexivity. Qed.

  (* ... because the grandchild's view is cyclic, although the root's own view
     (and the child's) is acyclic: the verdicts per scope 0, 1, 2 of the
     registry extended with the candidate *)
  Definition r_before : registry := reg_after regs (map obs_of (run cfgN b0 d0 regs)).
  Definition r_cand : registry :=
    mkReg (r_parents r_before) (r_ctors r_before ++ [mkSCtor 11 (pi_sig pR) 0 0]) (r_decs r_before).

  Example views : map (fun a => acyclicb (view_graph r_cand a (r_ctors r_cand))) [0; 1; 2] = [true; true; false].
  Proof. vm_compute. reflexivity. Qed.

  (* the same Provide in deferred mode is accepted; the graph holders of the
     resulting state give the same verdicts, scope by scope *)
  Definition st_twin : state := state_after cfgD b0 d0 hist.

  Example twin_accepted : map so_verdict (run cfgD b0 d0 hist) = [VOk; VOk; VOk; VOk].
  Proof. vm_compute. reflexivity. Qed.

  Example holders : map (fun a => acyclicb (scope_graph st_twin a)) [0; 1; 2] = [true; true; false].
  Proof. vm_compute. reflexivity. Qed.

  Example holders_agree :
    map (fun a => acyclicb (scope_graph st_twin a)) [0; 1; 2] =
    map (fun a => acyclicb (view_graph r_cand a (r_ctors r_cand))) [0; 1; 2].
  Proof. vm_compute. reflexivity. Qed.

  (* before the rejected Provide (and after it: it leaves no trace) all views are acyclic *)
  Example before_agree :
    map (fun a => acyclicb (scope_graph (state_after cfgN b0 d0 hist) a)) [0; 1; 2] =
    map (fun a => acyclicb (view_graph r_before a (r_ctors r_before))) [0; 1; 2].
  Proof. vm_compute. reflexivity. Qed.

  (* the permissive graph of the candidate registry is cyclic too (code 502 holds) *)
  Example perm_cyclic : acyclicb (perm_graph r_cand (all_vertices r_cand)) = false.
  Proof. vm_compute. reflexivity. Qed.

  Example checker : chk_C05 cfgN hist (map obs_of (run cfgN b0 d0 hist)) = [].
  Proof. vm_compute. reflexivity. Qed.

  (* ---- why the decorator functions must be distinct: the same function id
     registered as two decorators with different signatures.  The run-time
     guard fires along  n -> d1 -> d0 -> n,  but the permissive graph omits
     d1 -> d0 as a "self decoration" (same function) and is acyclic ---- *)
  Definition k1 : key := KV 1 0.
  Definition k2 : key := KV 2 0.
  Definition k3 : key := KV 3 0.
  Definition dec1 : decorate_in := mkDecorateIn 7 (mkSig [PSingle k3 false] [RSingle k2 []] false) false.
  Definition dec0 : decorate_in := mkDecorateIn 7 (mkSig [PSingle k1 false] [RSingle k3 []] false) false.
  Definition pn : provide_in := mkProvideIn 1 (mkSig [PSingle k2 false] [RSingle k1 []] false) true false.
  Definition p2 : provide_in := mkProvideIn 2 (mkSig [] [RSingle k2 []] false) false false.
  Definition p3 : provide_in := mkProvideIn 3 (mkSig [] [RSingle k3 []] false) false false.
  Definition bad : history :=
    [OScope 0; OProvide 0 p2; OProvide 0 p3; OProvide 1 pn; ODecorate 1 dec1; ODecorate 0 dec0;
     OInvoke 1 (mkInvokeIn 9 (mkSig [PSingle k1 false] [] false))].

  Example bad_wf : wf_scopes bad = true /\ wf_keys bad = true /\ wf_dec_fns bad = false.
  Proof. vm_compute. auto. Qed.

  Example bad_violation : chk_C05 cfgN bad (map obs_of (run cfgN b0 d0 bad)) = [(6, 502)].
  Proof. vm_compute. reflexivity. Qed.
End C05Example.
