(* P_Dry.v — property C17, relational half: a DryRun container executes
   nothing (P_Events.C17_dry_silent) yet reports exactly the same verdicts as
   a normal container all of whose user functions succeed.

   Method: a simulation relation [Sim sd sn] between the dry and the normal
   state (same skeleton, same node / decorator tables, caches with the same
   DOMAINS; [s_groups], [st_count], [st_clock], [st_log] unrelated), preserved
   by every operation; the evaluator is handled by a direct induction on the
   fuel with one two-run lemma per combinator, stated for two arbitrary
   [rec]s related by the induction hypothesis. *)
From Dig Require Import Base Sig State Graph Register Resolve Run EvalInd Check P_Frame.

(* ================================================================== *)
(* Part 0 : association lists with the same domain                     *)
(* ================================================================== *)

Definition dom_eq {V W : Type} (m1 : list (key * V)) (m2 : list (key * W)) : Prop :=
  forall k, is_some (alookup key_eqb k m1) = is_some (alookup key_eqb k m2).

Lemma dom_eq_refl {V} (m : list (key * V)) : dom_eq m m.
Proof. intros k. reflexivity. Qed.

(* the statement of the task: absent on one side iff absent on the other *)
Lemma dom_eq_None {V W} (m1 : list (key * V)) (m2 : list (key * W)) :
  dom_eq m1 m2 <->
  (forall k, alookup key_eqb k m1 = None <-> alookup key_eqb k m2 = None).
Proof.
  unfold dom_eq. split; intros H k; specialize (H k).
  - destruct (alookup key_eqb k m1), (alookup key_eqb k m2); cbn in H; split; intros; congruence.
  - destruct (alookup key_eqb k m1), (alookup key_eqb k m2); cbn; try reflexivity.
    + destruct H as [_ H]. discriminate (H eq_refl).
    + destruct H as [H _]. discriminate (H eq_refl).
Qed.

Lemma dom_eq_cases {V W} (m1 : list (key * V)) (m2 : list (key * W)) k :
  dom_eq m1 m2 ->
  match alookup key_eqb k m1, alookup key_eqb k m2 with
  | Some _, Some _ => True
  | None, None => True
  | _, _ => False
  end.
Proof.
  intros H. specialize (H k).
  destruct (alookup key_eqb k m1), (alookup key_eqb k m2); cbn in H; try exact I; discriminate.
Qed.

Arguments dom_eq_cases {V W m1 m2} k _.

Lemma is_some_alookup_aset {V} k' k (v : V) m :
  is_some (alookup key_eqb k' (aset key_eqb k v m)) =
  key_eqb k' k || is_some (alookup key_eqb k' m).
Proof.
  induction m as [|[k0 v0] t IH]; cbn [aset alookup].
  - destruct (key_eqb k' k); reflexivity.
  - destruct (key_eqb k k0) eqn:E; cbn [alookup].
    + apply key_eqb_eq in E. subst k0. destruct (key_eqb k' k); reflexivity.
    + destruct (key_eqb k' k0) eqn:E2.
      * cbn. now rewrite orb_true_r.
      * exact IH.
Qed.

Lemma dom_eq_aset {V W} k (a1 : V) (a2 : W) m1 m2 :
  dom_eq m1 m2 -> dom_eq (aset key_eqb k a1 m1) (aset key_eqb k a2 m2).
Proof.
  intros H k'. rewrite !is_some_alookup_aset. now rewrite (H k').
Qed.

Lemma dom_eq_fold {V W} (a1 : V) (a2 : W) ks : forall m1 m2,
  dom_eq m1 m2 ->
  dom_eq (fold_left (fun m k => aset key_eqb k a1 m) ks m1)
         (fold_left (fun m k => aset key_eqb k a2 m) ks m2).
Proof.
  induction ks as [|k t IH]; intros m1 m2 H; cbn [fold_left]; [exact H|].
  apply IH. apply dom_eq_aset. exact H.
Qed.

Lemma find_map_ext {A B} (f g : A -> option B) l :
  (forall x, f x = g x) -> find_map f l = find_map g l.
Proof.
  intros H. induction l as [|h t IH]; cbn; [reflexivity|]. now rewrite H, IH.
Qed.

(* ================================================================== *)
(* Part 1 : the simulation relation                                    *)
(* ================================================================== *)

Record ssim (c1 c2 : scope) : Prop := mkSsim {
  ss_parent : s_parent c1 = s_parent c2;
  ss_children : s_children c1 = s_children c2;
  ss_providers : s_providers c1 = s_providers c2;
  ss_decorators : s_decorators c1 = s_decorators c2;
  ss_nodes : s_nodes c1 = s_nodes c2;
  ss_verified : s_verified c1 = s_verified c2;
  ss_gnodes : s_gnodes c1 = s_gnodes c2;
  ss_values : dom_eq (s_values c1) (s_values c2);
  ss_dvalues : dom_eq (s_dvalues c1) (s_dvalues c2);
  ss_dgroups : dom_eq (s_dgroups c1) (s_dgroups c2)
}.

Record Sim (sd sn : state) : Prop := mkSim {
  sim_nodes : st_nodes sd = st_nodes sn;
  sim_decs : st_decs sd = st_decs sn;
  sim_len : length (st_scopes sd) = length (st_scopes sn);
  sim_sc : forall s, ssim (get_scope sd s) (get_scope sn s)
}.

Arguments ss_parent {c1 c2} _.
Arguments ss_children {c1 c2} _.
Arguments ss_providers {c1 c2} _.
Arguments ss_decorators {c1 c2} _.
Arguments ss_nodes {c1 c2} _.
Arguments ss_verified {c1 c2} _.
Arguments ss_gnodes {c1 c2} _.
Arguments ss_values {c1 c2} _.
Arguments ss_dvalues {c1 c2} _.
Arguments ss_dgroups {c1 c2} _.
Arguments sim_nodes {sd sn} _.
Arguments sim_decs {sd sn} _.
Arguments sim_len {sd sn} _.
Arguments sim_sc {sd sn} _ _.

Lemma ssim_refl c : ssim c c.
Proof. constructor; try reflexivity; apply dom_eq_refl. Qed.

Lemma Sim_refl st : Sim st st.
Proof. constructor; try reflexivity. intros s. apply ssim_refl. Qed.

(* ---------- scope setters ---------- *)

Lemma ssim_set_children x c1 c2 : ssim c1 c2 -> ssim (sc_set_children x c1) (sc_set_children x c2).
Proof. intros []; constructor; cbn; auto. Qed.
Lemma ssim_set_providers x c1 c2 : ssim c1 c2 -> ssim (sc_set_providers x c1) (sc_set_providers x c2).
Proof. intros []; constructor; cbn; auto. Qed.
Lemma ssim_set_decorators x c1 c2 : ssim c1 c2 -> ssim (sc_set_decorators x c1) (sc_set_decorators x c2).
Proof. intros []; constructor; cbn; auto. Qed.
Lemma ssim_set_nodes x c1 c2 : ssim c1 c2 -> ssim (sc_set_nodes x c1) (sc_set_nodes x c2).
Proof. intros []; constructor; cbn; auto. Qed.
Lemma ssim_set_verified x c1 c2 : ssim c1 c2 -> ssim (sc_set_verified x c1) (sc_set_verified x c2).
Proof. intros []; constructor; cbn; auto. Qed.
Lemma ssim_set_gnodes x c1 c2 : ssim c1 c2 -> ssim (sc_set_gnodes x c1) (sc_set_gnodes x c2).
Proof. intros []; constructor; cbn; auto. Qed.
Lemma ssim_set_values x1 x2 c1 c2 :
  dom_eq x1 x2 -> ssim c1 c2 -> ssim (sc_set_values x1 c1) (sc_set_values x2 c2).
Proof. intros D []; constructor; cbn; auto. Qed.
Lemma ssim_set_dvalues x1 x2 c1 c2 :
  dom_eq x1 x2 -> ssim c1 c2 -> ssim (sc_set_dvalues x1 c1) (sc_set_dvalues x2 c2).
Proof. intros D []; constructor; cbn; auto. Qed.
Lemma ssim_set_dgroups x1 x2 c1 c2 :
  dom_eq x1 x2 -> ssim c1 c2 -> ssim (sc_set_dgroups x1 c1) (sc_set_dgroups x2 c2).
Proof. intros D []; constructor; cbn; auto. Qed.
(* plain value groups are unconstrained *)
Lemma ssim_set_groups x1 x2 c1 c2 : ssim c1 c2 -> ssim (sc_set_groups x1 c1) (sc_set_groups x2 c2).
Proof. intros []; constructor; cbn; auto. Qed.

(* the two commits write the same KEYS, whatever the values *)
Lemma commit_results_ssim rs : forall dry1 f1 e1 lens1 dry2 f2 e2 lens2 slot c1 c2,
  ssim c1 c2 ->
  ssim (commit_results dry1 f1 e1 lens1 slot rs c1) (commit_results dry2 f2 e2 lens2 slot rs c2).
Proof.
  induction rs as [|r t IH]; intros dry1 f1 e1 lens1 dry2 f2 e2 lens2 slot c1 c2 H;
    cbn [commit_results]; [exact H|].
  destruct r as [ks|ks [|]]; apply IH.
  - apply ssim_set_values; [|exact H]. apply dom_eq_fold. apply (ss_values H).
  - apply ssim_set_groups. exact H.
  - apply ssim_set_groups. exact H.
Qed.

Lemma commit_decorated_ssim rs : forall dry1 f1 e1 lens1 dry2 f2 e2 lens2 slot c1 c2,
  ssim c1 c2 ->
  ssim (commit_decorated dry1 f1 e1 lens1 slot rs c1) (commit_decorated dry2 f2 e2 lens2 slot rs c2).
Proof.
  induction rs as [|r t IH]; intros dry1 f1 e1 lens1 dry2 f2 e2 lens2 slot c1 c2 H;
    cbn [commit_decorated]; [exact H|].
  destruct r as [[|k ks]|[|k ks] fl]; apply IH; try exact H.
  - apply ssim_set_dvalues; [|exact H]. apply dom_eq_aset. apply (ss_dvalues H).
  - apply ssim_set_dgroups; [|exact H]. apply dom_eq_aset. apply (ss_dgroups H).
Qed.

(* ---------- state setters ---------- *)

Lemma Sim_upd_scope sd sn s f1 f2 :
  Sim sd sn -> (forall c1 c2, ssim c1 c2 -> ssim (f1 c1) (f2 c2)) ->
  Sim (upd_scope sd s f1) (upd_scope sn s f2).
Proof.
  intros H Hf. constructor.
  - exact (sim_nodes H).
  - exact (sim_decs H).
  - unfold upd_scope. cbn [st_scopes set_scopes]. rewrite !upd_nth_length. exact (sim_len H).
  - intros x. rewrite !get_scope_upd. rewrite (sim_len H).
    destruct (Nat.eqb x s && Nat.ltb s (length (st_scopes sn))).
    + apply Hf. apply (sim_sc H).
    + apply (sim_sc H).
Qed.

Lemma Sim_upd_node sd sn n f : Sim sd sn -> Sim (upd_node sd n f) (upd_node sn n f).
Proof.
  intros H. constructor.
  - unfold upd_node. cbn [st_nodes set_nodes]. now rewrite (sim_nodes H).
  - exact (sim_decs H).
  - exact (sim_len H).
  - exact (sim_sc H).
Qed.

Lemma Sim_upd_dec sd sn d f : Sim sd sn -> Sim (upd_dec sd d f) (upd_dec sn d f).
Proof.
  intros H. constructor.
  - exact (sim_nodes H).
  - unfold upd_dec. cbn [st_decs set_decs]. now rewrite (sim_decs H).
  - exact (sim_len H).
  - exact (sim_sc H).
Qed.

Lemma Sim_set_nodes sd sn x : Sim sd sn -> Sim (set_nodes sd x) (set_nodes sn x).
Proof.
  intros H. constructor; [reflexivity|exact (sim_decs H)|exact (sim_len H)|exact (sim_sc H)].
Qed.

Lemma Sim_set_decs sd sn x : Sim sd sn -> Sim (set_decs sd x) (set_decs sn x).
Proof.
  intros H. constructor; [exact (sim_nodes H)|reflexivity|exact (sim_len H)|exact (sim_sc H)].
Qed.

Lemma Sim_push_scope sd sn c1 c2 :
  Sim sd sn -> ssim c1 c2 ->
  Sim (set_scopes sd (st_scopes sd ++ [c1])) (set_scopes sn (st_scopes sn ++ [c2])).
Proof.
  intros H Hc. constructor.
  - exact (sim_nodes H).
  - exact (sim_decs H).
  - cbn [st_scopes set_scopes]. rewrite !app_length. now rewrite (sim_len H).
  - intros s. unfold get_scope. cbn [st_scopes set_scopes].
    destruct (Nat.lt_ge_cases s (length (st_scopes sn))) as [Hlt|Hge].
    + rewrite !app_nth1 by (rewrite ?(sim_len H); exact Hlt). apply (sim_sc H).
    + destruct (Nat.eq_dec s (length (st_scopes sn))) as [->|Hne].
      * rewrite <- (sim_len H) at 1. rewrite !nth_middle. exact Hc.
      * rewrite !nth_overflow by (rewrite app_length, ?(sim_len H); cbn; lia).
        apply ssim_refl.
Qed.

(* anything that leaves scopes, nodes and decorators alone preserves Sim *)
Lemma Sim_frame sd sn sd' sn' :
  Sim sd sn ->
  st_scopes sd' = st_scopes sd -> st_nodes sd' = st_nodes sd -> st_decs sd' = st_decs sd ->
  st_scopes sn' = st_scopes sn -> st_nodes sn' = st_nodes sn -> st_decs sn' = st_decs sn ->
  Sim sd' sn'.
Proof.
  intros H A1 A2 A3 B1 B2 B3. constructor.
  - now rewrite A2, B2, (sim_nodes H).
  - now rewrite A3, B3, (sim_decs H).
  - now rewrite A1, B1, (sim_len H).
  - intros s. unfold get_scope. rewrite A1, B1. apply (sim_sc H).
Qed.

Lemma Sim_frame_r sd sn sn' :
  Sim sd sn ->
  st_scopes sn' = st_scopes sn -> st_nodes sn' = st_nodes sn -> st_decs sn' = st_decs sn ->
  Sim sd sn'.
Proof. intros H B1 B2 B3. now apply (@Sim_frame sd sn sd sn' H). Qed.
Arguments Sim_frame {sd sn sd' sn'} _ _ _ _ _ _ _.
Arguments Sim_frame_r {sd sn sn'} _ _ _ _.

Lemma Sim_callback sd sn h1 f1 c1 t1 h2 f2 c2 t2 :
  Sim sd sn -> Sim (callback h1 f1 c1 t1 sd) (callback h2 f2 c2 t2 sn).
Proof.
  intros H. apply (Sim_frame H); unfold callback; first [destruct h1; reflexivity | destruct h2; reflexivity].
Qed.

Lemma Sim_fold {A} (f : state -> A -> state) l :
  (forall a sd sn, Sim sd sn -> Sim (f sd a) (f sn a)) ->
  forall sd sn, Sim sd sn -> Sim (fold_left f l sd) (fold_left f l sn).
Proof.
  intros Hf. induction l as [|a t IH]; intros sd sn H; cbn [fold_left]; [exact H|].
  apply IH. apply Hf. exact H.
Qed.

(* ---------- everything control reads is the same on both sides ---------- *)

Section Reads.
  Context {sd sn : state}.
  Hypothesis H : Sim sd sn.

  Lemma get_node_sim n : get_node sd n = get_node sn n.
  Proof. unfold get_node. now rewrite (sim_nodes H). Qed.

  Lemma get_dec_sim d : get_dec sd d = get_dec sn d.
  Proof. unfold get_dec. now rewrite (sim_decs H). Qed.

  Lemma path_fuel_sim fuel : forall s, path_fuel fuel sd s = path_fuel fuel sn s.
  Proof.
    induction fuel as [|f IH]; intros s; cbn [path_fuel]; [reflexivity|].
    rewrite (ss_parent (sim_sc H s)). destruct (s_parent (get_scope sn s)); [|reflexivity].
    now rewrite IH.
  Qed.

  Lemma path_sim s : path sd s = path sn s.
  Proof. unfold path. rewrite (sim_len H). apply path_fuel_sim. Qed.

  Lemma subtree_fuel_sim fuel : forall s, subtree_fuel fuel sd s = subtree_fuel fuel sn s.
  Proof.
    induction fuel as [|f IH]; intros s; cbn [subtree_fuel]; [reflexivity|].
    rewrite (ss_children (sim_sc H s)). f_equal. apply flat_map_ext. intros a. apply IH.
  Qed.

  Lemma subtree_sim s : subtree sd s = subtree sn s.
  Proof. unfold subtree. rewrite (sim_len H). apply subtree_fuel_sim. Qed.

  Lemma providers_at_sim s k : providers_at sd s k = providers_at sn s k.
  Proof. unfold providers_at. now rewrite (ss_providers (sim_sc H s)). Qed.

  Lemma providers_on_path_sim s k : providers_on_path sd s k = providers_on_path sn s k.
  Proof.
    unfold providers_on_path. rewrite path_sim. apply flat_map_ext. intros a. apply providers_at_sim.
  Qed.

  Lemma has_provider_sim s k : has_provider sd s k = has_provider sn s k.
  Proof. unfold has_provider. now rewrite providers_on_path_sim. Qed.

  Lemma shallow_missing_sim v ls : shallow_missing sd v ls = shallow_missing sn v ls.
  Proof.
    unfold shallow_missing. apply flat_map_ext. intros [k [|]|k s]; try reflexivity.
    now rewrite has_provider_sim, (ss_dvalues (sim_sc H v) k).
  Qed.

  Lemma find_dec_sim v k : find_dec sd v k = find_dec sn v k.
  Proof.
    unfold find_dec. rewrite path_sim. apply find_map_ext. intros s.
    rewrite (ss_decorators (sim_sc H s)).
    destruct (alookup key_eqb k (s_decorators (get_scope sn s))) as [d|]; [|reflexivity].
    now rewrite get_dec_sim.
  Qed.

  Definition plk_sim (p1 p2 : plookup) : Prop :=
    match p1, p2 with
    | PVal _, PVal _ => True
    | PProv b1 ns1, PProv b2 ns2 => b1 = b2 /\ ns1 = ns2
    | PNone, PNone => True
    | _, _ => False
    end.

  Lemma find_provider_sim k bs : plk_sim (find_provider sd bs k) (find_provider sn bs k).
  Proof.
    induction bs as [|b t IH]; cbn [find_provider]; [exact I|].
    pose proof (dom_eq_cases k (ss_values (sim_sc H b))) as D.
    destruct (alookup key_eqb k (s_values (get_scope sd b))),
             (alookup key_eqb k (s_values (get_scope sn b))); try contradiction; [exact I|].
    rewrite providers_at_sim. destruct (providers_at sn b k); [exact IH|]. split; reflexivity.
  Qed.

  Definition opt_sim {A B} (o1 : option A) (o2 : option B) : Prop :=
    match o1, o2 with Some _, Some _ => True | None, None => True | _, _ => False end.

  Lemma find_map_dvalues_sim k l :
    opt_sim (find_map (fun s => alookup key_eqb k (s_dvalues (get_scope sd s))) l)
            (find_map (fun s => alookup key_eqb k (s_dvalues (get_scope sn s))) l).
  Proof.
    induction l as [|s t IH]; cbn [find_map]; [exact I|].
    pose proof (dom_eq_cases k (ss_dvalues (sim_sc H s))) as D.
    destruct (alookup key_eqb k (s_dvalues (get_scope sd s))),
             (alookup key_eqb k (s_dvalues (get_scope sn s))); try contradiction; [exact I|exact IH].
  Qed.

  Lemma find_map_dgroups_sim k l :
    opt_sim (find_map (fun s => alookup key_eqb k (s_dgroups (get_scope sd s))) l)
            (find_map (fun s => alookup key_eqb k (s_dgroups (get_scope sn s))) l).
  Proof.
    induction l as [|s t IH]; cbn [find_map]; [exact I|].
    pose proof (dom_eq_cases k (ss_dgroups (sim_sc H s))) as D.
    destruct (alookup key_eqb k (s_dgroups (get_scope sd s))),
             (alookup key_eqb k (s_dgroups (get_scope sn s))); try contradiction; [exact I|exact IH].
  Qed.

  (* the per-scope dependency graph *)
  Lemma order_in_sim a g : order_in sd a g = order_in sn a g.
  Proof. unfold order_in. now rewrite (ss_gnodes (sim_sc H a)). Qed.

  Lemma leaf_edges_sim a n ls : forall i, leaf_edges sd a n i ls = leaf_edges sn a n i ls.
  Proof.
    induction ls as [|l t IH]; intros i; cbn [leaf_edges]; [reflexivity|].
    destruct l as [k o|k s]; rewrite IH.
    - rewrite providers_on_path_sim. f_equal. apply map_ext. intros m. apply order_in_sim.
    - now rewrite order_in_sim.
  Qed.

  Lemma edges_of_sim a g : edges_of sd a g = edges_of sn a g.
  Proof.
    destruct g as [n|n i]; cbn [edges_of]; rewrite get_node_sim.
    - apply leaf_edges_sim.
    - destruct (nth_error (sig_leaves (c_sig (get_node sn n))) i) as [[k o|k s]|]; try reflexivity.
      rewrite providers_on_path_sim. apply map_ext. intros m. apply order_in_sim.
  Qed.

  Lemma scope_graph_sim a : scope_graph sd a = scope_graph sn a.
  Proof.
    unfold scope_graph. rewrite (ss_gnodes (sim_sc H a)). apply map_ext. intros g. apply edges_of_sim.
  Qed.

  Lemma snapshot_sim A : snapshot sd A = snapshot sn A.
  Proof.
    unfold snapshot. apply map_ext. intros a. now rewrite (ss_gnodes (sim_sc H a)).
  Qed.
End Reads.

(* ================================================================== *)
(* Part 2 : registration preserves Sim and yields equal verdicts       *)
(* ================================================================== *)

Lemma new_scope_sim sd sn p : Sim sd sn -> Sim (new_scope sd p) (new_scope sn p).
Proof.
  intros H. unfold new_scope. cbv zeta. rewrite (sim_len H).
  apply Sim_upd_scope.
  - apply Sim_push_scope; [exact H|]. rewrite (ss_gnodes (sim_sc H p)). apply ssim_refl.
  - intros c1 c2 Hc. rewrite (ss_children Hc). apply ssim_set_children. exact Hc.
Qed.

Lemma decorate_sim sd sn s p :
  Sim sd sn ->
  fst (decorate sd s p) = fst (decorate sn s p) /\
  Sim (snd (decorate sd s p)) (snd (decorate sn s p)).
Proof.
  intros H. unfold decorate. cbv zeta. rewrite (ss_decorators (sim_sc H s)).
  destruct (negb _ || existsb _ _); cbn [fst snd]; [split; [reflexivity|exact H]|].
  split; [reflexivity|]. rewrite (sim_decs H).
  apply Sim_upd_scope.
  - apply Sim_set_decs. exact H.
  - intros c1 c2 Hc. rewrite (ss_decorators Hc). apply ssim_set_decorators. exact Hc.
Qed.

Lemma verify_loop_sim d A : forall sd sn,
  Sim sd sn ->
  fst (verify_loop d A sd) = fst (verify_loop d A sn) /\
  Sim (snd (verify_loop d A sd)) (snd (verify_loop d A sn)).
Proof.
  induction A as [|a t IH]; intros sd sn H; cbn [verify_loop].
  - split; [reflexivity|exact H].
  - assert (H1 : Sim (upd_scope sd a (sc_set_verified false)) (upd_scope sn a (sc_set_verified false))).
    { apply Sim_upd_scope; [exact H|]. intros c1 c2. apply ssim_set_verified. }
    cbv zeta. destruct d; [apply IH; exact H1|].
    rewrite (scope_graph_sim H1 a).
    destruct (is_acyclic (scope_graph (upd_scope sn a (sc_set_verified false)) a)) as [[[|] ?]|];
      cbn [fst snd].
    + apply IH. apply Sim_upd_scope; [exact H1|]. intros c1 c2. apply ssim_set_verified.
    + split; [reflexivity|exact H1].
    + split; [reflexivity|exact H1].
Qed.

Arguments verify_loop_sim d A {sd sn} _.

Lemma provide_sim cfg1 cfg2 sd sn s0 p :
  cfg_defer cfg1 = cfg_defer cfg2 -> Sim sd sn ->
  fst (provide cfg1 sd s0 p) = fst (provide cfg2 sn s0 p) /\
  Sim (snd (provide cfg1 sd s0 p)) (snd (provide cfg2 sn s0 p)).
Proof.
  intros Hd H. unfold provide. cbv zeta.
  set (s := if pi_export p then 0 else s0).
  rewrite <- (subtree_sim H s), <- (snapshot_sim H (subtree sd s)), <- (sim_nodes H), <- Hd.
  set (A := subtree sd s). set (snap := snapshot sd A).
  set (node := mkCNode (pi_fn p) (pi_sig p) s s0 false false (pi_cb p)).
  set (gs := group_grefs (length (st_nodes sd)) 0 (sig_leaves (pi_sig p)) ++ [GCtor (length (st_nodes sd))]).
  set (sd1 := set_nodes sd (st_nodes sd ++ [node])).
  set (sn1 := set_nodes sn (st_nodes sd ++ [node])).
  assert (H1 : Sim sd1 sn1) by (apply Sim_set_nodes; exact H).
  set (sd2 := fold_left (append_gnodes gs) A sd1).
  set (sn2 := fold_left (append_gnodes gs) A sn1).
  assert (H2 : Sim sd2 sn2).
  { apply Sim_fold; [|exact H1]. intros a x y Hxy. unfold append_gnodes.
    apply Sim_upd_scope; [exact Hxy|]. intros c1 c2 Hc. rewrite (ss_gnodes Hc).
    apply ssim_set_gnodes. exact Hc. }
  assert (UNDO : forall x y, Sim x y ->
            Sim (set_nodes (rollback_gnodes snap x) (st_nodes sd))
                (set_nodes (rollback_gnodes snap y) (st_nodes sd))).
  { intros x y Hxy. apply Sim_set_nodes. unfold rollback_gnodes.
    apply Sim_fold; [|exact Hxy]. intros a u v Huv.
    apply Sim_upd_scope; [exact Huv|]. intros c1 c2 Hc. rewrite (ss_gnodes Hc).
    apply ssim_set_gnodes. exact Hc. }
  rewrite <- (ss_providers (sim_sc H2 s)).
  destruct (dup_check _ _ _); cbn [fst snd].
  { split; [reflexivity|]. apply UNDO. exact H2. }
  destruct (is_nil _); cbn [fst snd].
  { split; [reflexivity|]. apply UNDO. exact H2. }
  match goal with |- context [verify_loop _ A ?x] =>
    match x with context [sd2] => set (sd3 := x) end end.
  match goal with |- context [verify_loop _ A ?x] =>
    match x with context [sn2] => set (sn3 := x) end end.
  assert (H3 : Sim sd3 sn3).
  { apply Sim_upd_scope; [exact H2|]. intros c1 c2 Hc. rewrite (ss_providers Hc).
    apply ssim_set_providers. exact Hc. }
  destruct (verify_loop_sim (cfg_defer cfg1) A H3) as [E V].
  destruct (verify_loop (cfg_defer cfg1) A sd3) as [r1 sd4].
  destruct (verify_loop (cfg_defer cfg1) A sn3) as [r2 sn4].
  cbn [fst snd] in E, V. subst r2.
  destruct r1 as [[a|]|e|a]; cbn [fst snd]; (split; [reflexivity|]); try exact V.
  - apply UNDO. apply Sim_upd_scope; [exact V|]. intros c1 c2. apply ssim_set_providers.
  - apply Sim_upd_scope; [exact V|]. intros c1 c2 Hc. rewrite (ss_nodes Hc).
    apply ssim_set_nodes. exact Hc.
Qed.

(* ================================================================== *)
(* Part 3 : the two-run evaluator lemma                                *)
(* ================================================================== *)

(* same shape; errors and aborts IDENTICAL (they mention keys, node refs and
   link kinds only, never a value) *)
Definition rsim (r1 r2 : res (list arg)) : Prop :=
  match r1, r2 with
  | Done _, Done _ => True
  | Fail e1, Fail e2 => e1 = e2
  | Abort a1, Abort a2 => a1 = a2
  | _, _ => False
  end.

Definition osim (o1 o2 : out) : Prop := rsim (fst o1) (fst o2) /\ Sim (snd o1) (snd o2).

Definition lsim (l1 l2 : lres) : Prop :=
  match l1, l2 with
  | LDone, LDone => True
  | LFail c1 e1, LFail c2 e2 => c1 = c2 /\ e1 = e2
  | LAbort a1, LAbort a2 => a1 = a2
  | _, _ => False
  end.

Definition losim (o1 o2 : lres * state) : Prop := lsim (fst o1) (fst o2) /\ Sim (snd o1) (snd o2).

Section Two.
  Variables cfgd cfg : config.
  Variables bd bn : beh.
  Variables dud dun : dur.
  Hypothesis Hdry : cfg_dry cfgd = true.
  Hypothesis Hnd : cfg_dry cfg = false.
  Hypothesis Hok : forall f e, exists lens, bn f e = OOk lens.

  Lemma run_fn_dry r f args st : run_fn cfgd bd dud r f args st = (OOk [], 0, st).
  Proof. unfold run_fn. now rewrite Hdry. Qed.

  Lemma run_fn_ok r f args st :
    exists lens st',
      run_fn cfg bn dun r f args st = (OOk lens, get_count st f, st') /\
      st_scopes st' = st_scopes st /\ st_nodes st' = st_nodes st /\ st_decs st' = st_decs st.
  Proof.
    unfold run_fn. rewrite Hnd. destruct (Hok f (get_count st f)) as [lens E]. rewrite E.
    eexists. eexists. split; [reflexivity|]. repeat split.
  Qed.

  Section Step.
    Variables rec1 rec2 : task -> state -> out.
    Hypothesis IH : forall t sd sn, Sim sd sn -> osim (rec1 t sd) (rec2 t sn).

    (* run both recursive calls and keep only the coherent combinations *)
    Ltac both_rec t H HR HS x1 x2 sd1 sn1 :=
      destruct (IH t _ _ H) as [HR HS];
      destruct (rec1 t _) as [[x1|x1|x1] sd1];
      destruct (rec2 t _) as [[x2|x2|x2] sn1];
      cbn [fst snd rsim] in HR, HS; try contradiction.

    Lemma call_ctors_sim ns : forall sd sn,
      Sim sd sn -> losim (call_ctors rec1 ns sd) (call_ctors rec2 ns sn).
    Proof.
      induction ns as [|n t IHn]; intros sd sn H; cbn [call_ctors].
      - split; [exact I|exact H].
      - both_rec (TCallCtor n) H HR HS x1 x2 sd1 sn1.
        + apply IHn. exact HS.
        + subst x2. split; [split; reflexivity|exact HS].
        + subst x2. split; [reflexivity|exact HS].
    Qed.

    Lemma call_group_decs_sim k bs : forall sd sn,
      Sim sd sn -> losim (call_group_decs rec1 k bs sd) (call_group_decs rec2 k bs sn).
    Proof.
      induction bs as [|s t IHb]; intros sd sn H; cbn [call_group_decs].
      - split; [exact I|exact H].
      - rewrite (ss_decorators (sim_sc H s)).
        destruct (alookup key_eqb k (s_decorators (get_scope sn s))) as [d|]; [|apply IHb; exact H].
        rewrite (get_dec_sim H).
        destruct (dstate_eqb (d_state (get_dec sn d)) DOnStack); [apply IHb; exact H|].
        both_rec (TCallDec d) H HR HS x1 x2 sd1 sn1.
        + apply IHb. exact HS.
        + subst x2. split; [split; reflexivity|exact HS].
        + subst x2. split; [reflexivity|exact HS].
    Qed.

    Lemma build_list_sim v ls : forall sd sn,
      Sim sd sn -> osim (build_list rec1 v ls sd) (build_list rec2 v ls sn).
    Proof.
      induction ls as [|l t IHl]; intros sd sn H; cbn [build_list].
      - split; [exact I|exact H].
      - both_rec (TLeaf v l) H HR HS x1 x2 sd1 sn1.
        + destruct (IHl sd1 sn1 HS) as [HR' HS'].
          destruct (build_list rec1 v t sd1) as [[y1|y1|y1] sd2];
          destruct (build_list rec2 v t sn1) as [[y2|y2|y2] sn2];
          cbn [fst snd rsim] in HR', HS'; try contradiction; split; cbn [fst snd rsim]; auto.
        + split; cbn [fst snd rsim]; auto.
        + split; cbn [fst snd rsim]; auto.
    Qed.

    Lemma build_single_sim v k opt sd sn :
      Sim sd sn -> osim (build_single rec1 v k opt sd) (build_single rec2 v k opt sn).
    Proof.
      intros H. unfold build_single. rewrite (find_dec_sim H).
      destruct (find_dec sn v k) as [[d bsc]|].
      - both_rec (TCallDec d) H HR HS x1 x2 sd1 sn1.
        + pose proof (dom_eq_cases k (ss_dvalues (sim_sc HS bsc))) as D.
          destruct (alookup key_eqb k (s_dvalues (get_scope sd1 bsc))),
                   (alookup key_eqb k (s_dvalues (get_scope sn1 bsc))); try contradiction;
            split; cbn [fst snd rsim]; auto.
        + subst x2. split; cbn [fst snd rsim]; auto.
        + split; cbn [fst snd rsim]; auto.
      - rewrite (path_sim H).
        pose proof (find_map_dvalues_sim H k (path sn v)) as D.
        destruct (find_map (fun s => alookup key_eqb k (s_dvalues (get_scope sd s))) (path sn v)),
                 (find_map (fun s => alookup key_eqb k (s_dvalues (get_scope sn s))) (path sn v));
          cbn [opt_sim] in D; try contradiction.
        { split; cbn [fst snd rsim]; auto. }
        pose proof (find_provider_sim H k (path sn v)) as P.
        destruct (find_provider sd (path sn v) k) as [a1|b1 ns1|],
                 (find_provider sn (path sn v) k) as [a2|b2 ns2|];
          cbn [plk_sim] in P; try contradiction.
        + split; cbn [fst snd rsim]; auto.
        + destruct P as [-> ->].
          destruct (call_ctors_sim ns2 _ _ H) as [HR HS].
          destruct (call_ctors rec1 ns2 sd) as [[|c1 e1|a1] sd1];
          destruct (call_ctors rec2 ns2 sn) as [[|c2 e2|a2] sn1];
          cbn [fst snd lsim] in HR, HS; try contradiction.
          * pose proof (dom_eq_cases k (ss_values (sim_sc HS b2))) as D2.
            destruct (alookup key_eqb k (s_values (get_scope sd1 b2))),
                     (alookup key_eqb k (s_values (get_scope sn1 b2))); try contradiction;
              split; cbn [fst snd rsim]; auto.
          * destruct HR as [-> ->].
            destruct (opt && has_missingdeps e2); split; cbn [fst snd rsim]; auto.
          * split; cbn [fst snd rsim]; auto.
        + destruct opt; split; cbn [fst snd rsim]; auto.
    Qed.

    Lemma build_group_sim v k soft sd sn :
      Sim sd sn -> osim (build_group rec1 v k soft sd) (build_group rec2 v k soft sn).
    Proof.
      intros H. unfold build_group. cbv zeta. rewrite (path_sim H).
      destruct (call_group_decs_sim k (rev (path sn v)) _ _ H) as [HR HS].
      destruct (call_group_decs rec1 k (rev (path sn v)) sd) as [[|c1 e1|a1] sd1];
      destruct (call_group_decs rec2 k (rev (path sn v)) sn) as [[|c2 e2|a2] sn1];
      cbn [fst snd lsim] in HR, HS; try contradiction.
      - rewrite (path_sim HS).
        pose proof (find_map_dgroups_sim HS k (path sn1 v)) as D.
        destruct (find_map (fun s => alookup key_eqb k (s_dgroups (get_scope sd1 s))) (path sn1 v)),
                 (find_map (fun s => alookup key_eqb k (s_dgroups (get_scope sn1 s))) (path sn1 v));
          cbn [opt_sim] in D; try contradiction.
        { split; cbn [fst snd rsim]; auto. }
        destruct soft.
        { split; cbn [fst snd rsim]; auto. }
        rewrite (providers_on_path_sim HS).
        destruct (call_ctors_sim (providers_on_path sn1 v k) _ _ HS) as [R2 S2].
        destruct (call_ctors rec1 (providers_on_path sn1 v k) sd1) as [[|c1 e1|a1] sd2];
        destruct (call_ctors rec2 (providers_on_path sn1 v k) sn1) as [[|c2 e2|a2] sn2];
        cbn [fst snd lsim] in R2, S2; try contradiction.
        + split; cbn [fst snd rsim]; auto.
        + destruct R2 as [-> ->]. split; cbn [fst snd rsim]; auto.
        + split; cbn [fst snd rsim]; auto.
      - destruct HR as [-> ->]. split; cbn [fst snd rsim]; auto.
      - split; cbn [fst snd rsim]; auto.
    Qed.

    Lemma call_ctor_sim n sd sn :
      Sim sd sn -> osim (call_ctor cfgd bd dud rec1 n sd) (call_ctor cfg bn dun rec2 n sn).
    Proof.
      intros H. unfold call_ctor. cbv zeta. rewrite (get_node_sim H n).
      set (c := get_node sn n).
      destruct (c_called c); [split; cbn [fst snd rsim]; auto|].
      destruct (c_onstack c); [split; cbn [fst snd rsim]; auto|].
      assert (H0 : Sim (set_onstack sd n true) (set_onstack sn n true))
        by (apply Sim_upd_node; exact H).
      rewrite (shallow_missing_sim H0).
      destruct (shallow_missing (set_onstack sn n true) (c_orig c) (sig_leaves (c_sig c))).
      - both_rec (TLeaves (c_orig c) (sig_build_seq (c_sig c))) H0 HR HS x1 x2 sd1 sn1.
        + rewrite run_fn_dry.
          destruct (run_fn_ok RoleCtor (c_fn c) (place (sig_order (c_sig c)) x2) sn1)
            as (lens & sn2 & E & E1 & E2 & E3).
          rewrite E. split; [exact I|]. cbn [fst snd].
          apply Sim_upd_node. apply Sim_callback. apply Sim_upd_node.
          apply Sim_upd_scope.
          * apply (Sim_frame_r HS E1 E2 E3).
          * intros c1 c2. apply commit_results_ssim.
        + subst x2. split; cbn [fst snd rsim]; [reflexivity|]. apply Sim_upd_node. exact HS.
        + split; cbn [fst snd rsim]; [exact HR|]. apply Sim_upd_node. exact HS.
      - split; cbn [fst snd rsim]; [reflexivity|]. apply Sim_upd_node. exact H0.
    Qed.

    Lemma call_dec_sim d sd sn :
      Sim sd sn -> osim (call_dec cfgd bd dud rec1 d sd) (call_dec cfg bn dun rec2 d sn).
    Proof.
      intros H. unfold call_dec. cbv zeta. rewrite (get_dec_sim H d).
      set (dn := get_dec sn d).
      destruct (dstate_eqb (d_state dn) DCalled); [split; cbn [fst snd rsim]; auto|].
      assert (H0 : Sim (set_dstate sd d DOnStack) (set_dstate sn d DOnStack))
        by (apply Sim_upd_dec; exact H).
      rewrite (shallow_missing_sim H0).
      destruct (shallow_missing (set_dstate sn d DOnStack) (d_home dn) (sig_leaves (d_sig dn))).
      - both_rec (TLeaves (d_home dn) (sig_build_seq (d_sig dn))) H0 HR HS x1 x2 sd1 sn1.
        + rewrite run_fn_dry.
          destruct (run_fn_ok RoleDec (d_fn dn) (place (sig_order (d_sig dn)) x2) sn1)
            as (lens & sn2 & E & E1 & E2 & E3).
          rewrite E. split; [exact I|]. cbn [fst snd].
          apply Sim_callback. apply Sim_upd_dec.
          apply Sim_upd_scope.
          * apply (Sim_frame_r HS E1 E2 E3).
          * intros c1 c2. apply commit_decorated_ssim.
        + subst x2. split; cbn [fst snd rsim]; [reflexivity|]. apply Sim_upd_dec. exact HS.
        + split; cbn [fst snd rsim]; [exact HR|]. apply Sim_upd_dec. exact HS.
      - split; cbn [fst snd rsim]; [reflexivity|]. apply Sim_upd_dec. exact H0.
    Qed.

    Lemma evalF_sim t sd sn :
      Sim sd sn -> osim (evalF cfgd bd dud rec1 t sd) (evalF cfg bn dun rec2 t sn).
    Proof.
      intros H. destruct t as [v [k o|k s]|v ls|n|d]; cbn [evalF].
      - apply build_single_sim; exact H.
      - apply build_group_sim; exact H.
      - apply build_list_sim; exact H.
      - apply call_ctor_sim; exact H.
      - apply call_dec_sim; exact H.
    Qed.
  End Step.

  (* the two-run lemma: direct induction on the fuel *)
  Theorem eval_sim fuel : forall t sd sn,
    Sim sd sn -> osim (eval cfgd bd dud fuel t sd) (eval cfg bn dun fuel t sn).
  Proof.
    induction fuel as [|f IHf]; intros t sd sn H; cbn [eval].
    - split; cbn [fst snd rsim]; auto.
    - apply evalF_sim; [exact IHf|exact H].
  Qed.

  (* ================================================================== *)
  (* Part 4 : operations and histories                                   *)
  (* ================================================================== *)

  Lemma eval_fuel_sim sd sn : Sim sd sn -> eval_fuel sd = eval_fuel sn.
  Proof. intros H. unfold eval_fuel. now rewrite (sim_nodes H), (sim_decs H). Qed.

  (* what Invoke does once the scope is verified *)
  Definition inv_tail (c : config) (b : beh) (du : dur) (s : sid) (p : invoke_in) (st1 : state)
    : verdict * state :=
    match eval c b du (eval_fuel st1) (TLeaves s (sig_build_seq (ii_sig p))) st1 with
    | (Fail e, st2) => (VErr (wrap LArgsFailed e), st2)
    | (Abort a, st2) => (VAbort a, st2)
    | (Done built, st2) =>
        match run_fn c b du RoleInv (ii_fn p) (place (sig_order (ii_sig p)) built) st2 with
        | (OOk _, _, st3) => (VOk, st3)
        | (OErr, e, st3) => (VErr (mkErr [] (RUser (ii_fn p) e)), st3)
        | (OPanic, e, st3) =>
            if cfg_recover c then (VErr (mkErr [] (RPanic (ii_fn p) e)), st3)
            else (VAbort (APanicked (ii_fn p) e), st3)
        end
    end.

  Lemma inv_tail_sim s p sd sn :
    Sim sd sn ->
    fst (inv_tail cfgd bd dud s p sd) = fst (inv_tail cfg bn dun s p sn) /\
    Sim (snd (inv_tail cfgd bd dud s p sd)) (snd (inv_tail cfg bn dun s p sn)).
  Proof.
    intros H. unfold inv_tail. rewrite (eval_fuel_sim _ _ H).
    destruct (eval_sim (eval_fuel sn) (TLeaves s (sig_build_seq (ii_sig p))) _ _ H) as [HR HS].
    destruct (eval cfgd bd dud (eval_fuel sn) (TLeaves s (sig_build_seq (ii_sig p))) sd)
      as [[x1|x1|x1] sd1];
    destruct (eval cfg bn dun (eval_fuel sn) (TLeaves s (sig_build_seq (ii_sig p))) sn)
      as [[x2|x2|x2] sn1];
    cbn [fst snd rsim] in HR, HS; try contradiction.
    - rewrite run_fn_dry.
      destruct (run_fn_ok RoleInv (ii_fn p) (place (sig_order (ii_sig p)) x2) sn1)
        as (lens & sn2 & E & E1 & E2 & E3).
      rewrite E. cbn [fst snd]. split; [reflexivity|]. apply (Sim_frame_r HS E1 E2 E3).
    - subst x2. split; [reflexivity|exact HS].
    - subst x2. split; [reflexivity|exact HS].
  Qed.

  Lemma invoke_sim sd sn s p :
    Sim sd sn ->
    fst (invoke cfgd bd dud sd s p) = fst (invoke cfg bn dun sn s p) /\
    Sim (snd (invoke cfgd bd dud sd s p)) (snd (invoke cfg bn dun sn s p)).
  Proof.
    intros H. unfold invoke. cbv zeta. rewrite (shallow_missing_sim H).
    destruct (shallow_missing sn s (sig_leaves (ii_sig p))); [|split; [reflexivity|exact H]].
    rewrite (ss_verified (sim_sc H s)), (scope_graph_sim H s).
    destruct (s_verified (get_scope sn s)).
    - apply (inv_tail_sim s p _ _ H).
    - destruct (is_acyclic (scope_graph sn s)) as [[[|] ?]|].
      + apply (inv_tail_sim s p). apply Sim_upd_scope; [exact H|].
        intros c1 c2. apply ssim_set_verified.
      + split; [reflexivity|exact H].
      + split; [reflexivity|exact H].
  Qed.

  Hypothesis Hdefer : cfg_defer cfgd = cfg_defer cfg.

  Lemma step_sim o sd sn :
    Sim sd sn ->
    fst (step cfgd bd dud sd o) = fst (step cfg bn dun sn o) /\
    Sim (snd (step cfgd bd dud sd o)) (snd (step cfg bn dun sn o)).
  Proof.
    intros H. destruct o as [p|s p|s p|s p|k s f]; cbn [step].
    - split; [reflexivity|]. apply new_scope_sim. exact H.
    - apply provide_sim; [exact Hdefer|exact H].
    - apply decorate_sim. exact H.
    - apply invoke_sim. exact H.
    - split; [reflexivity|exact H].
  Qed.

  Lemma run_from_sim h : forall sd sn,
    Sim sd sn ->
    map so_verdict (fst (run_from cfgd bd dud sd h)) = map so_verdict (fst (run_from cfg bn dun sn h)) /\
    Sim (snd (run_from cfgd bd dud sd h)) (snd (run_from cfg bn dun sn h)).
  Proof.
    induction h as [|o t IHh]; intros sd sn H.
    - split; [reflexivity|exact H].
    - rewrite !run_from_cons. cbn [fst snd map so_verdict].
      destruct (step_sim o _ _ H) as [E HS]. destruct (IHh _ _ HS) as [E2 HS2].
      split; [|exact HS2]. rewrite E. f_equal. exact E2.
  Qed.

  (* the dry container and the all-ok normal container report IDENTICAL
     verdicts (same error chains, same keys, same node refs), operation by
     operation, and end in Sim-related states *)
  Theorem dry_same_verdicts_gen h :
    map so_verdict (run cfgd bd dud h) = map so_verdict (run cfg bn dun h).
  Proof. unfold run. apply run_from_sim. apply Sim_refl. Qed.

  Theorem dry_state_after_sim h :
    Sim (state_after cfgd bd dud h) (state_after cfg bn dun h).
  Proof. unfold state_after. apply run_from_sim. apply Sim_refl. Qed.
End Two.

Print Assumptions eval_sim.
Print Assumptions dry_same_verdicts_gen.
Print Assumptions dry_state_after_sim.

(* ================================================================== *)
(* Part 5 : C17 as stated                                              *)
(* ================================================================== *)

(* the same configuration, with DryRun(true) *)
Definition dry_of (cfg : config) : config := mkConfig (cfg_defer cfg) (cfg_recover cfg) true.

Definition all_ok (b : beh) : Prop := forall f e, exists lens, b f e = OOk lens.

(* strongest form: the verdicts themselves are equal *)
Theorem C17_same_verdicts_full : forall cfg b b_ok du h,
  cfg_dry cfg = false -> all_ok b_ok ->
  map so_verdict (run (dry_of cfg) b du h) = map so_verdict (run cfg b_ok du h).
Proof.
  intros cfg b b_ok du h Hnd Hok.
  apply (dry_same_verdicts_gen (dry_of cfg) cfg b b_ok du du); auto.
Qed.
Print Assumptions C17_same_verdicts_full.

Lemma map_verdict_fun {A} (g : verdict -> A) l1 l2 :
  map so_verdict l1 = map so_verdict l2 ->
  map (fun o => g (so_verdict o)) l1 = map (fun o => g (so_verdict o)) l2.
Proof. intros E. rewrite <- !(map_map so_verdict g). now rewrite E. Qed.

(* the observable error chains agree *)
Theorem C17_same_chains : forall cfg b b_ok du h,
  cfg_dry cfg = false -> all_ok b_ok ->
  map (fun o => overdict_of (so_verdict o)) (run (dry_of cfg) b du h) =
  map (fun o => overdict_of (so_verdict o)) (run cfg b_ok du h).
Proof.
  intros. apply map_verdict_fun. now apply C17_same_verdicts_full.
Qed.
Print Assumptions C17_same_chains.

Theorem C17_same_verdicts : forall cfg b b_ok du h,
  cfg_dry cfg = false -> all_ok b_ok ->
  map (fun o => vclass (overdict_of (so_verdict o))) (run (dry_of cfg) b du h) =
  map (fun o => vclass (overdict_of (so_verdict o))) (run cfg b_ok du h).
Proof.
  intros. apply (map_verdict_fun (fun v => vclass (overdict_of v))).
  now apply C17_same_verdicts_full.
Qed.
Print Assumptions C17_same_verdicts.

(* checker form *)
Lemma list_eqb_lkind_refl l : list_eqb lkind_eqb l l = true.
Proof. induction l as [|a t IH]; cbn; [reflexivity|]. rewrite IH. destruct a; reflexivity. Qed.

Lemma chk_same_verdicts_nil : forall a b i,
  map oo_verdict a = map oo_verdict b -> chk_same_verdicts i a b = [].
Proof.
  induction a as [|x a IH]; intros [|y b] i E; cbn [map] in E; try discriminate; [reflexivity|].
  injection E as E1 E2. cbn [chk_same_verdicts]. rewrite E1, Nat.eqb_refl, list_eqb_lkind_refl.
  cbn. apply IH. exact E2.
Qed.

Theorem C17_same_verdicts_checker : forall cfg b b_ok du h,
  cfg_dry cfg = false -> all_ok b_ok ->
  chk_same_verdicts 0 (map obs_of (run (dry_of cfg) b du h)) (map obs_of (run cfg b_ok du h)) = [].
Proof.
  intros cfg b b_ok du h Hnd Hok. apply chk_same_verdicts_nil.
  rewrite !map_map. cbn [obs_of oo_verdict]. now apply C17_same_chains.
Qed.
Print Assumptions C17_same_verdicts_checker.

(* the relation in the words of the task: same cache DOMAINS *)
Lemma Sim_domains sd sn : Sim sd sn -> forall s k,
  (alookup key_eqb k (s_values (get_scope sd s)) = None <->
   alookup key_eqb k (s_values (get_scope sn s)) = None) /\
  (alookup key_eqb k (s_dvalues (get_scope sd s)) = None <->
   alookup key_eqb k (s_dvalues (get_scope sn s)) = None) /\
  (alookup key_eqb k (s_dgroups (get_scope sd s)) = None <->
   alookup key_eqb k (s_dgroups (get_scope sn s)) = None).
Proof.
  intros H s k. repeat split;
    first [ apply (proj1 (dom_eq_None _ _) (ss_values (sim_sc H s)))
          | apply (proj1 (dom_eq_None _ _) (ss_dvalues (sim_sc H s)))
          | apply (proj1 (dom_eq_None _ _) (ss_dgroups (sim_sc H s))) ].
Qed.

(* ================================================================== *)
(* Part 6 : a worked example                                           *)
(* ================================================================== *)

(* two scopes; a constructor of T1 in the root; two contributors to the value
   group G2 (one in the child depending on T1, one slice-valued in the root); a
   decorator of T1 in the child; a constructor of T3 whose dependency T9 is
   never provided.  The dry container is given an oracle full of errors and
   panics (it never consults it); the normal container an all-ok oracle. *)
Module Example.
  Definition cfg : config := mkConfig false false false.
  Definition T1 := KV 1 0.
  Definition T3 := KV 3 0.
  Definition T9 := KV 9 0.
  Definition G2 := KG 2 1.
  Definition h : history :=
    [ OScope 0;
      OProvide 0 (mkProvideIn 1 (mkSig [] [RSingle T1 []] false) false false);
      OProvide 1 (mkProvideIn 2 (mkSig [PSingle T1 false] [RGroup G2 false []] false) false false);
      OProvide 0 (mkProvideIn 3 (mkSig [] [RGroup G2 true []] false) false false);
      ODecorate 1 (mkDecorateIn 4 (mkSig [PSingle T1 false] [RSingle T1 []] false) false);
      OInvoke 1 (mkInvokeIn 5 (mkSig [PSingle T1 false; PGroup G2 false] [] false));
      OProvide 0 (mkProvideIn 6 (mkSig [PSingle T9 false] [RSingle T3 []] false) false false);
      OInvoke 0 (mkInvokeIn 7 (mkSig [PSingle T3 false] [] false));
      OInvoke 1 (mkInvokeIn 8 (mkSig [PSingle T9 false] [] false));
      OInvoke 1 (mkInvokeIn 5 (mkSig [PSingle T1 false; PGroup G2 false] [] false));
      OInvoke 0 (mkInvokeIn 9 (mkSig [PSingle T1 false; PGroup G2 false] [] false)) ].
  Definition b_bad : beh := beh_of [(1, [OErr]); (2, [OPanic]); (4, [OErr]); (5, [OPanic]); (9, [OErr])].
  Definition b_ok : beh := beh_of [(3, [OOk [2]])].
  Definition du : dur := dur_of [(1, [5%N])].

  Definition rd := run (dry_of cfg) b_bad du h.
  Definition rn := run cfg b_ok du h.

  Example dry_vs_normal :
    map so_verdict rd = map so_verdict rn /\
    map (fun o => overdict_of (so_verdict o)) rd =
      [OVOk; OVOk; OVOk; OVOk; OVOk; OVOk; OVOk;
       OVErr [KArgs; KParamSingle; KMissingDeps] QMissing;
       OVErr [KMissingDeps] QMissing;
       OVOk; OVOk] /\
    flat_map so_events rd = [] /\
    length (filter is_exec (flat_map so_events rn)) = 7 /\
    chk_same_verdicts 0 (map obs_of rd) (map obs_of rn) = [].
  Proof. vm_compute. repeat split. Qed.
End Example.
