(* P_Term.v — the model never crashes and never runs out of fuel.

   Model-level content of C05 ("resolution always terminates; never re-enters
   a constructor being built; never crashes") and of C14 ("never panics on its
   own"); closes checker code 204.

   Main theorem [run_never_aborts]: for histories with [wf_scopes], and
   [wf_keys] (see below: NECESSARY, counterexamples at the end of the file),
   no entry of [run cfg b du h] has verdict [VAbort (ABug _)] or
   [VAbort AFuel]; the only abort is an unrecovered user panic.

   Structure
     1  key well-formedness [wf_keys]
     2  list / commit facts
     3  the invariants: [KI] (static: provider / decorator tables agree with the
        signatures), [VI] (dynamic: a called node has committed its values),
        [TR] (frames are popped; called flags are monotone)
     4  one unfolding of [evalF] preserves them and never yields [ABug]  ([eval_PT])
     5  fuel: [eval_fuel_enough]
     6  operations and runs: [step_RI], [run_never_aborts], quiescence
     7  the checkers: [chk_no_crash_nil], [chk_C02_nil], [chk_C14_nil]
     8  examples (non-vacuity of the fuel bound; the counterexamples that make
        [wf_keys] necessary) *)
From Dig Require Import Base Sig State Graph GraphProofs Register Resolve Run EvalInd Spec Check.
From Dig Require Import P_Events P_Frame P_Once.
From Coq Require Import List Arith Bool NArith Lia PeanoNat.
Import ListNotations.

(* ===================================================================== *)
(* 1. Key well-formedness                                                 *)
(* ===================================================================== *)

(* In Go a key is the triple (type, name, group) and a group name is never
   empty, so a single-value key (group = "") can never coincide with a group
   key.  The model's [key] is the bare triple, so this has to be said:
   every single PARAMETER key has group 0 and every group RESULT key has a
   non-zero group.  (Nothing is required of group parameters or of single
   results.) *)
Definition leaf_ok (l : pleaf) : bool :=
  match l with LSingle k _ => Nat.eqb (k_group k) 0 | LGroup _ _ => true end.

Definition rleaf_ok (r : rleaf) : bool :=
  match r with
  | QSingle _ => true
  | QGroup ks _ => forallb (fun k => negb (Nat.eqb (k_group k) 0)) ks
  end.

Definition wf_sig (sg : fsig) : bool :=
  forallb leaf_ok (sig_leaves sg) && forallb rleaf_ok (sig_rleaves sg).

Definition op_keys_ok (o : op) : bool :=
  match o with
  | OProvide _ p => wf_sig (pi_sig p)
  | ODecorate _ p => wf_sig (di_sig p)
  | OInvoke _ p => forallb leaf_ok (sig_leaves (ii_sig p))
  | _ => true
  end.

Definition wf_keys (h : history) : bool := forallb op_keys_ok h.

Lemma wf_sig_dummy : wf_sig dummy_sig = true.
Proof. reflexivity. Qed.

Lemma leaves_build_seq sg :
  forallb leaf_ok (sig_leaves sg) = true -> forallb leaf_ok (sig_build_seq sg) = true.
Proof.
  intros H. rewrite forallb_forall in *. intros l Hl.
  unfold sig_build_seq in Hl. apply in_map_iff in Hl as (i & <- & _).
  destruct (nth_in_or_default i (sig_leaves sg) dummy_leaf) as [Hin| ->]; [apply H; exact Hin|reflexivity].
Qed.

Lemma wf_sig_build_seq sg : wf_sig sg = true -> forallb leaf_ok (sig_build_seq sg) = true.
Proof. unfold wf_sig. intros H. apply andb_true_iff in H as [H _]. apply leaves_build_seq. exact H. Qed.

(* a registered key with group 0 comes from a single result *)
Lemma sig_keys_single sg k :
  wf_sig sg = true -> k_group k = 0 -> In k (sig_keys sg) ->
  exists ks, In (QSingle ks) (sig_rleaves sg) /\ In k ks.
Proof.
  unfold wf_sig, sig_keys. intros H Hk Hin. apply andb_true_iff in H as [_ H].
  rewrite forallb_forall in H. apply in_flat_map in Hin as (r & Hr & Hkr).
  destruct r as [ks|ks fl]; cbn [rleaf_keys] in Hkr.
  - exists ks. split; assumption.
  - exfalso. specialize (H _ Hr). cbn [rleaf_ok] in H. rewrite forallb_forall in H.
    specialize (H _ Hkr). rewrite Hk in H. discriminate H.
Qed.

Lemma dec_keys_single sg k :
  wf_sig sg = true -> k_group k = 0 -> In k (dec_keys sg) ->
  exists ks, In (QSingle (k :: ks)) (sig_rleaves sg).
Proof.
  unfold wf_sig, dec_keys. intros H Hk Hin. apply andb_true_iff in H as [_ H].
  rewrite forallb_forall in H. apply in_flat_map in Hin as (r & Hr & Hkr).
  destruct r as [[|k0 ks]|[|k0 ks] fl]; cbn in Hkr; try destruct Hkr as [<-|[]]; try destruct Hkr.
  - exists ks. exact Hr.
  - exfalso. specialize (H _ Hr). cbn [rleaf_ok forallb] in H.
    rewrite Hk in H. discriminate H.
Qed.

(* ===================================================================== *)
(* 2. List and commit facts                                               *)
(* ===================================================================== *)

Definition has {V} (k : key) (m : list (key * V)) : Prop := alookup key_eqb k m <> None.

Lemma key_eqb_refl k : key_eqb k k = true.
Proof. apply key_eqb_eq. reflexivity. Qed.

Lemma has_aset {V} k k0 (v : V) m : k = k0 \/ has k m -> has k (aset key_eqb k0 v m).
Proof.
  unfold has. rewrite alookup_aset. intros [->|H].
  - rewrite key_eqb_refl. discriminate.
  - destruct (key_eqb k k0); [discriminate|exact H].
Qed.

Lemma has_fold_aset {V} (a : V) k : forall ks m,
  In k ks \/ has k m -> has k (fold_left (fun m k => aset key_eqb k a m) ks m).
Proof.
  induction ks as [|k0 ks IH]; intros m H; cbn [fold_left].
  - destruct H as [[]|H]; exact H.
  - apply IH. destruct H as [[->|H]|H].
    + right. apply has_aset. left. reflexivity.
    + left. exact H.
    + right. apply has_aset. right. exact H.
Qed.

Lemma commit_results_values dry f e lens k : forall rs slot c,
  has k (s_values c) \/ (exists ks, In (QSingle ks) rs /\ In k ks) ->
  has k (s_values (commit_results dry f e lens slot rs c)).
Proof.
  induction rs as [|r rs IH]; intros slot c H; cbn [commit_results].
  - destruct H as [H|(ks & [] & _)]. exact H.
  - destruct r as [ks0|ks0 [|]].
    + apply IH. destruct H as [H|(ks & [E|Hin] & Hk)].
      * left. cbn [s_values sc_set_values]. apply has_fold_aset. right. exact H.
      * injection E as ->. left. cbn [s_values sc_set_values]. apply has_fold_aset. left. exact Hk.
      * right. exists ks. split; assumption.
    + apply IH. destruct H as [H|(ks & [E|Hin] & Hk)]; [left; exact H|discriminate E|].
      right. exists ks. split; assumption.
    + apply IH. destruct H as [H|(ks & [E|Hin] & Hk)]; [left; exact H|discriminate E|].
      right. exists ks. split; assumption.
Qed.

Lemma commit_results_dvalues dry f e lens : forall rs slot c,
  s_dvalues (commit_results dry f e lens slot rs c) = s_dvalues c.
Proof.
  induction rs as [|r rs IH]; intros slot c; cbn [commit_results]; [reflexivity|].
  destruct r as [ks0|ks0 [|]]; rewrite IH; reflexivity.
Qed.

Lemma commit_decorated_dvalues dry f e lens k : forall rs slot c,
  has k (s_dvalues c) \/ (exists ks, In (QSingle (k :: ks)) rs) ->
  has k (s_dvalues (commit_decorated dry f e lens slot rs c)).
Proof.
  induction rs as [|r rs IH]; intros slot c H; cbn [commit_decorated].
  - destruct H as [H|(ks & [])]. exact H.
  - destruct r as [[|k0 ks0]|[|k0 ks0] fl].
    + apply IH. destruct H as [H|(ks & [E|Hin])]; [left; exact H|discriminate E|].
      right. exists ks. exact Hin.
    + apply IH. destruct H as [H|(ks & [E|Hin])].
      * left. cbn [s_dvalues sc_set_dvalues]. apply has_aset. right. exact H.
      * injection E as -> _. left. cbn [s_dvalues sc_set_dvalues]. apply has_aset. left. reflexivity.
      * right. exists ks. exact Hin.
    + apply IH. destruct H as [H|(ks & [E|Hin])]; [left; exact H|discriminate E|].
      right. exists ks. exact Hin.
    + apply IH. destruct H as [H|(ks & [E|Hin])]; [left; exact H|discriminate E|].
      right. exists ks. exact Hin.
Qed.

Lemma commit_decorated_values dry f e lens : forall rs slot c,
  s_values (commit_decorated dry f e lens slot rs c) = s_values c.
Proof.
  induction rs as [|r rs IH]; intros slot c; cbn [commit_decorated]; [reflexivity|].
  destruct r as [[|k0 ks0]|[|k0 ks0] fl]; rewrite IH; reflexivity.
Qed.

(* counting *)
Lemma count_le {A} (p : A -> bool) l : count_occ_b p l <= length l.
Proof. induction l as [|x l IH]; cbn; [lia|]. destruct (p x); lia. Qed.

Lemma count_ext {A} (p : A -> bool) (d : A) : forall l l',
  length l = length l' -> (forall i, p (nth i l d) = p (nth i l' d)) ->
  count_occ_b p l = count_occ_b p l'.
Proof.
  induction l as [|x l IH]; intros [|y l'] HL H; try discriminate HL; [reflexivity|].
  cbn [count_occ_b]. rewrite (H 0 : p x = p y). f_equal.
  apply IH; [injection HL as HL; exact HL|]. intros i. exact (H (S i)).
Qed.

Lemma count_upd_nth {A} (p : A -> bool) (g : A -> A) (d : A) : forall l i,
  i < length l -> p (nth i l d) = true -> p (g (nth i l d)) = false ->
  S (count_occ_b p (upd_nth i g l)) = count_occ_b p l.
Proof.
  induction l as [|x l IH]; intros i Hi H1 H2; [cbn in Hi; lia|].
  destruct i as [|i]; cbn [upd_nth count_occ_b nth] in *.
  - rewrite H1, H2. reflexivity.
  - rewrite <- (IH i); [lia|cbn in Hi; lia|exact H1|exact H2].
Qed.

(* ===================================================================== *)
(* 3. The invariants                                                      *)
(* ===================================================================== *)

(* static: the registration tables agree with the signatures (a function of
   the skeleton only) *)
Record KI (st : state) : Prop := mkKI {
  ki_nsig : forall n, wf_sig (c_sig (get_node st n)) = true;
  ki_dsig : forall d, wf_sig (d_sig (get_dec st d)) = true;
  ki_prov : forall s k n, In n (providers_at st s k) ->
      c_home (get_node st n) = s /\ In k (sig_keys (c_sig (get_node st n)));
  ki_dec : forall s k d, alookup key_eqb k (s_decorators (get_scope st s)) = Some d ->
      d_home (get_dec st d) = s /\ In k (dec_keys (d_sig (get_dec st d)))
}.
Arguments ki_nsig {st} _ n.
Arguments ki_dsig {st} _ d.
Arguments ki_prov {st} _ s k n _.
Arguments ki_dec {st} _ s k d _.

Lemma KI_skel st st' : skel st = skel st' -> KI st -> KI st'.
Proof.
  intros E [A B C D]. apply skel_eq_fields in E. destruct E. constructor.
  - intros n. rewrite <- sf_csig. apply A.
  - intros d. rewrite <- sf_dsig. apply B.
  - intros s k n. unfold providers_at. rewrite <- sf_providers, <- sf_chome, <- sf_csig. apply C.
  - intros s k d. rewrite <- sf_decorators, <- sf_dhome, <- sf_dsig. apply D.
Qed.

(* ranges, from the structural invariant of P_Frame *)
Lemma prov_range st s k n : SInv st -> In n (providers_at st s k) -> n < length (st_nodes st).
Proof.
  intros [_ HB] H. unfold providers_at, alookup_list in H.
  destruct (alookup key_eqb k (s_providers (get_scope st s))) as [ns|] eqn:E; [|destruct H].
  destruct (P_Frame.alookup_In _ _ _ _ E) as [k' Hk']. eapply (bi_providers HB); eauto.
Qed.

Lemma dec_range st s k d : SInv st ->
  alookup key_eqb k (s_decorators (get_scope st s)) = Some d -> d < length (st_decs st).
Proof.
  intros [_ HB] E. destruct (P_Frame.alookup_In _ _ _ _ E) as [k' Hk']. eapply (bi_decorators HB); eauto.
Qed.

(* dynamic: what a called constructor / decorator has committed is in the cache *)
Definition hasv (st : state) (s : sid) (k : key) : Prop := has k (s_values (get_scope st s)).
Definition hasd (st : state) (s : sid) (k : key) : Prop := has k (s_dvalues (get_scope st s)).

Definition nvals_ok (st : state) (n : nid) : Prop :=
  forall ks k, In (QSingle ks) (sig_rleaves (c_sig (get_node st n))) -> In k ks ->
               hasv st (c_home (get_node st n)) k.
Definition dvals_ok (st : state) (d : did) : Prop :=
  forall k ks, In (QSingle (k :: ks)) (sig_rleaves (d_sig (get_dec st d))) ->
               hasd st (d_home (get_dec st d)) k.

Definition VI (st : state) : Prop :=
  (forall n, c_called (get_node st n) = true -> nvals_ok st n) /\
  (forall d, d_state (get_dec st d) = DCalled -> dvals_ok st d).

Lemma VI_mono st st' :
  skel st = skel st' ->
  (forall s k, hasv st s k -> hasv st' s k) ->
  (forall s k, hasd st s k -> hasd st' s k) ->
  (forall n, c_called (get_node st' n) = true -> c_called (get_node st n) = true \/ nvals_ok st' n) ->
  (forall d, d_state (get_dec st' d) = DCalled -> d_state (get_dec st d) = DCalled \/ dvals_ok st' d) ->
  VI st -> VI st'.
Proof.
  intros E Hv Hd Hn Hdd [A B]. apply skel_eq_fields in E. destruct E. split.
  - intros n Hc. destruct (Hn n Hc) as [H|H]; [|exact H].
    intros ks k Hks Hk. rewrite <- sf_chome. apply Hv. apply (A n H ks k); [|exact Hk].
    rewrite sf_csig. exact Hks.
  - intros d Hc. destruct (Hdd d Hc) as [H|H]; [|exact H].
    intros k ks Hks. rewrite <- sf_dhome. apply Hd. apply (B d H k ks).
    rewrite sf_dsig. exact Hks.
Qed.

(* frames are popped and the called flags only grow *)
Definition TR (st st' : state) : Prop :=
  (forall n, c_onstack (get_node st' n) = c_onstack (get_node st n)) /\
  (forall d, d_state (get_dec st' d) = DOnStack <-> d_state (get_dec st d) = DOnStack) /\
  (forall n, c_called (get_node st n) = true -> c_called (get_node st' n) = true).

Lemma TR_refl st : TR st st.
Proof. split; [|split]; intros; tauto. Qed.

Lemma TR_trans x y z : TR x y -> TR y z -> TR x z.
Proof.
  intros (A1 & B1 & C1) (A2 & B2 & C2). split; [|split].
  - intros n. rewrite A2. apply A1.
  - intros d. rewrite B2. apply B1.
  - intros n H. apply C2. apply C1. exact H.
Qed.

Definition G (st : state) : Prop := SInv st /\ KI st /\ VI st.

Lemma pres_lens st st' : pres st st' ->
  length (st_nodes st') = length (st_nodes st) /\ length (st_decs st') = length (st_decs st) /\
  length (st_scopes st') = length (st_scopes st).
Proof. intros [E _]. apply skel_eq_fields in E. destruct E. auto. Qed.

Lemma pres_static st st' : pres st st' -> SInv st -> KI st -> SInv st' /\ KI st'.
Proof.
  intros [E _] HS HK. split.
  - eapply SInv_skel; [symmetry; exact E|exact HS].
  - eapply KI_skel; [symmetry; exact E|exact HK].
Qed.

(* ---------- tasks: what a caller guarantees, what a callee returns ---------- *)

Definition tpre (t : task) (st : state) : Prop :=
  match t with
  | TLeaf _ l => leaf_ok l = true
  | TLeaves _ ls => forallb leaf_ok ls = true
  | TCallCtor n => n < length (st_nodes st)
  | TCallDec d => d < length (st_decs st) /\ d_state (get_dec st d) <> DOnStack
  end.

Definition nobug {A} (r : res A) : Prop :=
  match r with Abort (ABug _) => False | _ => True end.

Definition tpost (t : task) (r : res (list arg)) (st' : state) : Prop :=
  nobug r /\
  match r, t with
  | Done _, TCallCtor n => c_called (get_node st' n) = true
  | Done _, TCallDec d => d_state (get_dec st' d) = DCalled
  | _, _ => True
  end.

Definition PT (t : task) (st : state) (o : out) : Prop :=
  pres st (snd o) /\
  (tpre t st -> G st -> G (snd o) /\ TR st (snd o) /\ tpost t (fst o) (snd o)).

(* ---------- setters: the fields the invariants look at ---------- *)

Lemma node_field_upd {X} (fld : cnode -> X) st n f m :
  (forall c, fld (f c) = fld c) -> fld (get_node (upd_node st n f) m) = fld (get_node st m).
Proof.
  intros H. destruct (Nat.eq_dec n m) as [<-|Hne].
  - destruct (Nat.lt_ge_cases n (length (st_nodes st))) as [Hlt|Hge].
    + rewrite get_node_upd_same by exact Hlt. apply H.
    + rewrite upd_node_oob by exact Hge. reflexivity.
  - rewrite get_node_upd_other by exact Hne. reflexivity.
Qed.

Lemma called_set_onstack st n x m :
  c_called (get_node (set_onstack st n x) m) = c_called (get_node st m).
Proof. apply (node_field_upd c_called). reflexivity. Qed.

Lemma onstack_set_called st n m :
  c_onstack (get_node (set_called st n) m) = c_onstack (get_node st m).
Proof. apply (node_field_upd c_onstack). reflexivity. Qed.

Lemma onstack_set_same st n x : n < length (st_nodes st) -> c_onstack (get_node (set_onstack st n x) n) = x.
Proof. intros H. unfold set_onstack. rewrite get_node_upd_same by exact H. reflexivity. Qed.

Lemma onstack_set_other st n x m : m <> n -> c_onstack (get_node (set_onstack st n x) m) = c_onstack (get_node st m).
Proof. intros H. unfold set_onstack. rewrite get_node_upd_other by (intros E; apply H; symmetry; exact E). reflexivity. Qed.

Lemma called_set_same st n : n < length (st_nodes st) -> c_called (get_node (set_called st n) n) = true.
Proof. intros H. unfold set_called. rewrite get_node_upd_same by exact H. reflexivity. Qed.

Lemma called_set_other st n m : m <> n -> c_called (get_node (set_called st n) m) = c_called (get_node st m).
Proof. intros H. unfold set_called. rewrite get_node_upd_other by (intros E; apply H; symmetry; exact E). reflexivity. Qed.

Lemma called_set_mono st n m : c_called (get_node st m) = true -> c_called (get_node (set_called st n) m) = true.
Proof.
  intros H. destruct (Nat.eq_dec m n) as [->|Hne]; [|rewrite called_set_other by exact Hne; exact H].
  destruct (Nat.lt_ge_cases n (length (st_nodes st))) as [Hlt|Hge]; [apply called_set_same; exact Hlt|].
  unfold set_called. rewrite upd_node_oob by exact Hge. exact H.
Qed.

Lemma dstate_set_same st d x : d < length (st_decs st) -> d_state (get_dec (set_dstate st d x) d) = x.
Proof. intros H. unfold set_dstate. rewrite get_dec_upd_same by exact H. reflexivity. Qed.

Lemma dstate_set_other st d x d' : d' <> d -> get_dec (set_dstate st d x) d' = get_dec st d'.
Proof. intros H. unfold set_dstate. rewrite get_dec_upd_other by (intros E; apply H; symmetry; exact E). reflexivity. Qed.

(* run_fn and callback touch only counters, clock and log *)
Definition deq (st st' : state) : Prop :=
  st_scopes st' = st_scopes st /\ st_nodes st' = st_nodes st /\ st_decs st' = st_decs st.

Lemma deq_run_fn cfg b du r f args st : deq st (snd (run_fn cfg b du r f args st)).
Proof. unfold run_fn. destruct (cfg_dry cfg); cbn [snd]; repeat split. Qed.

Lemma deq_callback has f c start st : deq st (callback has f c start st).
Proof. destruct has; repeat split. Qed.

Lemma deq_node st st' m : deq st st' -> get_node st' m = get_node st m.
Proof. intros (_ & E & _). unfold get_node. rewrite E. reflexivity. Qed.
Lemma deq_dec st st' m : deq st st' -> get_dec st' m = get_dec st m.
Proof. intros (_ & _ & E). unfold get_dec. rewrite E. reflexivity. Qed.
Lemma deq_scope st st' m : deq st st' -> get_scope st' m = get_scope st m.
Proof. intros (E & _ & _). unfold get_scope. rewrite E. reflexivity. Qed.
Arguments deq_node {st st'} m _.
Arguments deq_dec {st st'} m _.
Arguments deq_scope {st st'} m _.

Lemma find_dec_inv st v k d s :
  find_dec st v k = Some (d, s) ->
  alookup key_eqb k (s_decorators (get_scope st s)) = Some d /\ d_state (get_dec st d) <> DOnStack.
Proof.
  unfold find_dec. intros H. apply find_map_some in H as (x & _ & H).
  destruct (alookup key_eqb k (s_decorators (get_scope st x))) as [d'|] eqn:E; [|discriminate].
  destruct (dstate_eqb (d_state (get_dec st d')) DOnStack) eqn:E2; [discriminate|].
  injection H as -> ->. split; [exact E|]. apply dstate_eqb_false. exact E2.
Qed.

Lemma find_provider_ne st k : forall bs s ns, find_provider st bs k = PProv s ns -> ns <> [].
Proof.
  induction bs as [|a bs IHbs]; intros s ns; cbn [find_provider]; [discriminate|].
  destruct (alookup key_eqb k (s_values (get_scope st a))); [discriminate|].
  destruct (providers_at st a k) as [|n0 ns0] eqn:E; [apply IHbs|].
  intros H. injection H as <- <-. discriminate.
Qed.


Lemma deq_refl st : deq st st.
Proof. repeat split. Qed.
Lemma deq_trans x y z : deq x y -> deq y z -> deq x z.
Proof. intros (A1 & B1 & C1) (A2 & B2 & C2). repeat split; congruence. Qed.

Lemma deq_pres st st' : deq st st' -> pres st st'.
Proof. intros (A & B & C). unfold pres, skel, vflags. rewrite A, B, C. split; reflexivity. Qed.

Lemma VI_deq st st' : deq st st' -> VI st -> VI st'.
Proof.
  intros D [A B]. split.
  - intros n Hc ks k Hks Hk. unfold hasv. rewrite (deq_node n D) in *. rewrite (deq_scope _ D).
    exact (A n Hc ks k Hks Hk).
  - intros d Hc k ks Hks. unfold hasd. rewrite (deq_dec d D) in *. rewrite (deq_scope _ D).
    exact (B d Hc k ks Hks).
Qed.

Lemma TR_deq st st' : deq st st' -> TR st st'.
Proof.
  intros D. split; [|split].
  - intros n. rewrite (deq_node n D). reflexivity.
  - intros d. rewrite (deq_dec d D). tauto.
  - intros n. rewrite (deq_node n D). tauto.
Qed.

Lemma VI_set_onstack st n x : VI st -> VI (set_onstack st n x).
Proof.
  apply VI_mono.
  - symmetry. apply pres_set_onstack.
  - intros s k H. exact H.
  - intros s k H. exact H.
  - intros m H. left. rewrite called_set_onstack in H. exact H.
  - intros d H. left. exact H.
Qed.

(* every exit of call_ctor pops the frame it pushed *)
Lemma ctor_exit st n Y :
  n < length (st_nodes st) -> c_onstack (get_node st n) = false ->
  VI Y -> pres st Y -> TR (set_onstack st n true) Y ->
  VI (set_onstack Y n false) /\ TR st (set_onstack Y n false).
Proof.
  intros Hn Eo HV HP (A & B & C). split; [apply VI_set_onstack; exact HV|].
  destruct (pres_lens _ _ HP) as (LN & _ & _).
  split; [|split].
  - intros m. destruct (Nat.eq_dec m n) as [->|Hne].
    + rewrite onstack_set_same by (rewrite LN; exact Hn). symmetry. exact Eo.
    + rewrite onstack_set_other by exact Hne. rewrite A. apply onstack_set_other. exact Hne.
  - intros d. exact (B d).
  - intros m H. rewrite called_set_onstack. apply C. rewrite called_set_onstack. exact H.
Qed.

Lemma dec_exit st d Y :
  d < length (st_decs st) -> d_state (get_dec st d) <> DOnStack ->
  VI Y -> pres st Y -> TR (set_dstate st d DOnStack) Y ->
  VI (set_dstate Y d DReady) /\ TR st (set_dstate Y d DReady).
Proof.
  intros Hd Eo HV HP (A & B & C).
  destruct (pres_lens _ _ HP) as (_ & LD & _).
  split.
  - revert HV. apply VI_mono.
    + symmetry. apply pres_set_dstate.
    + intros s k H. exact H.
    + intros s k H. exact H.
    + intros m H. left. exact H.
    + intros d' H. left. destruct (Nat.eq_dec d' d) as [->|Hne].
      * rewrite dstate_set_same in H by (rewrite LD; exact Hd). discriminate H.
      * rewrite dstate_set_other in H by exact Hne. exact H.
  - split; [|split].
    + intros m. exact (A m).
    + intros d'. destruct (Nat.eq_dec d' d) as [->|Hne].
      * rewrite dstate_set_same by (rewrite LD; exact Hd). split; [discriminate|]. intros H. exfalso. exact (Eo H).
      * rewrite dstate_set_other by exact Hne. rewrite B. rewrite dstate_set_other by exact Hne. tauto.
    + intros m H. apply C. exact H.
Qed.

(* ===================================================================== *)
(* 4. One unfolding of evalF                                              *)
(* ===================================================================== *)

Definition lnobug (r : lres) : Prop :=
  match r with LAbort (ABug _) => False | _ => True end.

Section Step.
  Variables (cfg : config) (b : beh) (du : dur).
  Variable rec : task -> state -> out.
  Hypothesis IH : forall t st, PT t st (rec t st).

  Let IHp : forall t st, pres st (snd (rec t st)) := fun t st => proj1 (IH t st).

  Lemma T_call_ctors : forall ns st,
    (forall n, In n ns -> n < length (st_nodes st)) -> G st ->
    G (snd (call_ctors rec ns st)) /\ TR st (snd (call_ctors rec ns st)) /\
    lnobug (fst (call_ctors rec ns st)) /\
    (fst (call_ctors rec ns st) = LDone ->
     forall n, In n ns -> c_called (get_node (snd (call_ctors rec ns st)) n) = true).
  Proof.
    induction ns as [|n t IHn]; intros st Hr HG; cbn [call_ctors].
    - cbn [fst snd]. split; [exact HG|]. split; [apply TR_refl|]. split; [exact I|]. intros _ n [].
    - destruct (IH (TCallCtor n) st) as [Hp H]. specialize (H (Hr n (or_introl eq_refl)) HG).
      unfold tpost, nobug in H.
      destruct (rec (TCallCtor n) st) as [[r|e|a] st1]; cbn [fst snd] in *.
      + destruct H as (G1 & T1 & _ & C1).
        destruct (pres_lens _ _ Hp) as (L1 & _ & _).
        destruct (IHn st1) as (G2 & T2 & N2 & P2).
        { intros m Hm. rewrite L1. apply Hr. right. exact Hm. }
        { exact G1. }
        split; [exact G2|]. split; [eapply TR_trans; eauto|]. split; [exact N2|].
        intros E m [<-|Hm]; [apply T2; exact C1|apply P2; assumption].
      + destruct H as (G1 & T1 & _). split; [exact G1|]. split; [exact T1|]. split; [exact I|discriminate].
      + destruct H as (G1 & T1 & N1 & _). split; [exact G1|]. split; [exact T1|]. split; [exact N1|discriminate].
  Qed.

  Lemma T_call_group_decs k : forall bs st, G st ->
    G (snd (call_group_decs rec k bs st)) /\ TR st (snd (call_group_decs rec k bs st)) /\
    lnobug (fst (call_group_decs rec k bs st)).
  Proof.
    induction bs as [|s t IHb]; intros st HG; cbn [call_group_decs].
    - cbn [fst snd]. split; [exact HG|]. split; [apply TR_refl|exact I].
    - destruct (alookup key_eqb k (s_decorators (get_scope st s))) as [d|] eqn:E; [|apply IHb; exact HG].
      destruct (dstate_eqb (d_state (get_dec st d)) DOnStack) eqn:E2; [apply IHb; exact HG|].
      destruct (IH (TCallDec d) st) as [Hp H].
      assert (Hpre : tpre (TCallDec d) st).
      { split; [eapply dec_range; [apply HG|exact E]|]. apply dstate_eqb_false. exact E2. }
      specialize (H Hpre HG). unfold tpost, nobug in H.
      destruct (rec (TCallDec d) st) as [[r|e|a] st1]; cbn [fst snd] in *.
      + destruct H as (G1 & T1 & _).
        destruct (IHb st1 G1) as (G2 & T2 & N2).
        split; [exact G2|]. split; [eapply TR_trans; eauto|exact N2].
      + destruct H as (G1 & T1 & _). split; [exact G1|]. split; [exact T1|exact I].
      + destruct H as (G1 & T1 & N1 & _). split; [exact G1|]. split; [exact T1|exact N1].
  Qed.

  Lemma T_build_list v : forall ls st, forallb leaf_ok ls = true -> G st ->
    G (snd (build_list rec v ls st)) /\ TR st (snd (build_list rec v ls st)) /\
    nobug (fst (build_list rec v ls st)).
  Proof.
    induction ls as [|l t IHl]; intros st Hl HG; cbn [build_list].
    - cbn [fst snd]. split; [exact HG|]. split; [apply TR_refl|exact I].
    - cbn [forallb] in Hl. apply andb_true_iff in Hl as [Hl Ht].
      destruct (IH (TLeaf v l) st) as [Hp H]. specialize (H Hl HG). unfold tpost in H.
      destruct (rec (TLeaf v l) st) as [[r|e|a] st1]; cbn [fst snd] in *.
      + destruct H as (G1 & T1 & _).
        destruct (IHl st1 Ht G1) as (G2 & T2 & N2).
        destruct (build_list rec v t st1) as [[r2|e2|a2] st2]; cbn [fst snd] in *;
          (split; [exact G2|]; split; [eapply TR_trans; eauto|]); [exact I|exact I|exact N2].
      + destruct H as (G1 & T1 & _). split; [exact G1|]. split; [exact T1|exact I].
      + destruct H as (G1 & T1 & N1 & _). split; [exact G1|]. split; [exact T1|exact N1].
  Qed.

  Lemma T_build_single v k opt st : k_group k = 0 -> G st ->
    G (snd (build_single rec v k opt st)) /\ TR st (snd (build_single rec v k opt st)) /\
    nobug (fst (build_single rec v k opt st)).
  Proof.
    intros Hk HG. unfold build_single.
    destruct (find_dec st v k) as [[d bsc]|] eqn:EF.
    - (* a decorator: ABug 1 *)
      apply find_dec_inv in EF as [ED EO].
      destruct HG as (HS & HK & HV).
      destruct (ki_dec HK _ _ _ ED) as [Hhome Hkeys].
      destruct (dec_keys_single _ _ (ki_dsig HK d) Hk Hkeys) as [ks Hks].
      destruct (IH (TCallDec d) st) as [Hp H].
      assert (Hpre : tpre (TCallDec d) st) by (split; [eapply dec_range; eauto|exact EO]).
      specialize (H Hpre (conj HS (conj HK HV))). unfold tpost, nobug in H.
      destruct (rec (TCallDec d) st) as [[r|e|a] st1]; cbn [fst snd] in *.
      + destruct H as (G1 & T1 & _ & C1).
        destruct (alookup key_eqb k (s_dvalues (get_scope st1 bsc))) as [a|] eqn:EA; cbn [fst snd].
        * split; [exact G1|]. split; [exact T1|exact I].
        * exfalso. destruct G1 as (_ & _ & (_ & V1)).
          destruct Hp as [Esk _]. apply skel_eq_fields in Esk. destruct Esk.
          specialize (V1 d C1 k ks). rewrite sf_dsig, sf_dhome, Hhome in V1.
          apply (V1 Hks). exact EA.
      + destruct H as (G1 & T1 & _). split; [exact G1|]. split; [exact T1|exact I].
      + destruct H as (G1 & T1 & N1 & _). split; [exact G1|]. split; [exact T1|exact N1].
    - destruct (find_map _ (path st v)); [cbn [fst snd]; split; [exact HG|]; split; [apply TR_refl|exact I]|].
      destruct (find_provider st (path st v) k) as [a|bsc ns|] eqn:EP.
      + cbn [fst snd]. split; [exact HG|]. split; [apply TR_refl|exact I].
      + (* providers: ABug 2 *)
        pose proof (find_provider_PProv _ _ _ _ _ EP) as Ens.
        pose proof (find_provider_ne _ _ _ _ _ EP) as Hne.
        assert (Hr : forall n, In n ns -> n < length (st_nodes st)).
        { intros n Hn. rewrite Ens in Hn. eapply prov_range; [apply HG|exact Hn]. }
        destruct (T_call_ctors ns st Hr HG) as (G1 & T1 & N1 & C1).
        pose proof (pres_call_ctors rec IHp ns st) as Hp.
        destruct (call_ctors rec ns st) as [[|c e|a] st1]; cbn [fst snd] in *.
        * destruct (alookup key_eqb k (s_values (get_scope st1 bsc))) as [a|] eqn:EA; cbn [fst snd].
          { split; [exact G1|]. split; [exact T1|exact I]. }
          exfalso. destruct ns as [|n0 ns']; [apply Hne; reflexivity|].
          destruct HG as (HS & HK & HV).
          assert (Hin : In n0 (providers_at st bsc k)) by (rewrite <- Ens; left; reflexivity).
          destruct (ki_prov HK _ _ _ Hin) as [Hhome Hkeys].
          destruct (sig_keys_single _ _ (ki_nsig HK n0) Hk Hkeys) as (ks & Hks & Hkk).
          destruct G1 as (_ & _ & (V1 & _)).
          destruct Hp as [Esk _]. apply skel_eq_fields in Esk. destruct Esk.
          specialize (V1 n0 (C1 eq_refl n0 (or_introl eq_refl)) ks k).
          rewrite sf_csig, sf_chome, Hhome in V1. apply (V1 Hks Hkk). exact EA.
        * destruct (opt && has_missingdeps e); cbn [fst snd]; (split; [exact G1|]; split; [exact T1|exact I]).
        * split; [exact G1|]. split; [exact T1|exact N1].
      + destruct opt; cbn [fst snd]; (split; [exact HG|]; split; [apply TR_refl|exact I]).
  Qed.

  Lemma T_build_group v k soft st : G st ->
    G (snd (build_group rec v k soft st)) /\ TR st (snd (build_group rec v k soft st)) /\
    nobug (fst (build_group rec v k soft st)).
  Proof.
    intros HG. unfold build_group.
    destruct (T_call_group_decs k (rev (path st v)) st HG) as (G1 & T1 & N1).
    destruct (call_group_decs rec k (rev (path st v)) st) as [[|c e|a] st1]; cbn [fst snd] in *.
    - destruct (find_map _ (path st1 v)); [cbn [fst snd]; split; [exact G1|]; split; [exact T1|exact I]|].
      destruct soft; [cbn [fst snd]; split; [exact G1|]; split; [exact T1|exact I]|].
      assert (Hr : forall n, In n (providers_on_path st1 v k) -> n < length (st_nodes st1)).
      { intros n Hn. destruct G1 as ([_ HB] & _). eapply pop_bound; eauto. }
      destruct (T_call_ctors _ st1 Hr G1) as (G2 & T2 & N2 & _).
      destruct (call_ctors rec (providers_on_path st1 v k) st1) as [[|c e|a] st2]; cbn [fst snd] in *;
        (split; [exact G2|]; split; [eapply TR_trans; eauto|]); [exact I|exact I|exact N2].
    - split; [exact G1|]. split; [exact T1|exact I].
    - split; [exact G1|]. split; [exact T1|exact N1].
  Qed.

  Lemma T_call_ctor n st : PT (TCallCtor n) st (call_ctor cfg b du rec n st).
  Proof.
    split; [apply pres_call_ctor; exact IHp|].
    intros Hn HG. cbn [tpre] in Hn. unfold call_ctor.
    destruct (c_called (get_node st n)) eqn:Ec.
    { cbn [fst snd]. split; [exact HG|]. split; [apply TR_refl|]. split; [exact I|exact Ec]. }
    destruct (c_onstack (get_node st n)) eqn:Eo.
    { cbn [fst snd]. split; [exact HG|]. split; [apply TR_refl|]. split; exact I. }
    set (c := get_node st n).
    set (st0 := set_onstack st n true).
    assert (P0 : pres st st0) by apply pres_set_onstack.
    destruct HG as (HS & HK & HV).
    destruct (pres_static _ _ P0 HS HK) as [HS0 HK0].
    assert (HV0 : VI st0) by (apply VI_set_onstack; exact HV).
    (* what is left to do once the state Y before the final pop is known *)
    assert (EXIT : forall Y, VI Y -> pres st Y -> TR st0 Y ->
              G (set_onstack Y n false) /\ TR st (set_onstack Y n false)).
    { intros Y HVY HPY HTY.
      destruct (ctor_exit st n Y Hn Eo HVY HPY HTY) as [V T].
      assert (PF : pres st (set_onstack Y n false)) by (eapply pres_trans; [exact HPY|apply pres_set_onstack]).
      destruct (pres_static _ _ PF HS HK) as [HSF HKF].
      split; [split; [exact HSF|split; [exact HKF|exact V]]|exact T]. }
    destruct (shallow_missing st0 (c_orig c) (sig_leaves (c_sig c))) as [|k0 ks].
    2:{ cbn [fst snd]. destruct (EXIT st0 HV0 P0 (TR_refl st0)) as [GF TF].
        split; [exact GF|]. split; [exact TF|]. split; exact I. }
    destruct (IH (TLeaves (c_orig c) (sig_build_seq (c_sig c))) st0) as [P1 H].
    assert (Hpre : tpre (TLeaves (c_orig c) (sig_build_seq (c_sig c))) st0).
    { cbn [tpre]. apply wf_sig_build_seq. apply (ki_nsig HK). }
    specialize (H Hpre (conj HS0 (conj HK0 HV0))). unfold tpost, nobug in H.
    destruct (rec (TLeaves (c_orig c) (sig_build_seq (c_sig c))) st0) as [[built|e|a] st1]; cbn [fst snd] in *.
    2:{ destruct H as ((_ & _ & V1) & T1 & _).
        destruct (EXIT st1 V1 (pres_trans _ _ _ P0 P1) T1) as [GF TF].
        split; [exact GF|]. split; [exact TF|]. split; exact I. }
    2:{ destruct H as ((_ & _ & V1) & T1 & N1 & _).
        destruct (EXIT st1 V1 (pres_trans _ _ _ P0 P1) T1) as [GF TF].
        split; [exact GF|]. split; [exact TF|]. split; [exact N1|exact I]. }
    destruct H as ((S1 & K1 & V1) & T1 & _).
    assert (P01 : pres st st1) by (eapply pres_trans; eauto).
    pose proof (deq_run_fn cfg b du RoleCtor (c_fn c) (place (sig_order (c_sig c)) built) st1) as D2.
    destruct (run_fn cfg b du RoleCtor (c_fn c) (place (sig_order (c_sig c)) built) st1) as [[o e] st2].
    cbn [snd] in D2.
    (* exits on which nothing was committed *)
    assert (NOCOMMIT : forall has f cl start r, nobug r ->
              G (set_onstack (callback has f cl start st2) n false) /\
              TR st (set_onstack (callback has f cl start st2) n false) /\
              tpost (TCallCtor n) (match r with Done _ => Fail (mkErr [] RCycle) | x => x end)
                    (set_onstack (callback has f cl start st2) n false)).
    { intros has f cl start r Hr.
      assert (DY : deq st1 (callback has f cl start st2)) by (eapply deq_trans; [exact D2|apply deq_callback]).
      destruct (EXIT (callback has f cl start st2)) as [GF TF].
      - eapply VI_deq; eauto.
      - eapply pres_trans; [exact P01|apply deq_pres; exact DY].
      - eapply TR_trans; [exact T1|apply TR_deq; exact DY].
      - split; [exact GF|]. split; [exact TF|]. destruct r as [x|x|[| |]]; split; try exact I; exact Hr. }
    destruct o as [lens| |]; [| |destruct (cfg_recover cfg)]; cbn [fst snd].
    - (* success: commit, mark called *)
      set (F := commit_results (cfg_dry cfg) (c_fn c) e lens 0 (sig_rleaves (c_sig c))).
      set (st3 := upd_scope st2 (c_home c) F).
      set (Y := callback (c_cb c) (c_fn c) ENone (st_clock st1) (set_called st3 n)).
      assert (L1 : length (st_nodes st1) = length (st_nodes st)) by apply (pres_lens _ _ P01).
      assert (L3 : length (st_nodes st3) = length (st_nodes st1)).
      { unfold st3. rewrite nodes_upd_scope. destruct D2 as (_ & -> & _). reflexivity. }
      assert (DY : deq (set_called st3 n) Y) by apply deq_callback.
      assert (P1Y : pres st1 Y).
      { eapply pres_trans; [apply deq_pres; exact D2|].
        eapply pres_trans; [|apply deq_pres; exact DY].
        eapply pres_trans; [|apply pres_set_called].
        apply pres_upd_scope; intros c0; apply commit_results_skel. }
      assert (SC : forall s, get_scope Y s = get_scope st1 s \/
                             (s = c_home c /\ get_scope Y s = F (get_scope st1 s))).
      { intros s. rewrite (deq_scope s DY).
        change (get_scope (set_called st3 n) s) with (get_scope st3 s). unfold st3.
        destruct (get_scope_upd_cases st2 (c_home c) F s) as [E|[-> E]]; rewrite E, (deq_scope _ D2); auto. }
      assert (Hhome : c_home c < length (st_scopes st1)).
      { destruct (pres_lens _ _ P01) as (_ & _ & ->). destruct HS as [_ HB]. apply (bi_node_home HB n Hn). }
      assert (SCh : get_scope Y (c_home c) = F (get_scope st1 (c_home c))).
      { rewrite (deq_scope _ DY).
        change (get_scope (set_called st3 n) (c_home c)) with (get_scope st3 (c_home c)). unfold st3.
        rewrite P_Once.get_scope_upd_same; [rewrite (deq_scope _ D2); reflexivity|].
        destruct D2 as (-> & _ & _). exact Hhome. }
      assert (NY : forall m, get_node Y m = get_node (set_called st3 n) m) by (intros m; apply (deq_node m DY)).
      assert (N3 : forall m, get_node st3 m = get_node st1 m).
      { intros m. unfold st3. rewrite get_node_upd_scope. apply (deq_node m D2). }
      assert (DD : forall d, get_dec Y d = get_dec st1 d).
      { intros d. rewrite (deq_dec d DY). change (get_dec (set_called st3 n) d) with (get_dec st2 d). apply (deq_dec d D2). }
      assert (VY : VI Y).
      { revert V1. apply VI_mono.
        - symmetry. apply P1Y.
        - intros s k H. unfold hasv in *. destruct (SC s) as [E|[_ E]]; rewrite E; [exact H|].
          apply commit_results_values. left. exact H.
        - intros s k H. unfold hasd in *. destruct (SC s) as [E|[_ E]]; rewrite E; [exact H|].
          unfold F. rewrite commit_results_dvalues. exact H.
        - intros m H. rewrite NY in H. destruct (Nat.eq_dec m n) as [->|Hne].
          + right. intros ks k Hks Hk. unfold hasv.
            destruct P1Y as [Esk _]. apply skel_eq_fields in Esk. destruct Esk.
            destruct P01 as [Esk' _]. apply skel_eq_fields in Esk'. destruct Esk'.
            rewrite sf_csig, sf_csig0 in Hks. rewrite sf_chome, sf_chome0. fold c in Hks |- *.
            rewrite SCh. apply commit_results_values. right. exists ks. split; assumption.
          + left. rewrite called_set_other in H by exact Hne. rewrite N3 in H. exact H.
        - intros d H. left. rewrite DD in H. exact H. }
      assert (TY : TR st1 Y).
      { split; [|split].
        - intros m. rewrite NY, onstack_set_called, N3. reflexivity.
        - intros d. rewrite DD. tauto.
        - intros m H. rewrite NY. apply called_set_mono. rewrite N3. exact H. }
      destruct (EXIT Y VY (pres_trans _ _ _ P01 P1Y) (TR_trans _ _ _ T1 TY)) as [GF TF].
      split; [exact GF|]. split; [exact TF|]. split; [exact I|].
      rewrite called_set_onstack, NY. apply called_set_same. rewrite L3, L1. exact Hn.
    - apply (NOCOMMIT (c_cb c) (c_fn c) (EUser (c_fn c) e) (st_clock st1) (Fail (mkErr [LCtorFailed] (RUser (c_fn c) e))) I).
    - apply (NOCOMMIT (c_cb c) (c_fn c) (EPanicE (c_fn c) e) (st_clock st1) (Fail (mkErr [] (RPanic (c_fn c) e))) I).
    - apply (NOCOMMIT (c_cb c) (c_fn c) ENone (st_clock st1) (Abort (APanicked (c_fn c) e)) I).
  Qed.

  Lemma T_call_dec d st : PT (TCallDec d) st (call_dec cfg b du rec d st).
  Proof.
    split; [apply pres_call_dec; exact IHp|].
    intros [Hd Eo] HG. unfold call_dec.
    destruct (dstate_eqb (d_state (get_dec st d)) DCalled) eqn:Ec.
    { cbn [fst snd]. split; [exact HG|]. split; [apply TR_refl|]. split; [exact I|].
      apply dstate_eqb_true. exact Ec. }
    set (dn := get_dec st d).
    set (st0 := set_dstate st d DOnStack).
    assert (P0 : pres st st0) by apply pres_set_dstate.
    destruct HG as (HS & HK & HV).
    destruct (pres_static _ _ P0 HS HK) as [HS0 HK0].
    assert (LD0 : length (st_decs st0) = length (st_decs st)) by apply (pres_lens _ _ P0).
    assert (HV0 : VI st0).
    { revert HV. apply VI_mono.
      - symmetry. apply P0.
      - intros s k H. exact H.
      - intros s k H. exact H.
      - intros m H. left. exact H.
      - intros d' H. left. destruct (Nat.eq_dec d' d) as [->|Hne].
        + unfold st0 in H. rewrite dstate_set_same in H by exact Hd. discriminate H.
        + unfold st0 in H. rewrite dstate_set_other in H by exact Hne. exact H. }
    assert (EXIT : forall Y, VI Y -> pres st Y -> TR st0 Y ->
              G (set_dstate Y d DReady) /\ TR st (set_dstate Y d DReady)).
    { intros Y HVY HPY HTY.
      destruct (dec_exit st d Y Hd Eo HVY HPY HTY) as [V T].
      assert (PF : pres st (set_dstate Y d DReady)) by (eapply pres_trans; [exact HPY|apply pres_set_dstate]).
      destruct (pres_static _ _ PF HS HK) as [HSF HKF].
      split; [split; [exact HSF|split; [exact HKF|exact V]]|exact T]. }
    destruct (shallow_missing st0 (d_home dn) (sig_leaves (d_sig dn))) as [|k0 ks].
    2:{ cbn [fst snd]. destruct (EXIT st0 HV0 P0 (TR_refl st0)) as [GF TF].
        split; [exact GF|]. split; [exact TF|]. split; exact I. }
    destruct (IH (TLeaves (d_home dn) (sig_build_seq (d_sig dn))) st0) as [P1 H].
    assert (Hpre : tpre (TLeaves (d_home dn) (sig_build_seq (d_sig dn))) st0).
    { cbn [tpre]. apply wf_sig_build_seq. apply (ki_dsig HK). }
    specialize (H Hpre (conj HS0 (conj HK0 HV0))). unfold tpost, nobug in H.
    destruct (rec (TLeaves (d_home dn) (sig_build_seq (d_sig dn))) st0) as [[built|e|a] st1]; cbn [fst snd] in *.
    2:{ destruct H as ((_ & _ & V1) & T1 & _).
        destruct (EXIT st1 V1 (pres_trans _ _ _ P0 P1) T1) as [GF TF].
        split; [exact GF|]. split; [exact TF|]. split; exact I. }
    2:{ destruct H as ((_ & _ & V1) & T1 & N1 & _).
        destruct (EXIT st1 V1 (pres_trans _ _ _ P0 P1) T1) as [GF TF].
        split; [exact GF|]. split; [exact TF|]. split; [exact N1|exact I]. }
    destruct H as ((S1 & K1 & V1) & T1 & _).
    assert (P01 : pres st st1) by (eapply pres_trans; eauto).
    pose proof (deq_run_fn cfg b du RoleDec (d_fn dn) (place (sig_order (d_sig dn)) built) st1) as D2.
    destruct (run_fn cfg b du RoleDec (d_fn dn) (place (sig_order (d_sig dn)) built) st1) as [[o e] st2].
    cbn [snd] in D2.
    assert (NOCOMMIT : forall has f cl start r, nobug r ->
              G (callback has f cl start (set_dstate st2 d DReady)) /\
              TR st (callback has f cl start (set_dstate st2 d DReady)) /\
              tpost (TCallDec d) (match r with Done _ => Fail (mkErr [] RCycle) | x => x end)
                    (callback has f cl start (set_dstate st2 d DReady))).
    { intros has f cl start r Hr.
      destruct (EXIT st2) as [GF TF].
      - eapply VI_deq; eauto.
      - eapply pres_trans; [exact P01|apply deq_pres; exact D2].
      - eapply TR_trans; [exact T1|apply TR_deq; exact D2].
      - pose proof (deq_callback has f cl start (set_dstate st2 d DReady)) as DC.
        destruct GF as (SF & KF & VF).
        destruct (pres_static _ _ (deq_pres _ _ DC) SF KF) as [SF' KF'].
        split; [split; [exact SF'|split; [exact KF'|eapply VI_deq; eauto]]|].
        split; [eapply TR_trans; [exact TF|apply TR_deq; exact DC]|].
        destruct r as [x|x|[| |]]; split; try exact I; exact Hr. }
    destruct o as [lens| |]; [| |destruct (cfg_recover cfg)]; cbn [fst snd].
    - (* success: commit, mark called *)
      set (F := commit_decorated (cfg_dry cfg) (d_fn dn) e lens 0 (sig_rleaves (d_sig dn))).
      set (st3 := upd_scope st2 (d_home dn) F).
      set (Z := set_dstate st3 d DCalled).
      set (Y := callback (d_cb dn) (d_fn dn) ENone (st_clock st1) Z).
      assert (L1 : length (st_decs st1) = length (st_decs st)) by apply (pres_lens _ _ P01).
      assert (L3 : length (st_decs st3) = length (st_decs st1)).
      { unfold st3. rewrite decs_upd_scope. destruct D2 as (_ & _ & ->). reflexivity. }
      assert (DY : deq Z Y) by apply deq_callback.
      assert (P1Y : pres st1 Y).
      { eapply pres_trans; [apply deq_pres; exact D2|].
        eapply pres_trans; [|apply deq_pres; exact DY].
        eapply pres_trans; [|apply pres_set_dstate].
        apply pres_upd_scope; intros c0; apply commit_decorated_skel. }
      assert (SC : forall s, get_scope Y s = get_scope st1 s \/
                             (s = d_home dn /\ get_scope Y s = F (get_scope st1 s))).
      { intros s. rewrite (deq_scope s DY).
        change (get_scope Z s) with (get_scope st3 s). unfold st3.
        destruct (get_scope_upd_cases st2 (d_home dn) F s) as [E|[-> E]]; rewrite E, (deq_scope _ D2); auto. }
      assert (Hhome : d_home dn < length (st_scopes st1)).
      { destruct (pres_lens _ _ P01) as (_ & _ & ->). destruct HS as [_ HB]. apply (bi_dec_home HB d Hd). }
      assert (SCh : get_scope Y (d_home dn) = F (get_scope st1 (d_home dn))).
      { rewrite (deq_scope _ DY).
        change (get_scope Z (d_home dn)) with (get_scope st3 (d_home dn)). unfold st3.
        rewrite P_Once.get_scope_upd_same; [rewrite (deq_scope _ D2); reflexivity|].
        destruct D2 as (-> & _ & _). exact Hhome. }
      assert (NN : forall m, get_node Y m = get_node st1 m).
      { intros m. rewrite (deq_node m DY). change (get_node Z m) with (get_node st2 m). apply (deq_node m D2). }
      assert (DYd : get_dec Y d = dn_set_state DCalled (get_dec st1 d)).
      { rewrite (deq_dec d DY). unfold Z, set_dstate. rewrite get_dec_upd_same by (rewrite L3, L1; exact Hd).
        unfold st3. rewrite get_dec_upd_scope, (deq_dec d D2). reflexivity. }
      assert (DYo : forall d', d' <> d -> get_dec Y d' = get_dec st1 d').
      { intros d' Hne. rewrite (deq_dec d' DY). unfold Z. rewrite dstate_set_other by exact Hne.
        unfold st3. rewrite get_dec_upd_scope. apply (deq_dec d' D2). }
      assert (VY : VI Y).
      { revert V1. apply VI_mono.
        - symmetry. apply P1Y.
        - intros s k H. unfold hasv in *. destruct (SC s) as [E|[_ E]]; rewrite E; [exact H|].
          unfold F. rewrite commit_decorated_values. exact H.
        - intros s k H. unfold hasd in *. destruct (SC s) as [E|[_ E]]; rewrite E; [exact H|].
          apply commit_decorated_dvalues. left. exact H.
        - intros m H. left. rewrite NN in H. exact H.
        - intros d' H. destruct (Nat.eq_dec d' d) as [->|Hne].
          + right. intros k ks Hks. unfold hasd.
            destruct P1Y as [Esk _]. apply skel_eq_fields in Esk. destruct Esk.
            destruct P01 as [Esk' _]. apply skel_eq_fields in Esk'. destruct Esk'.
            rewrite sf_dsig, sf_dsig0 in Hks. rewrite sf_dhome, sf_dhome0. fold dn in Hks |- *.
            rewrite SCh. apply commit_decorated_dvalues. right. exists ks. exact Hks.
          + left. rewrite DYo in H by exact Hne. exact H. }
      assert (TY : TR st Y).
      { destruct T1 as (A1 & B1 & C1). split; [|split].
        - intros m. rewrite NN, A1. reflexivity.
        - intros d'. destruct (Nat.eq_dec d' d) as [->|Hne].
          + rewrite DYd. cbn [d_state dn_set_state]. split; [discriminate|]. intros H. exfalso. exact (Eo H).
          + rewrite DYo by exact Hne. rewrite B1. unfold st0. rewrite dstate_set_other by exact Hne. tauto.
        - intros m H. rewrite NN. apply C1. exact H. }
      destruct (pres_static _ _ (pres_trans _ _ _ P01 P1Y) HS HK) as [SF KF].
      split; [split; [exact SF|split; [exact KF|exact VY]]|]. split; [exact TY|]. split; [exact I|].
      rewrite DYd. reflexivity.
    - apply (NOCOMMIT (d_cb dn) (d_fn dn) (EUser (d_fn dn) e) (st_clock st1) (Fail (mkErr [] (RUser (d_fn dn) e))) I).
    - apply (NOCOMMIT (d_cb dn) (d_fn dn) (EPanicE (d_fn dn) e) (st_clock st1) (Fail (mkErr [] (RPanic (d_fn dn) e))) I).
    - apply (NOCOMMIT (d_cb dn) (d_fn dn) ENone (st_clock st1) (Abort (APanicked (d_fn dn) e)) I).
  Qed.

  Lemma T_evalF t st : PT t st (evalF cfg b du rec t st).
  Proof.
    destruct t as [v [k opt|k soft]|v ls|n|d]; cbn [evalF].
    - split; [apply pres_build_single; exact IHp|]. intros Hp HG. cbn [tpre leaf_ok] in Hp.
      apply Nat.eqb_eq in Hp. destruct (T_build_single v k opt st Hp HG) as (A & B & C).
      split; [exact A|]. split; [exact B|]. split; [exact C|]. destruct (fst _); exact I.
    - split; [apply pres_build_group; exact IHp|]. intros _ HG.
      destruct (T_build_group v k soft st HG) as (A & B & C).
      split; [exact A|]. split; [exact B|]. split; [exact C|]. destruct (fst _); exact I.
    - split; [apply pres_build_list; exact IHp|]. intros Hp HG.
      destruct (T_build_list v ls st Hp HG) as (A & B & C).
      split; [exact A|]. split; [exact B|]. split; [exact C|]. destruct (fst _); exact I.
    - apply T_call_ctor.
    - apply T_call_dec.
  Qed.
End Step.

Theorem eval_PT cfg b du fuel t st : PT t st (eval cfg b du fuel t st).
Proof.
  revert fuel t st. apply eval_ind.
  - intros t st. split; [apply pres_refl|]. intros _ HG. cbn [fst snd].
    split; [exact HG|]. split; [apply TR_refl|]. split; exact I.
  - intros rec IH t st. apply T_evalF. exact IH.
Qed.
Print Assumptions eval_PT.

(* ===================================================================== *)
(* 5. Fuel                                                                *)
(* ===================================================================== *)

(* the measure: constructors and decorators NOT on the resolution stack *)
Definition nfree (c : cnode) : bool := negb (c_onstack c).
Definition dfree (d : dnode) : bool := negb (dstate_eqb (d_state d) DOnStack).
Definition free (st : state) : nat :=
  count_occ_b nfree (st_nodes st) + count_occ_b dfree (st_decs st).

Lemma free_le st : free st <= length (st_nodes st) + length (st_decs st).
Proof.
  unfold free. pose proof (count_le nfree (st_nodes st)). pose proof (count_le dfree (st_decs st)). lia.
Qed.

Lemma free_TR st st' : pres st st' -> TR st st' -> free st' = free st.
Proof.
  intros HP (A & B & _). destruct (pres_lens _ _ HP) as (LN & LD & _). unfold free. f_equal.
  - apply (count_ext nfree dummy_cnode); [exact LN|]. intros i. unfold nfree.
    change (nth i (st_nodes st') dummy_cnode) with (get_node st' i).
    change (nth i (st_nodes st) dummy_cnode) with (get_node st i). rewrite A. reflexivity.
  - apply (count_ext dfree dummy_dnode); [exact LD|]. intros i. unfold dfree.
    change (nth i (st_decs st') dummy_dnode) with (get_dec st' i).
    change (nth i (st_decs st) dummy_dnode) with (get_dec st i).
    destruct (dstate_eqb (d_state (get_dec st' i)) DOnStack) eqn:E1;
    destruct (dstate_eqb (d_state (get_dec st i)) DOnStack) eqn:E2; try reflexivity; exfalso.
    + apply dstate_eqb_true in E1. apply dstate_eqb_false in E2. apply E2. apply B. exact E1.
    + apply dstate_eqb_true in E2. apply dstate_eqb_false in E1. apply E1. apply B. exact E2.
Qed.

Lemma free_push_node st n :
  n < length (st_nodes st) -> c_onstack (get_node st n) = false ->
  S (free (set_onstack st n true)) = free st.
Proof.
  intros Hn Eo. unfold free. rewrite nodes_set_onstack, decs_set_onstack.
  rewrite <- (count_upd_nth nfree (cn_set_onstack true) dummy_cnode (st_nodes st) n Hn).
  - reflexivity.
  - unfold nfree. change (nth n (st_nodes st) dummy_cnode) with (get_node st n). rewrite Eo. reflexivity.
  - reflexivity.
Qed.

Lemma free_push_dec st d :
  d < length (st_decs st) -> d_state (get_dec st d) <> DOnStack ->
  S (free (set_dstate st d DOnStack)) = free st.
Proof.
  intros Hd Eo. unfold free. rewrite nodes_set_dstate, decs_set_dstate.
  rewrite <- (count_upd_nth dfree (dn_set_state DOnStack) dummy_dnode (st_decs st) d Hd).
  - lia.
  - unfold dfree. change (nth d (st_decs st) dummy_dnode) with (get_dec st d).
    apply dstate_eqb_false in Eo. rewrite Eo. reflexivity.
  - reflexivity.
Qed.

Lemma G_push_node st n : G st -> G (set_onstack st n true).
Proof.
  intros (HS & HK & HV).
  destruct (pres_static _ _ (pres_set_onstack st n true) HS HK) as [HS0 HK0].
  split; [exact HS0|]. split; [exact HK0|]. apply VI_set_onstack. exact HV.
Qed.

Lemma G_push_dec st d : d < length (st_decs st) -> G st -> G (set_dstate st d DOnStack).
Proof.
  intros Hd (HS & HK & HV).
  destruct (pres_static _ _ (pres_set_dstate st d DOnStack) HS HK) as [HS0 HK0].
  split; [exact HS0|]. split; [exact HK0|].
  revert HV. apply VI_mono.
  - symmetry. apply pres_set_dstate.
  - intros s k H. exact H.
  - intros s k H. exact H.
  - intros m H. left. exact H.
  - intros d' H. left. destruct (Nat.eq_dec d' d) as [->|Hne].
    + rewrite dstate_set_same in H by exact Hd. discriminate H.
    + rewrite dstate_set_other in H by exact Hne. exact H.
Qed.

(* fuel a task needs in a state: three units per free constructor / decorator
   (TCallCtor -> TLeaves -> TLeaf -> TCallCtor ...), plus the position inside
   the current level *)
Definition need (t : task) (st : state) : nat :=
  3 * free st + match t with TLeaves _ _ => 3 | TLeaf _ _ => 2 | _ => 1 end.

Section Fuel.
  Variables (cfg : config) (b : beh) (du : dur).
  Variable f : nat.
  Let rec := eval cfg b du f.
  Hypothesis HF : forall t st, tpre t st -> G st -> need t st <= f -> fst (rec t st) <> Abort AFuel.

  Let IH : forall t st, PT t st (rec t st) := fun t st => eval_PT cfg b du f t st.

  (* after a completed sub-task: same invariants, same measure *)
  Lemma rec_after t st : tpre t st -> G st ->
    G (snd (rec t st)) /\ free (snd (rec t st)) = free st /\
    length (st_nodes (snd (rec t st))) = length (st_nodes st).
  Proof.
    intros Hp HG. destruct (IH t st) as [P H]. destruct (H Hp HG) as (G1 & T1 & _).
    split; [exact G1|]. split; [apply free_TR; assumption|]. apply (pres_lens _ _ P).
  Qed.

  Lemma F_call_ctors : forall ns st,
    (forall n, In n ns -> n < length (st_nodes st)) -> G st -> 3 * free st + 1 <= f ->
    fst (call_ctors rec ns st) <> LAbort AFuel.
  Proof.
    induction ns as [|n t IHn]; intros st Hr HG Hf; cbn [call_ctors]; [discriminate|].
    assert (Hp : tpre (TCallCtor n) st) by (apply Hr; left; reflexivity).
    pose proof (HF (TCallCtor n) st Hp HG Hf) as HA.
    destruct (rec_after (TCallCtor n) st Hp HG) as (G1 & F1 & L1).
    destruct (rec (TCallCtor n) st) as [[r|e|a] st1]; cbn [fst snd] in *.
    - apply IHn; [|exact G1|rewrite F1; exact Hf].
      intros m Hm. rewrite L1. apply Hr. right. exact Hm.
    - discriminate.
    - intros E. apply HA. injection E as ->. reflexivity.
  Qed.

  Lemma F_call_group_decs k : forall bs st, G st -> 3 * free st + 1 <= f ->
    fst (call_group_decs rec k bs st) <> LAbort AFuel.
  Proof.
    induction bs as [|s t IHb]; intros st HG Hf; cbn [call_group_decs]; [discriminate|].
    destruct (alookup key_eqb k (s_decorators (get_scope st s))) as [d|] eqn:E; [|apply IHb; assumption].
    destruct (dstate_eqb (d_state (get_dec st d)) DOnStack) eqn:E2; [apply IHb; assumption|].
    assert (Hp : tpre (TCallDec d) st).
    { split; [eapply dec_range; [apply HG|exact E]|]. apply dstate_eqb_false. exact E2. }
    pose proof (HF (TCallDec d) st Hp HG Hf) as HA.
    destruct (rec_after (TCallDec d) st Hp HG) as (G1 & F1 & _).
    destruct (rec (TCallDec d) st) as [[r|e|a] st1]; cbn [fst snd] in *.
    - apply IHb; [exact G1|rewrite F1; exact Hf].
    - discriminate.
    - intros E3. apply HA. injection E3 as ->. reflexivity.
  Qed.

  Lemma F_build_list v : forall ls st, forallb leaf_ok ls = true -> G st -> 3 * free st + 2 <= f ->
    fst (build_list rec v ls st) <> Abort AFuel.
  Proof.
    induction ls as [|l t IHl]; intros st Hl HG Hf; cbn [build_list]; [discriminate|].
    cbn [forallb] in Hl. apply andb_true_iff in Hl as [Hl Ht].
    pose proof (HF (TLeaf v l) st Hl HG Hf) as HA.
    destruct (rec_after (TLeaf v l) st Hl HG) as (G1 & F1 & _).
    destruct (rec (TLeaf v l) st) as [[r|e|a] st1]; cbn [fst snd] in *.
    - assert (H2 : fst (build_list rec v t st1) <> Abort AFuel) by (apply IHl; [exact Ht|exact G1|rewrite F1; exact Hf]).
      destruct (build_list rec v t st1) as [[r2|e2|a2] st2]; cbn [fst] in *; [discriminate|discriminate|exact H2].
    - discriminate.
    - exact HA.
  Qed.

  Lemma F_build_single v k opt st : k_group k = 0 -> G st -> 3 * free st + 1 <= f ->
    fst (build_single rec v k opt st) <> Abort AFuel.
  Proof.
    intros Hk HG Hf. unfold build_single.
    destruct (find_dec st v k) as [[d bsc]|] eqn:EF.
    - apply find_dec_inv in EF as [ED EO].
      assert (Hp : tpre (TCallDec d) st) by (split; [eapply dec_range; [apply HG|exact ED]|exact EO]).
      pose proof (HF (TCallDec d) st Hp HG Hf) as HA.
      destruct (rec (TCallDec d) st) as [[r|e|a] st1]; cbn [fst snd] in *.
      + destruct (alookup key_eqb k (s_dvalues (get_scope st1 bsc))); cbn [fst]; discriminate.
      + discriminate.
      + exact HA.
    - destruct (find_map _ (path st v)); [cbn [fst]; discriminate|].
      destruct (find_provider st (path st v) k) as [a|bsc ns|] eqn:EP.
      + cbn [fst]. discriminate.
      + pose proof (find_provider_PProv _ _ _ _ _ EP) as Ens.
        assert (Hr : forall n, In n ns -> n < length (st_nodes st)).
        { intros n Hn. rewrite Ens in Hn. eapply prov_range; [apply HG|exact Hn]. }
        pose proof (F_call_ctors ns st Hr HG Hf) as HA.
        destruct (call_ctors rec ns st) as [[|c e|a] st1]; cbn [fst snd] in *.
        * destruct (alookup key_eqb k (s_values (get_scope st1 bsc))); cbn [fst]; discriminate.
        * destruct (opt && has_missingdeps e); cbn [fst]; discriminate.
        * intros E. apply HA. injection E as ->. reflexivity.
      + destruct opt; cbn [fst]; discriminate.
  Qed.

  Lemma F_build_group v k soft st : G st -> 3 * free st + 1 <= f ->
    fst (build_group rec v k soft st) <> Abort AFuel.
  Proof.
    intros HG Hf. unfold build_group.
    pose proof (F_call_group_decs k (rev (path st v)) st HG Hf) as HA.
    destruct (T_call_group_decs rec IH k (rev (path st v)) st HG) as (G1 & T1 & _).
    pose proof (pres_call_group_decs rec (fun t st => proj1 (IH t st)) k (rev (path st v)) st) as P1.
    destruct (call_group_decs rec k (rev (path st v)) st) as [[|c e|a] st1]; cbn [fst snd] in *.
    - destruct (find_map _ (path st1 v)); [cbn [fst]; discriminate|].
      destruct soft; [cbn [fst]; discriminate|].
      assert (Hr : forall n, In n (providers_on_path st1 v k) -> n < length (st_nodes st1)).
      { intros n Hn. destruct G1 as ([_ HB] & _). eapply pop_bound; eauto. }
      assert (Hf1 : 3 * free st1 + 1 <= f) by (rewrite (free_TR _ _ P1 T1); exact Hf).
      pose proof (F_call_ctors _ st1 Hr G1 Hf1) as HA2.
      destruct (call_ctors rec (providers_on_path st1 v k) st1) as [[|c e|a] st2]; cbn [fst] in *;
        [discriminate|discriminate|].
      intros E. apply HA2. injection E as ->. reflexivity.
    - discriminate.
    - intros E. apply HA. injection E as ->. reflexivity.
  Qed.

  Lemma F_call_ctor n st : n < length (st_nodes st) -> G st -> 3 * free st <= f ->
    fst (call_ctor cfg b du rec n st) <> Abort AFuel.
  Proof.
    intros Hn HG Hf. unfold call_ctor.
    destruct (c_called (get_node st n)); [cbn [fst]; discriminate|].
    destruct (c_onstack (get_node st n)) eqn:Eo; [cbn [fst]; discriminate|].
    set (c := get_node st n).
    destruct (shallow_missing _ (c_orig c) (sig_leaves (c_sig c))) as [|k0 ks]; [|cbn [fst]; discriminate].
    assert (Hp : tpre (TLeaves (c_orig c) (sig_build_seq (c_sig c))) (set_onstack st n true)).
    { cbn [tpre]. apply wf_sig_build_seq. destruct HG as (_ & HK & _). apply (ki_nsig HK). }
    assert (Hf0 : need (TLeaves (c_orig c) (sig_build_seq (c_sig c))) (set_onstack st n true) <= f).
    { unfold need. pose proof (free_push_node st n Hn Eo). lia. }
    pose proof (HF _ _ Hp (G_push_node st n HG) Hf0) as HA.
    destruct (rec (TLeaves (c_orig c) (sig_build_seq (c_sig c))) (set_onstack st n true)) as [[built|e|a] st1];
      cbn [fst snd] in *; [|discriminate|exact HA].
    destruct (run_fn cfg b du RoleCtor (c_fn c) (place (sig_order (c_sig c)) built) st1) as [[o e] st2].
    destruct o as [lens| |]; [| |destruct (cfg_recover cfg)]; cbn [fst]; discriminate.
  Qed.

  Lemma F_call_dec d st : d < length (st_decs st) -> d_state (get_dec st d) <> DOnStack ->
    G st -> 3 * free st <= f ->
    fst (call_dec cfg b du rec d st) <> Abort AFuel.
  Proof.
    intros Hd Eo HG Hf. unfold call_dec.
    destruct (dstate_eqb (d_state (get_dec st d)) DCalled); [cbn [fst]; discriminate|].
    set (dn := get_dec st d).
    destruct (shallow_missing _ (d_home dn) (sig_leaves (d_sig dn))) as [|k0 ks]; [|cbn [fst]; discriminate].
    assert (Hp : tpre (TLeaves (d_home dn) (sig_build_seq (d_sig dn))) (set_dstate st d DOnStack)).
    { cbn [tpre]. apply wf_sig_build_seq. destruct HG as (_ & HK & _). apply (ki_dsig HK). }
    assert (Hf0 : need (TLeaves (d_home dn) (sig_build_seq (d_sig dn))) (set_dstate st d DOnStack) <= f).
    { unfold need. pose proof (free_push_dec st d Hd Eo). lia. }
    pose proof (HF _ _ Hp (G_push_dec st d Hd HG) Hf0) as HA.
    destruct (rec (TLeaves (d_home dn) (sig_build_seq (d_sig dn))) (set_dstate st d DOnStack)) as [[built|e|a] st1];
      cbn [fst snd] in *; [|discriminate|exact HA].
    destruct (run_fn cfg b du RoleDec (d_fn dn) (place (sig_order (d_sig dn)) built) st1) as [[o e] st2].
    destruct o as [lens| |]; [| |destruct (cfg_recover cfg)]; cbn [fst]; discriminate.
  Qed.

  Lemma F_evalF t st : tpre t st -> G st -> need t st <= S f ->
    fst (evalF cfg b du rec t st) <> Abort AFuel.
  Proof.
    intros Hp HG Hf. unfold need in Hf.
    destruct t as [v [k opt|k soft]|v ls|n|d]; cbn [evalF].
    - cbn [tpre leaf_ok] in Hp. apply Nat.eqb_eq in Hp. apply F_build_single; [exact Hp|exact HG|lia].
    - apply F_build_group; [exact HG|lia].
    - apply F_build_list; [exact Hp|exact HG|lia].
    - apply F_call_ctor; [exact Hp|exact HG|lia].
    - destruct Hp as [Hd Eo]. apply F_call_dec; [exact Hd|exact Eo|exact HG|lia].
  Qed.
End Fuel.

(* C05, termination: [need t st] units of fuel are enough *)
Theorem eval_fuel_enough cfg b du : forall f t st,
  tpre t st -> G st -> need t st <= f -> fst (eval cfg b du f t st) <> Abort AFuel.
Proof.
  induction f as [|f IHf]; intros t st Hp HG Hf.
  - exfalso. unfold need in Hf. destruct t; lia.
  - cbn [eval]. apply F_evalF; assumption.
Qed.
Print Assumptions eval_fuel_enough.

(* what Invoke supplies is enough, whatever is on the stack *)
Corollary eval_fuel_invoke cfg b du v ls st :
  forallb leaf_ok ls = true -> G st ->
  fst (eval cfg b du (eval_fuel st) (TLeaves v ls) st) <> Abort AFuel.
Proof.
  intros Hl HG. apply eval_fuel_enough; [exact Hl|exact HG|].
  unfold need, eval_fuel. pose proof (free_le st). lia.
Qed.

(* ===================================================================== *)
(* 6. Operations and runs                                                 *)
(* ===================================================================== *)

(* quiescence: between operations nothing is on the resolution stack *)
Definition Q (st : state) : Prop :=
  (forall n, c_onstack (get_node st n) = false) /\ (forall d, d_state (get_dec st d) <> DOnStack).

Definition RI (st : state) : Prop := SInv st /\ KI st /\ VI st /\ Q st.

Lemma Q_TR st st' : TR st st' -> Q st -> Q st'.
Proof.
  intros (A & B & _) [Qn Qd]. split.
  - intros n. rewrite A. apply Qn.
  - intros d H. apply (Qd d). apply B. exact H.
Qed.

(* ---------- operations that leave nodes, decorators, tables and caches alone ---------- *)

Definition core_eq (st st' : state) : Prop :=
  st_nodes st' = st_nodes st /\ st_decs st' = st_decs st /\
  forall i, s_providers (get_scope st' i) = s_providers (get_scope st i) /\
            score (get_scope st' i) = score (get_scope st i).

Lemma core_eq_refl st : core_eq st st.
Proof. repeat split. Qed.

Lemma KVQ_core st st' : core_eq st st' -> KI st /\ VI st /\ Q st -> KI st' /\ VI st' /\ Q st'.
Proof.
  intros (EN & ED & ES) ([A B C D] & [V1 V2] & [Q1 Q2]).
  assert (GN : forall n, get_node st' n = get_node st n) by (intros n; unfold get_node; rewrite EN; reflexivity).
  assert (GD : forall d, get_dec st' d = get_dec st d) by (intros d; unfold get_dec; rewrite ED; reflexivity).
  assert (EV : forall i, s_values (get_scope st' i) = s_values (get_scope st i)).
  { intros i. destruct (ES i) as [_ E]. unfold score in E. congruence. }
  assert (EDV : forall i, s_dvalues (get_scope st' i) = s_dvalues (get_scope st i)).
  { intros i. destruct (ES i) as [_ E]. unfold score in E. congruence. }
  assert (EDC : forall i, s_decorators (get_scope st' i) = s_decorators (get_scope st i)).
  { intros i. destruct (ES i) as [_ E]. unfold score in E. congruence. }
  split; [|split].
  - constructor.
    + intros n. rewrite GN. apply A.
    + intros d. rewrite GD. apply B.
    + intros s k n. unfold providers_at. rewrite (proj1 (ES s)), GN. apply C.
    + intros s k d. rewrite EDC, GD. apply D.
  - split.
    + intros n Hc ks k Hks Hk. unfold hasv. rewrite GN in *. rewrite EV. exact (V1 n Hc ks k Hks Hk).
    + intros d Hc k ks Hks. unfold hasd. rewrite GD in *. rewrite EDV. exact (V2 d Hc k ks Hks).
  - split.
    + intros n. rewrite GN. apply Q1.
    + intros d. rewrite GD. apply Q2.
Qed.

(* ---------- appending a node / a decorator ---------- *)

Lemma nth_snoc {A} (l : list A) (x d : A) i :
  nth i (l ++ [x]) d = if i <? length l then nth i l d else if i =? length l then x else d.
Proof.
  destruct (i <? length l) eqn:E1.
  - apply Nat.ltb_lt in E1. apply app_nth1. exact E1.
  - apply Nat.ltb_ge in E1. destruct (i =? length l) eqn:E2.
    + apply Nat.eqb_eq in E2. subst i. apply nth_middle.
    + apply Nat.eqb_neq in E2. apply nth_overflow. rewrite app_length. cbn. lia.
Qed.

Lemma dedup_first_aux_In {A} (eqb : A -> A -> bool) x : forall l seen,
  In x (dedup_first_aux eqb seen l) -> In x l.
Proof.
  induction l as [|h t IHl]; intros seen H; cbn [dedup_first_aux] in H; [exact H|].
  destruct (memb eqb h seen).
  - right. eapply IHl. exact H.
  - destruct H as [->|H]; [left; reflexivity|right; eapply IHl; exact H].
Qed.

Lemma fold_add_provider_In m n k : forall keys ps,
  In m (alookup_list key_eqb k (fold_left (add_provider n) keys ps)) ->
  In m (alookup_list key_eqb k ps) \/ (m = n /\ In k keys).
Proof.
  induction keys as [|k0 keys IHk]; intros ps H; cbn [fold_left] in H; [left; exact H|].
  apply IHk in H as [H|[-> H]]; [|right; split; [reflexivity|right; exact H]].
  unfold add_provider in H. unfold alookup_list in H at 1. rewrite alookup_aset in H.
  destruct (key_eqb k k0) eqn:E.
  - apply key_eqb_eq in E. subst k0. apply in_app_or in H as [H|[<-|[]]].
    + left. exact H.
    + right. split; [reflexivity|left; reflexivity].
  - left. exact H.
Qed.

Lemma alookup_fold_aset_dec (d0 : did) k d : forall keys (m : list (key * did)),
  alookup key_eqb k (fold_left (fun m k => aset key_eqb k d0 m) keys m) = Some d ->
  alookup key_eqb k m = Some d \/ (d = d0 /\ In k keys).
Proof.
  induction keys as [|k0 keys IHk]; intros m H; cbn [fold_left] in H; [left; exact H|].
  apply IHk in H as [H|[-> H]]; [|right; split; [reflexivity|right; exact H]].
  rewrite alookup_aset in H. destruct (key_eqb k k0) eqn:E.
  - apply key_eqb_eq in E. subst k0. injection H as <-. right. split; [reflexivity|left; reflexivity].
  - left. exact H.
Qed.

(* ---------- Provide: exactly which provider lists change ---------- *)

Lemma provide_spec2 cfg st s0 p :
  let st' := snd (provide cfg st s0 p) in
  let s := if pi_export p then 0 else s0 in
  rfr st st' /\
  ((st_nodes st' = st_nodes st /\ forall i, s_providers (get_scope st' i) = s_providers (get_scope st i)) \/
   (st_nodes st' = st_nodes st ++ [new_node s0 p] /\
    forall i, s_providers (get_scope st' i) = s_providers (get_scope st i) \/
              (i = s /\ s_providers (get_scope st' i) =
                        fold_left (add_provider (length (st_nodes st)))
                                  (dedup_first key_eqb (sig_keys (pi_sig p))) (s_providers (get_scope st i))))).
Proof.
  unfold provide, new_node.
  set (s := if pi_export p then 0 else s0).
  set (A := subtree st s).
  set (snap := snapshot st A).
  set (node := mkCNode (pi_fn p) (pi_sig p) s s0 false false (pi_cb p)).
  set (st1 := set_nodes st (st_nodes st ++ [node])).
  set (gs := group_grefs (length (st_nodes st)) 0 (sig_leaves (pi_sig p)) ++ [GCtor (length (st_nodes st))]).
  set (st2 := fold_left (append_gnodes gs) A st1).
  destruct (sfr_append_gnodes gs A st1) as [S2 N2]. fold st2 in S2, N2.
  assert (S02 : sfr st st2) by (eapply sfr_trans; [apply (sfr_set_nodes st)|exact S2]).
  assert (UNDO : forall x, sfr st x ->
            let y := set_nodes (rollback_gnodes snap x) (st_nodes st) in
            rfr st y /\ (st_nodes y = st_nodes st /\ forall i, s_providers (get_scope y i) = s_providers (get_scope st i))).
  { intros x Hx y. destruct (sfr_rollback snap x) as [R1 R2].
    assert (Hy : sfr st y).
    { eapply sfr_trans; [exact Hx|]. eapply sfr_trans; [exact R1|]. apply sfr_set_nodes. }
    split; [apply Hy|]. split; [reflexivity|apply Hy]. }
  destruct (dup_check _ _ _).
  { cbn [fst snd]. destruct (UNDO st2 S02) as [U1 U2]. split; [exact U1|]. left; exact U2. }
  destruct (is_nil _).
  { cbn [fst snd]. destruct (UNDO st2 S02) as [U1 U2]. split; [exact U1|]. left; exact U2. }
  set (keys := dedup_first key_eqb (sig_keys (pi_sig p))).
  set (F := fun c => sc_set_providers (fold_left (add_provider (length (st_nodes st))) keys (s_providers c)) c).
  set (st3 := upd_scope st2 s F).
  assert (R3 : rfr st2 st3) by (apply rfr_upd_scope; reflexivity).
  destruct (verify_loop_spec (cfg_defer cfg) A st3) as (S4 & N4 & V4).
  set (vl := verify_loop (cfg_defer cfg) A st3) in *.
  assert (R04 : rfr st (snd vl)).
  { eapply rfr_trans; [apply S02|]. eapply rfr_trans; [exact R3|]. apply S4. }
  assert (N04 : st_nodes (snd vl) = st_nodes st ++ [node]).
  { rewrite N4. unfold st3. cbn. exact N2. }
  assert (P04 : forall i, s_providers (get_scope (snd vl) i) = s_providers (get_scope st i) \/
                          (i = s /\ s_providers (get_scope (snd vl) i) =
                                    fold_left (add_provider (length (st_nodes st))) keys (s_providers (get_scope st i)))).
  { intros i. destruct S4 as [_ S4]. rewrite S4. unfold st3.
    destruct (get_scope_upd_cases st2 s F i) as [E|[-> E]]; rewrite E.
    - left. apply S02.
    - right. split; [reflexivity|]. unfold F. cbn [s_providers sc_set_providers].
      destruct S02 as [_ S02]. rewrite S02. reflexivity. }
  destruct vl as [[[x|]|e|a] st4]; cbn [fst snd] in *.
  - (* cycle: roll back *)
    set (st5 := upd_scope st4 s (sc_set_providers (s_providers (get_scope st2 s)))).
    assert (S5 : sfr st st5).
    { split.
      - eapply rfr_trans; [exact R04|]. apply rfr_upd_scope. reflexivity.
      - intros i. unfold st5. destruct (Nat.eq_dec s i) as [<-|Hne].
        + destruct (Nat.lt_ge_cases s (length (st_scopes st4))) as [Hlt|Hge].
          * rewrite P_Once.get_scope_upd_same by exact Hlt. cbn. apply S02.
          * rewrite upd_scope_oob by exact Hge.
            destruct S4 as [S4r S4]. rewrite S4. unfold st3.
            rewrite upd_scope_oob; [apply S02|].
            destruct S4r as (_ & _ & _ & L4 & _). destruct R3 as (_ & _ & _ & L3 & _).
            rewrite <- L3, <- L4. exact Hge.
        + rewrite P_Once.get_scope_upd_other by exact Hne.
          destruct S4 as [_ S4]. rewrite S4. unfold st3.
          rewrite P_Once.get_scope_upd_other by exact Hne. apply S02. }
    destruct (UNDO st5 S5) as [U1 U2]. split; [exact U1|]. left; exact U2.
  - (* accepted *)
    split.
    + eapply rfr_trans; [exact R04|]. apply rfr_upd_scope. reflexivity.
    + right. split; [exact N04|].
      intros i.
      assert (E : s_providers (get_scope (upd_scope st4 s (fun c => sc_set_nodes (s_nodes c ++ [length (st_nodes st)]) c)) i)
                  = s_providers (get_scope st4 i)).
      { match goal with |- s_providers (get_scope (upd_scope _ _ ?g) _) = _ =>
          destruct (get_scope_upd_cases st4 s g i) as [E|[-> E]]; rewrite E; reflexivity end. }
      rewrite E. apply P04.
  - destruct V4.
  - split; [exact R04|]. right. split; [exact N04|exact P04].
Qed.

(* ---------- each operation preserves the invariant ---------- *)

Definition vok (v : verdict) : Prop :=
  match v with
  | VAbort (ABug _) => False
  | VAbort AFuel => False
  | _ => True
  end.

Lemma RI_new_scope st p : p < length (st_scopes st) -> RI st -> RI (new_scope st p).
Proof.
  intros Hp (HS & HKVQ). split; [apply SInv_new_scope; assumption|].
  apply (KVQ_core st); [|exact HKVQ].
  destruct (new_scope_spec st p) as (EN & ED & _ & _ & ES).
  split; [exact EN|]. split; [exact ED|]. intros i. destruct (ES i) as [A B]. split; assumption.
Qed.

Lemma RI_provide cfg st s0 p :
  s0 < length (st_scopes st) -> wf_sig (pi_sig p) = true -> RI st -> RI (snd (provide cfg st s0 p)).
Proof.
  intros Hs0 Hwf (HS & HK & HV & HQ).
  assert (HS' : SInv (snd (provide cfg st s0 p))).
  { destruct (provide cfg st s0 p) as [v st'] eqn:E. eapply SInv_provide; eauto. }
  split; [exact HS'|].
  destruct (provide_spec2 cfg st s0 p) as [R H].
  set (st' := snd (provide cfg st s0 p)) in *. cbv zeta in H.
  destruct R as (ED & _ & _ & _ & ESC).
  destruct H as [[EN EP]|[EN EP]].
  { apply (KVQ_core st); [|auto]. split; [exact EN|]. split; [exact ED|]. intros i. split; [apply EP|apply ESC]. }
  set (N := length (st_nodes st)) in *.
  assert (GNlt : forall n, n < N -> get_node st' n = get_node st n).
  { intros n Hn. unfold get_node. rewrite EN, nth_snoc. apply Nat.ltb_lt in Hn. fold N. rewrite Hn. reflexivity. }
  assert (GNeq : get_node st' N = new_node s0 p).
  { unfold get_node. rewrite EN, nth_snoc. fold N. rewrite Nat.ltb_irrefl, Nat.eqb_refl. reflexivity. }
  assert (GNgt : forall n, N < n -> get_node st' n = dummy_cnode).
  { intros n Hn. unfold get_node. rewrite EN, nth_snoc. fold N.
    assert (E1 : n <? N = false) by (apply Nat.ltb_ge; lia).
    assert (E2 : n =? N = false) by (apply Nat.eqb_neq; lia). rewrite E1, E2. reflexivity. }
  assert (GD : forall d, get_dec st' d = get_dec st d) by (intros d; unfold get_dec; rewrite ED; reflexivity).
  assert (EV : forall i, s_values (get_scope st' i) = s_values (get_scope st i)).
  { intros i. pose proof (ESC i) as E. unfold score in E. congruence. }
  assert (EDV : forall i, s_dvalues (get_scope st' i) = s_dvalues (get_scope st i)).
  { intros i. pose proof (ESC i) as E. unfold score in E. congruence. }
  assert (EDC : forall i, s_decorators (get_scope st' i) = s_decorators (get_scope st i)).
  { intros i. pose proof (ESC i) as E. unfold score in E. congruence. }
  assert (CASES : forall n, n < N \/ n = N \/ N < n) by (intros n; lia).
  destruct HK as [A B C D]. destruct HV as [V1 V2]. destruct HQ as [Q1 Q2].
  split; [|split].
  - constructor.
    + intros n. destruct (CASES n) as [Hn|[->|Hn]].
      * rewrite GNlt by exact Hn. apply A.
      * rewrite GNeq. exact Hwf.
      * rewrite GNgt by exact Hn. reflexivity.
    + intros d. rewrite GD. apply B.
    + intros s k n Hin. unfold providers_at in Hin.
      assert (OLD : In n (providers_at st s k) ->
                    c_home (get_node st' n) = s /\ In k (sig_keys (c_sig (get_node st' n)))).
      { intros Hin'. rewrite GNlt by (eapply prov_range; eauto). apply C. exact Hin'. }
      destruct (EP s) as [E|[Es E]]; rewrite E in Hin; [apply OLD; exact Hin|].
      apply fold_add_provider_In in Hin as [Hin|[-> Hin]]; [apply OLD; exact Hin|].
      rewrite GNeq. unfold new_node. cbn [c_home c_sig]. split; [symmetry; exact Es|].
      unfold dedup_first in Hin. eapply dedup_first_aux_In. exact Hin.
    + intros s k d. rewrite EDC, GD. apply D.
  - split.
    + intros n Hc. destruct (CASES n) as [Hn|[->|Hn]].
      * intros ks k Hks Hk. unfold hasv. rewrite GNlt in * by exact Hn. rewrite EV. exact (V1 n Hc ks k Hks Hk).
      * rewrite GNeq in Hc. discriminate Hc.
      * rewrite GNgt in Hc by exact Hn. discriminate Hc.
    + intros d Hc k ks Hks. unfold hasd. rewrite GD in *. rewrite EDV. exact (V2 d Hc k ks Hks).
  - split.
    + intros n. destruct (CASES n) as [Hn|[->|Hn]].
      * rewrite GNlt by exact Hn. apply Q1.
      * rewrite GNeq. reflexivity.
      * rewrite GNgt by exact Hn. reflexivity.
    + intros d. rewrite GD. apply Q2.
Qed.

Lemma RI_decorate st s p :
  s < length (st_scopes st) -> wf_sig (di_sig p) = true -> RI st -> RI (snd (decorate st s p)).
Proof.
  intros Hs Hwf (HS & HK & HV & HQ).
  assert (HS' : SInv (snd (decorate st s p))).
  { destruct (decorate st s p) as [v st'] eqn:E. eapply SInv_decorate; eauto. }
  split; [exact HS'|]. clear HS'.
  unfold decorate. destruct (negb _ || existsb _ _); cbn [snd]; [auto|].
  set (N := length (st_decs st)).
  set (new := mkDNode (di_fn p) (di_sig p) s DReady (di_cb p)).
  set (st1 := set_decs st (st_decs st ++ [new])).
  set (F := fun c => sc_set_decorators (fold_left (fun m k => aset key_eqb k N m) (dec_keys (di_sig p)) (s_decorators c)) c).
  set (st' := upd_scope st1 s F).
  assert (GN : forall n, get_node st' n = get_node st n) by reflexivity.
  assert (GDlt : forall d, d < N -> get_dec st' d = get_dec st d).
  { intros d Hd. unfold get_dec, st', st1. cbn [st_decs upd_scope set_scopes set_decs]. rewrite nth_snoc.
    apply Nat.ltb_lt in Hd. fold N. rewrite Hd. reflexivity. }
  assert (GDeq : get_dec st' N = new).
  { unfold get_dec, st', st1. cbn [st_decs upd_scope set_scopes set_decs]. rewrite nth_snoc.
    fold N. rewrite Nat.ltb_irrefl, Nat.eqb_refl. reflexivity. }
  assert (GDgt : forall d, N < d -> get_dec st' d = dummy_dnode).
  { intros d Hd. unfold get_dec, st', st1. cbn [st_decs upd_scope set_scopes set_decs]. rewrite nth_snoc. fold N.
    assert (E1 : d <? N = false) by (apply Nat.ltb_ge; lia).
    assert (E2 : d =? N = false) by (apply Nat.eqb_neq; lia). rewrite E1, E2. reflexivity. }
  assert (SC : forall i, get_scope st' i = get_scope st i \/ (i = s /\ get_scope st' i = F (get_scope st s))).
  { intros i. unfold st'. destruct (get_scope_upd_cases st1 s F i) as [E|[-> E]]; rewrite E; auto. }
  assert (EP : forall i, s_providers (get_scope st' i) = s_providers (get_scope st i)).
  { intros i. destruct (SC i) as [E|[-> E]]; rewrite E; reflexivity. }
  assert (EV : forall i, s_values (get_scope st' i) = s_values (get_scope st i)).
  { intros i. destruct (SC i) as [E|[-> E]]; rewrite E; reflexivity. }
  assert (EDV : forall i, s_dvalues (get_scope st' i) = s_dvalues (get_scope st i)).
  { intros i. destruct (SC i) as [E|[-> E]]; rewrite E; reflexivity. }
  assert (CASES : forall n, n < N \/ n = N \/ N < n) by (intros n; lia).
  destruct HK as [A B C D]. destruct HV as [V1 V2]. destruct HQ as [Q1 Q2].
  split; [|split].
  - constructor.
    + intros n. rewrite GN. apply A.
    + intros d. destruct (CASES d) as [Hd|[->|Hd]].
      * rewrite GDlt by exact Hd. apply B.
      * rewrite GDeq. exact Hwf.
      * rewrite GDgt by exact Hd. reflexivity.
    + intros i k n. unfold providers_at. rewrite EP, GN. apply C.
    + intros i k d Hl.
      assert (OLD : alookup key_eqb k (s_decorators (get_scope st i)) = Some d ->
                    d_home (get_dec st' d) = i /\ In k (dec_keys (d_sig (get_dec st' d)))).
      { intros Hl'. rewrite GDlt by (eapply dec_range; eauto). apply D. exact Hl'. }
      destruct (SC i) as [E|[-> E]]; rewrite E in Hl; [apply OLD; exact Hl|].
      unfold F in Hl. cbn [s_decorators sc_set_decorators] in Hl.
      apply alookup_fold_aset_dec in Hl as [Hl|[-> Hl]]; [apply OLD; exact Hl|].
      rewrite GDeq. unfold new. cbn [d_home d_sig]. split; [reflexivity|exact Hl].
  - split.
    + intros n Hc ks k Hks Hk. unfold hasv. rewrite GN in *. rewrite EV. exact (V1 n Hc ks k Hks Hk).
    + intros d Hc. destruct (CASES d) as [Hd|[->|Hd]].
      * intros k ks Hks. unfold hasd. rewrite GDlt in * by exact Hd. rewrite EDV. exact (V2 d Hc k ks Hks).
      * rewrite GDeq in Hc. discriminate Hc.
      * rewrite GDgt in Hc by exact Hd. discriminate Hc.
  - split.
    + intros n. rewrite GN. apply Q1.
    + intros d. destruct (CASES d) as [Hd|[->|Hd]].
      * rewrite GDlt by exact Hd. apply Q2.
      * rewrite GDeq. discriminate.
      * rewrite GDgt by exact Hd. discriminate.
Qed.

Lemma RI_deq st st' : deq st st' -> RI st -> RI st'.
Proof.
  intros D (HS & HK & HV & [Q1 Q2]).
  destruct (pres_static _ _ (deq_pres _ _ D) HS HK) as [HS' HK'].
  split; [exact HS'|]. split; [exact HK'|]. split; [eapply VI_deq; eauto|].
  split.
  - intros n. rewrite (deq_node n D). apply Q1.
  - intros d. rewrite (deq_dec d D). apply Q2.
Qed.

Lemma RI_set_verified st s x : RI st -> RI (upd_scope st s (sc_set_verified x)).
Proof.
  intros (HS & HKVQ). split.
  - eapply SInv_skel; [|exact HS]. symmetry. apply skel_upd_verified.
  - apply (KVQ_core st); [|exact HKVQ]. split; [reflexivity|]. split; [reflexivity|].
    intros i. destruct (get_scope_upd_cases st s (sc_set_verified x) i) as [E|[-> E]]; rewrite E; split; reflexivity.
Qed.

Section Ops.
  Variables (cfg : config) (b : beh) (du : dur).

  (* the resolution phase of Invoke, from a state satisfying the invariant *)
  Lemma RI_eval st v ls :
    forallb leaf_ok ls = true -> RI st ->
    RI (snd (eval cfg b du (eval_fuel st) (TLeaves v ls) st)) /\
    match fst (eval cfg b du (eval_fuel st) (TLeaves v ls) st) with
    | Abort (ABug _) => False
    | Abort AFuel => False
    | _ => True
    end.
  Proof.
    intros Hl (HS & HK & HV & HQ).
    assert (HG : G st) by (split; [exact HS|split; [exact HK|exact HV]]).
    pose proof (eval_fuel_invoke cfg b du v ls st Hl HG) as HF.
    destruct (eval_PT cfg b du (eval_fuel st) (TLeaves v ls) st) as [HP H].
    destruct (H Hl HG) as ((S1 & K1 & V1) & T1 & N1 & _).
    split.
    - split; [exact S1|]. split; [exact K1|]. split; [exact V1|]. eapply Q_TR; eauto.
    - destruct (fst (eval cfg b du (eval_fuel st) (TLeaves v ls) st)) as [x|x|[f e|c|]]; try exact I.
      + exact N1.
      + apply HF. reflexivity.
  Qed.

  Lemma RI_invoke st s p :
    forallb leaf_ok (sig_leaves (ii_sig p)) = true -> RI st ->
    RI (snd (invoke cfg b du st s p)) /\ vok (fst (invoke cfg b du st s p)).
  Proof.
    intros Hl HR. unfold invoke.
    destruct (shallow_missing st s (sig_leaves (ii_sig p))) as [|k0 ks]; [|cbn [fst snd]; split; [exact HR|exact I]].
    assert (TAIL : forall st1, RI st1 ->
      let r := match eval cfg b du (eval_fuel st1) (TLeaves s (sig_build_seq (ii_sig p))) st1 with
          | (Fail e, st2) => (VErr (wrap LArgsFailed e), st2)
          | (Abort a, st2) => (VAbort a, st2)
          | (Done built, st2) =>
              let args := place (sig_order (ii_sig p)) built in
              match run_fn cfg b du RoleInv (ii_fn p) args st2 with
              | (OOk _, _, st3) => (VOk, st3)
              | (OErr, e, st3) => (VErr (mkErr [] (RUser (ii_fn p) e)), st3)
              | (OPanic, e, st3) =>
                  if cfg_recover cfg then (VErr (mkErr [] (RPanic (ii_fn p) e)), st3)
                  else (VAbort (APanicked (ii_fn p) e), st3)
              end
          end in RI (snd r) /\ vok (fst r)).
    { intros st1 HR1.
      destruct (RI_eval st1 s (sig_build_seq (ii_sig p)) (leaves_build_seq _ Hl) HR1) as [HR2 HV2].
      destruct (eval cfg b du (eval_fuel st1) (TLeaves s (sig_build_seq (ii_sig p))) st1) as [[built|e|a] st2];
        cbn [fst snd] in *; cbv zeta.
      - pose proof (deq_run_fn cfg b du RoleInv (ii_fn p) (place (sig_order (ii_sig p)) built) st2) as D3.
        destruct (run_fn cfg b du RoleInv (ii_fn p) (place (sig_order (ii_sig p)) built) st2) as [[o e] st3].
        cbn [snd] in D3. pose proof (RI_deq _ _ D3 HR2) as HR3.
        destruct o as [lens| |]; [| |destruct (cfg_recover cfg)]; cbn [fst snd]; split; try exact HR3; exact I.
      - split; [exact HR2|exact I].
      - split; [exact HR2|]. destruct a; [exact I|exact HV2|exact HV2]. }
    destruct (s_verified (get_scope st s)).
    - apply (TAIL st HR).
    - pose proof (scope_graph_fuel st s) as HA.
      destruct (is_acyclic (scope_graph st s)) as [[[|] x]|]; [| |exfalso; apply HA; reflexivity].
      + apply (TAIL _ (RI_set_verified st s true HR)).
      + cbn [fst snd]. split; [exact HR|exact I].
  Qed.

  Lemma step_RI st o :
    P_Frame.op_ok (length (st_scopes st)) o = true -> op_keys_ok o = true -> RI st ->
    RI (snd (step cfg b du st o)) /\ vok (fst (step cfg b du st o)).
  Proof.
    intros Hok Hk HR. destruct o as [p|s p|s p|s p|k s f]; cbn [step P_Frame.op_ok op_keys_ok fst snd] in *.
    - split; [|exact I]. apply RI_new_scope; [apply Nat.ltb_lt; exact Hok|exact HR].
    - split; [apply RI_provide; [apply Nat.ltb_lt; exact Hok|exact Hk|exact HR]|].
      destruct (provide cfg st s p) as [[|e|a] st'] eqn:E; cbn [fst]; try exact I.
      exfalso. exact (provide_never_aborts _ _ _ _ _ _ E).
    - split; [apply RI_decorate; [apply Nat.ltb_lt; exact Hok|exact Hk|exact HR]|].
      destruct (decorate st s p) as [[|e|a] st'] eqn:E; cbn [fst]; try exact I.
      exfalso. exact (decorate_never_aborts _ _ _ _ _ E).
    - apply RI_invoke; assumption.
    - split; [exact HR|exact I].
  Qed.

  Lemma run_from_RI : forall h st,
    wf_scopes_from (length (st_scopes st)) h = true -> wf_keys h = true -> RI st ->
    RI (snd (run_from cfg b du st h)) /\
    forall o, In o (fst (run_from cfg b du st h)) -> vok (so_verdict o).
  Proof.
    induction h as [|o h IHh]; intros st Hs Hk HR.
    - cbn [run_from fst snd]. split; [exact HR|]. intros o [].
    - rewrite run_from_cons. cbn [fst snd].
      cbn [wf_scopes_from] in Hs. apply andb_true_iff in Hs as [Hok Hs].
      unfold wf_keys in Hk. cbn [forallb] in Hk. apply andb_true_iff in Hk as [Hko Hk].
      destruct (step_RI st o Hok Hko HR) as [HR1 HV1].
      destruct (IHh (snd (step cfg b du st o))) as [HR2 HV2].
      { rewrite step_scopes_length. exact Hs. }
      { exact Hk. }
      { exact HR1. }
      split; [exact HR2|]. intros o' [<-|Hin]; [exact HV1|apply HV2; exact Hin].
  Qed.
End Ops.

Lemma RI_init : RI init_state.
Proof.
  split; [apply SInv_init|].
  assert (GS : forall i, get_scope init_state i = empty_scope None).
  { intros [|[|i]]; reflexivity. }
  assert (GN : forall n, get_node init_state n = dummy_cnode) by (intros [|n]; reflexivity).
  assert (GD : forall d, get_dec init_state d = dummy_dnode) by (intros [|d]; reflexivity).
  split; [|split].
  - constructor.
    + intros n. rewrite GN. reflexivity.
    + intros d. rewrite GD. reflexivity.
    + intros s k n. unfold providers_at. rewrite GS. intros [].
    + intros s k d. rewrite GS. discriminate.
  - split.
    + intros n. rewrite GN. discriminate.
    + intros d. rewrite GD. discriminate.
  - split.
    + intros n. rewrite GN. reflexivity.
    + intros d. rewrite GD. discriminate.
Qed.

(* ---------- the main theorem ---------- *)

(* C05 / C14 at the level of the model: dig never crashes on its own and never
   runs out of fuel; the only abort is an unrecovered panic of a user function *)
Theorem run_never_aborts cfg b du h :
  wf_scopes h = true -> wf_keys h = true ->
  forall o, In o (run cfg b du h) ->
    match so_verdict o with
    | VAbort (ABug _) => False
    | VAbort AFuel => False
    | _ => True
    end.
Proof.
  intros Hs Hk o Hin. unfold run in Hin.
  destruct (run_from_RI cfg b du h init_state Hs Hk RI_init) as [_ H].
  exact (H o Hin).
Qed.
Print Assumptions run_never_aborts.

(* the state after every well-formed history satisfies the invariant; in
   particular it is quiescent: no constructor or decorator is left on the
   resolution stack between operations *)
Theorem RI_state_after cfg b du h :
  wf_scopes h = true -> wf_keys h = true -> RI (state_after cfg b du h).
Proof.
  intros Hs Hk. unfold state_after.
  exact (proj1 (run_from_RI cfg b du h init_state Hs Hk RI_init)).
Qed.

Corollary quiescent_state_after cfg b du h :
  wf_scopes h = true -> wf_keys h = true ->
  (forall n, c_onstack (get_node (state_after cfg b du h) n) = false) /\
  (forall d, d_state (get_dec (state_after cfg b du h) d) <> DOnStack).
Proof. intros Hs Hk. apply (RI_state_after cfg b du h Hs Hk). Qed.
Print Assumptions quiescent_state_after.

(* ===================================================================== *)
(* 7. The checkers: code 204 (C02) and C14                                *)
(* ===================================================================== *)

Lemma vok_no_crash v evs : vok v -> chk_no_crash (mkOObs (overdict_of v) evs) = [].
Proof.
  unfold chk_no_crash. cbn [oo_verdict]. destruct v as [|e|[f e|c|]]; cbn; intros H; try reflexivity; destruct H.
Qed.

Theorem chk_no_crash_nil cfg b du h :
  wf_scopes h = true -> wf_keys h = true ->
  forall o, In o (run cfg b du h) -> chk_no_crash (obs_of o) = [].
Proof.
  intros Hs Hk o Hin. unfold obs_of. apply vok_no_crash.
  exact (run_never_aborts cfg b du h Hs Hk o Hin).
Qed.
Print Assumptions chk_no_crash_nil.

Lemma viols_nil (l : list viol) : (forall i c, In (i, c) l -> False) -> l = [].
Proof. destruct l as [|[i c] l]; [reflexivity|]. intros H. exfalso. apply (H i c). left. reflexivity. Qed.

(* the history-level state invariant used for the walks *)
Definition TH (st : state) (h : history) : Prop :=
  RI st /\ wf_scopes_from (length (st_scopes st)) h = true /\ wf_keys h = true.

Lemma TH_step cfg b du st o h : TH st (o :: h) ->
  TH (snd (step cfg b du st o)) h /\ vok (fst (step cfg b du st o)).
Proof.
  intros (HR & Hs & Hk).
  cbn [wf_scopes_from] in Hs. apply andb_true_iff in Hs as [Hok Hs].
  unfold wf_keys in Hk. cbn [forallb] in Hk. apply andb_true_iff in Hk as [Hko Hk].
  destruct (step_RI cfg b du st o Hok Hko HR) as [HR1 HV1].
  split; [|exact HV1]. split; [exact HR1|]. split; [|exact Hk].
  rewrite step_scopes_length. exact Hs.
Qed.

(* C02 holds outright (P_Once.chk_once_ok left code 204 open) *)
Theorem chk_C02_nil cfg b du h :
  wf_scopes h = true -> wf_keys h = true -> P_Once.wf_fns h = true -> cfg_dry cfg = false ->
  chk_C02 h (map obs_of (run cfg b du h)) = [].
Proof.
  intros Hs Hk Hf Hdry. apply viols_nil. intros i c. unfold chk_C02, run.
  change (@nil lentry) with (log_of_events (rev (st_log init_state))).
  apply (walk_run_from cfg b du (fun st h => GH st h /\ TH st h) _ (fun _ => False)).
  - intros st o h' [H1 H2]. split; [apply GH_step; assumption|]. apply (TH_step cfg b du st o h' H2).
  - intros st o h' r new [H H2] L c' Hc.
    apply in_app_or in Hc as [Hc|Hc].
    + apply (GH_step cfg b du Hdry) in H. destruct H as (((_ & A) & (_ & C) & _ & (_ & _ & _ & B)) & _).
      rewrite L in A, B, C.
      rewrite (walk_events_nil _ (fun l ev => idx_ev l ev /\ once_ev l ev /\ args_ev l ev))
        with (old := st_log st) in Hc; [destruct Hc|apply chk_once_event_nil|].
      cbn [oo_events]. rewrite rev_involutive.
      apply log_all_and; [exact A|]. apply log_all_and; assumption.
    + rewrite vok_no_crash in Hc; [destruct Hc|]. apply (TH_step cfg b du st o h' H2).
  - split; [apply GH_init; exact Hf|]. split; [apply RI_init|]. split; [exact Hs|exact Hk].
Qed.
Print Assumptions chk_C02_nil.

(* C14 at history level: nothing panics, malformed inputs are rejected *)
Theorem chk_C14_nil cfg b du h :
  wf_scopes h = true -> wf_keys h = true ->
  chk_C14 h (map obs_of (run cfg b du h)) = [].
Proof.
  intros Hs Hk. apply viols_nil. intros i c. unfold chk_C14, run.
  change (@nil lentry) with (log_of_events (rev (st_log init_state))).
  apply (walk_run_from cfg b du TH _ (fun _ => False)).
  - intros st o h' H. apply (TH_step cfg b du st o h' H).
  - intros st o h' r new H L c' Hc.
    apply in_app_or in Hc as [Hc|Hc].
    + rewrite vok_no_crash in Hc; [destruct Hc|]. apply (TH_step cfg b du st o h' H).
    + destruct o as [p|s p|s p|s p|k s f]; destruct Hc.
  - split; [apply RI_init|]. split; [exact Hs|exact Hk].
Qed.
Print Assumptions chk_C14_nil.

(* ===================================================================== *)
(* 8. Examples                                                            *)
(* ===================================================================== *)

Module TermExample.
  Definition cfg0 : config := mkConfig false false false.
  Definition b0 : beh := fun _ _ => OOk [].
  Definition d0 : dur := fun _ _ => 0%N.
  Definition K (i : nat) : key := KV i 0.

  (* constructor i : func(K(i-1)) K(i), constructor 1 : func() K1 *)
  Definition ctor (i : nat) : provide_in :=
    mkProvideIn i (mkSig (match i with 1 => [] | _ => [PSingle (K (i - 1)) false] end) [RSingle (K i) []] false)
                false false.
  (* decorator func(K3) K3 on the root *)
  Definition dec3 : decorate_in := mkDecorateIn 7 (mkSig [PSingle (K 3) false] [RSingle (K 3) []] false) false.
  Definition inv_sig : fsig := mkSig [PSingle (K 6) false] [] false.

  (* six constructors in a chain over two scopes, one decorator in the middle *)
  Definition regs : history :=
    [ OScope 0;
      OProvide 0 (ctor 1); OProvide 0 (ctor 2); OProvide 0 (ctor 3);
      OProvide 1 (ctor 4); OProvide 1 (ctor 5); OProvide 1 (ctor 6);
      ODecorate 0 dec3 ].
  Definition h0 : history := regs ++ [OInvoke 1 (mkInvokeIn 8 inv_sig)].

  Example h0_wf : wf_scopes h0 = true /\ wf_keys h0 = true /\ P_Once.wf_fns h0 = true.
  Proof. vm_compute. repeat split. Qed.

  (* with the fuel Invoke supplies (3 * (6 + 1) + 6 = 27) everything resolves *)
  Example h0_verdicts : map so_verdict (run cfg0 b0 d0 h0) = [VOk; VOk; VOk; VOk; VOk; VOk; VOk; VOk; VOk].
  Proof. vm_compute. reflexivity. Qed.

  Example h0_execs :
    map (fun ev => match ev with EExec f _ _ _ _ => f | ECallback f _ _ => f end)
        (flat_map so_events (run cfg0 b0 d0 h0)) = [1; 2; 3; 7; 4; 5; 6; 8].
  Proof. vm_compute. reflexivity. Qed.

  Definition st0 : state := state_after cfg0 b0 d0 regs.

  Example st0_fuel : eval_fuel st0 = 27 /\ need (TLeaves 1 (sig_build_seq inv_sig)) st0 = 24.
  Proof. vm_compute. split; reflexivity. Qed.

  (* the bound is not vacuous: the same resolution with 5 units of fuel diverges ... *)
  Example fuel_5_aborts :
    fst (eval cfg0 b0 d0 5 (TLeaves 1 (sig_build_seq inv_sig)) st0) = Abort AFuel.
  Proof. vm_compute. reflexivity. Qed.

  (* ... the chain is 7 frames deep, 3 units each, plus one: 22 is the least sufficient amount *)
  Example fuel_21_aborts :
    fst (eval cfg0 b0 d0 21 (TLeaves 1 (sig_build_seq inv_sig)) st0) = Abort AFuel.
  Proof. vm_compute. reflexivity. Qed.

  Example fuel_22_enough :
    fst (eval cfg0 b0 d0 22 (TLeaves 1 (sig_build_seq inv_sig)) st0) = Done [ASingle (AProd 6 0 0 0)].
  Proof. vm_compute. reflexivity. Qed.

  (* ---------- why [wf_keys] is needed ---------- *)

  (* ABug 2: a value-group result registered under a key whose group name is
     empty coincides with a single-value key; the provider is found through
     the shared provider table, runs, commits to the GROUP cache, and the
     single-value cache stays empty *)
  Definition bad2 : history :=
    [ OProvide 0 (mkProvideIn 1 (mkSig [] [RGroup (K 1) false []] false) false false);
      OInvoke 0 (mkInvokeIn 2 (mkSig [PSingle (K 1) false] [] false)) ].

  Example bad2_wf : wf_scopes bad2 = true /\ P_Once.wf_fns bad2 = true /\ wf_keys bad2 = false.
  Proof. vm_compute. repeat split. Qed.
  Example bad2_aborts : map so_verdict (run cfg0 b0 d0 bad2) = [VOk; VAbort (ABug 2)].
  Proof. vm_compute. reflexivity. Qed.

  (* the same with a non-empty group name on BOTH sides: a single parameter whose key has a group *)
  Definition bad2' : history :=
    [ OProvide 0 (mkProvideIn 1 (mkSig [] [RGroup (KG 1 7) false []] false) false false);
      OInvoke 0 (mkInvokeIn 2 (mkSig [PSingle (KG 1 7) false] [] false)) ].
  Example bad2'_aborts : map so_verdict (run cfg0 b0 d0 bad2') = [VOk; VAbort (ABug 2)].
  Proof. vm_compute. reflexivity. Qed.

  (* ABug 1: the same coincidence through the decorator table *)
  Definition bad1 : history :=
    [ OProvide 0 (mkProvideIn 1 (mkSig [] [RSingle (K 1) []] false) false false);
      ODecorate 0 (mkDecorateIn 2 (mkSig [] [RGroup (K 1) false []] false) false);
      OInvoke 0 (mkInvokeIn 3 (mkSig [PSingle (K 1) false] [] false)) ].

  Example bad1_wf : wf_scopes bad1 = true /\ P_Once.wf_fns bad1 = true /\ wf_keys bad1 = false.
  Proof. vm_compute. repeat split. Qed.
  Example bad1_aborts : map so_verdict (run cfg0 b0 d0 bad1) = [VOk; VOk; VAbort (ABug 1)].
  Proof. vm_compute. reflexivity. Qed.
End TermExample.
