(* Prop_C04.v — property theorems for C04, and nothing else. *)
From Dig Require Import Base Sig State Graph GraphProofs Register Resolve Run Spec Check
  ErrTable Err ErrTableCheck P_Frame P_Once P_Term P_Reg P_Refine P_C04.

(* ---- C04: the missing-dependency checker accepts every model trace (non-dry):
        401 an Invoke never succeeds with an unavailable required dependency,
        402 it succeeds when everything is available, the permissive graph is
            acyclic and no user function fails,
        403 unavailability is reported as a dig missing-type (or cycle) error,
        404 a constructor with a directly missing dependency is never executed
        (401/402: decorator-free registries, as the checker states).
        wf_gkeys / hist_kinds_ok / wf_keys: key-kind conventions of parsed signatures ---- *)
Theorem C04_missing_rules_hold : forall cfg b du, cfg_dry cfg = false -> forall h,
  wf_scopes h = true -> wf_keys h = true -> hist_kinds_ok h = true -> wf_gkeys h = true ->
  P_Once.wf_fns h = true ->
  walk chk_missing_op 0 reg0 [] h (map obs_of (run cfg b du h)) = [].
Proof. exact P_C04.chk_missing_nil. Qed.
Print Assumptions C04_missing_rules_hold.

(* availability is the least fixed point the checker computes *)
Theorem C04_avail_is_least_fixed_point : forall r built, NoDup (map sc_fn (r_ctors r)) ->
  forall c, In c (r_ctors r) ->
  (memb Nat.eqb (sc_fn c) (avail_set r built) = true <-> Avail r built c).
Proof. exact P_C04.avail_set_char. Qed.
Print Assumptions C04_avail_is_least_fixed_point.

(* optional / zero clause: the provenance part, up to the recorded findings *)
Theorem C04_prov_up_to_known_findings : forall cfg bt du h,
  wf_scopes h = true -> wf_strict h = true -> P_Once.wf_fns h = true -> cfg_dry cfg = false ->
  forall i c, In (i, c) (chk_prov bt h (map obs_of (run cfg (beh_of bt) du h))) ->
  c = 112 \/ c = 132 \/ (c = 120 /\ has_opt h = true /\ has_dec h = true).
Proof. exact P_Refine.prov_refines. Qed.
Print Assumptions C04_prov_up_to_known_findings.
