(* Check.v — the properties as decidable monitors over (history, observed
   trace).  The same definitions are (1) proved to accept every trace of the
   model and (2) evaluated on the traces of the implementation.  A checker
   returns the list of (operation index, code) at which it fails; [] = holds.
   Definitions only. *)
From Dig Require Import Base Sig State Graph Register Resolve Run Spec.

Definition viol := (nat * nat)%type.

Definition accepted (o : oobs) : bool :=
  match oo_verdict o with OVOk => true | _ => false end.

Definition log_of_events (evs : list event) : list lentry := flat_map log_of_event evs.

Definition built_of (log : list lentry) : list fnid :=
  flat_map (fun l => if le_ok l then [le_fn l] else []) log.

(* walk the history: P sees the registry and the log as they were BEFORE the operation *)
Fixpoint walk (P : registry -> list lentry -> op -> oobs -> list nat)
         (i : nat) (r : registry) (log : list lentry) (h : history) (obs : list oobs) : list viol :=
  match h, obs with
  | o :: h', ob :: obs' =>
      map (fun c => (i, c)) (P r log o ob) ++
      walk P (S i) (reg_step r o (accepted ob)) (log ++ log_of_events (oo_events ob)) h' obs'
  | _, _ => []
  end.

(* walk the events of one operation: Q sees the log BEFORE the event *)
Fixpoint walk_events (Q : list lentry -> event -> list nat) (log : list lentry) (evs : list event) : list nat :=
  match evs with
  | [] => []
  | ev :: t => Q log ev ++ walk_events Q (log ++ log_of_event ev) t
  end.

Definition is_exec (ev : event) : bool := match ev with EExec _ _ _ _ _ => true | _ => false end.
Definition is_fail_event (ev : event) : bool :=
  match ev with EExec _ _ _ _ OErr | EExec _ _ _ _ OPanic => true | _ => false end.
Definition guardb (b : bool) (code : nat) : list nat := if b then [] else [code].

(* =====================================================================
   Provenance of every argument (C01, C04c, C08, C09, C10, C11, C12)
   ===================================================================== *)

(* who is executing: its signature, the scope its arguments are resolved in,
   and (for a decorator) its own identity *)
Record consumer := mkCons { cn_sig : fsig; cn_view : sid; cn_self : option fnid }.

Definition find_consumer (r : registry) (o : op) (f : fnid) (rl : role) : option consumer :=
  match rl with
  | RoleCtor => match find (fun c => Nat.eqb (sc_fn c) f) (r_ctors r) with
                | Some c => Some (mkCons (sc_sig c) (sc_orig c) None)
                | None => None
                end
  | RoleDec => match find (fun d => Nat.eqb (sd_fn d) f) (r_decs r) with
               | Some d => Some (mkCons (sd_sig d) (sd_home d) (Some f))
               | None => None
               end
  | RoleInv => match o with
               | OInvoke s p => if Nat.eqb (ii_fn p) f then Some (mkCons (ii_sig p) s None) else None
               | _ => None
               end
  end.

(* codes:
   101 wrong number of arguments        102 executed function is not an accepted registration
   110 single: value is not the nearest decorator's output
   112 single: nearest decorator has not (yet) succeeded although a consumer below it ran  (D12 class)
   120 single: value is not the nearest provider's output
   121 single: zero / other value although the provider has succeeded … (covered by 120)
   122 single: required parameter received no provider value
   123 single: optional parameter is zero although its provider is available (no decorators registered)
   124 single: no visible provider yet a non-zero value
   130 group: decorated group is not the nearest decorator's output
   132 group: nearest group decorator has not succeeded (D12 class)
   140 group: a visible feeder has not run            141 group: members differ from the visible feeders' results
   150 soft group: contains a member no visible executed feeder returned
   151 soft group: lacks a member of a feeder executed before the Invoke began
   160 kind mismatch (slice vs single) *)

Section Prov.
  Variable btab : list (fnid * list outcome).
  Variable r : registry.
  Variable log0 : list lentry.       (* log when the operation began *)

  Definition chk_single (log : list lentry) (cn : consumer) (k : key) (opt : bool) (a : atom) : list nat :=
    match decorators_on_path r (cn_view cn) k (cn_self cn) with
    | d :: _ =>
        match succ_of log (sd_fn d) with
        | Some e => guardb (atom_eqb a (AProd (sd_fn d) e (opt_default 0 (dec_slot k 0 (sig_rleaves (sd_sig d)))) 0)) 110
        | None => [112]
        end
    | [] =>
        match nearest_provider r (cn_view cn) k with
        | Some c =>
            match succ_of log (sc_fn c) with
            | Some e => guardb (atom_eqb a (AProd (sc_fn c) e (opt_default 0 (slot_of_single k 0 (sig_rleaves (sc_sig c)))) 0)) 120
            | None =>
                guardb (opt && atom_eqb a AZero) 122 ++
                guardb (negb (is_nil (r_decs r)) || negb (avail_ctor r (built_of log) c)) 123
            end
        | None => guardb (opt && atom_eqb a AZero) 124
        end
    end.

  Definition members_of (log : list lentry) (k : key) (c : sctor) : list atom :=
    match succ_of log (sc_fn c) with
    | Some e => group_members k (sc_fn c) e (lens_of btab (sc_fn c) e) 0 (sig_rleaves (sc_sig c))
    | None => []
    end.

  Definition chk_group (log : list lentry) (cn : consumer) (k : key) (soft : bool) (l : list atom) : list nat :=
    match decorators_on_path r (cn_view cn) k (cn_self cn) with
    | d :: _ =>
        match succ_of log (sd_fn d) with
        | Some e =>
            let slot := opt_default 0 (dec_slot k 0 (sig_rleaves (sd_sig d))) in
            guardb (perm_eqb atom_eqb l (prod_atoms (sd_fn d) e slot (nth_len (lens_of btab (sd_fn d) e) slot))) 130
        | None => [132]
        end
    | [] =>
        let fs := feeders r (cn_view cn) k in
        if soft then
          guardb (subsetb atom_eqb l (flat_map (members_of log k) fs)) 150 ++
          guardb (subsetb atom_eqb (flat_map (members_of log0 k) fs) l) 151 ++
          guardb (nodupb atom_eqb l) 150
        else
          guardb (forallb (fun c => is_some (succ_of log (sc_fn c))) fs) 140 ++
          guardb (perm_eqb atom_eqb l (flat_map (members_of log k) fs)) 141
    end.

  Fixpoint chk_args (log : list lentry) (cn : consumer) (ls : list pleaf) (args : list arg) : list nat :=
    match ls, args with
    | [], [] => []
    | LSingle k opt :: ls', ASingle a :: args' => chk_single log cn k opt a ++ chk_args log cn ls' args'
    | LGroup k soft :: ls', ASlice l :: args' => chk_group log cn k soft l ++ chk_args log cn ls' args'
    | [], _ :: _ => [101]
    | _ :: _, [] => [101]
    | _ :: ls', _ :: args' => 160 :: chk_args log cn ls' args'
    end.

  Definition chk_exec_event (o : op) (log : list lentry) (ev : event) : list nat :=
    match ev with
    | EExec f e rl args _ =>
        match find_consumer r o f rl with
        | Some cn => chk_args log cn (sig_leaves (cn_sig cn)) args
        | None => [102]
        end
    | ECallback _ _ _ => []
    end.
End Prov.

Definition chk_prov (btab : list (fnid * list outcome)) (h : history) (obs : list oobs) : list viol :=
  walk (fun r log o ob => walk_events (chk_exec_event btab r log o) log (oo_events ob)) 0 reg0 [] h obs.

(* the invoked function runs exactly once iff Invoke returned nil or the
   function's own error; registration never runs anything *)
(* codes: 170 invoked function not executed exactly once on success
          171 invoked function executed although Invoke failed for another reason
          172 a registration / Scope call executed user code *)
Definition inv_execs (f : fnid) (evs : list event) : nat :=
  count_occ_b (fun ev => match ev with EExec f' _ RoleInv _ _ => Nat.eqb f f' | _ => false end) evs.

Definition chk_invoked_once (dry : bool) (o : op) (ob : oobs) : list nat :=
  match o with
  | OInvoke _ p =>
      let n := inv_execs (ii_fn p) (oo_events ob) in
      match oo_verdict ob with
      | OVOk => guardb (Nat.eqb n (if dry then 0 else 1)) 170
      | OVErr [] (QUser f _) => guardb (Nat.eqb n 1 && Nat.eqb f (ii_fn p)) 170
      | OVErr [] (QPanic f _) => guardb (Nat.eqb n 1 && Nat.eqb f (ii_fn p)) 170
      | OVPanicked f _ => guardb (Nat.eqb n (if Nat.eqb f (ii_fn p) then 1 else 0)) 171
      | _ => guardb (Nat.eqb n 0) 171
      end
  | _ => guardb (is_nil (oo_events ob)) 172
  end.

(* C01 *)
Definition chk_C01 (cfg : config) (btab : list (fnid * list outcome)) (h : history) (obs : list oobs) : list viol :=
  chk_prov btab h obs ++
  walk (fun _ _ o ob => chk_invoked_once (cfg_dry cfg) o ob) 0 reg0 [] h obs.

(* =====================================================================
   C02 singletons / C07 failed executions
   ===================================================================== *)

(* codes: 201 execution index is not the number of earlier executions
          202 a function executed again after it had succeeded
          203 an argument was produced by an execution that did not succeed (or did not happen) earlier
          204 an operation diverged / dig panicked *)
Definition atoms_of_arg (a : arg) : list atom :=
  match a with ASingle x => [x] | ASlice l => l end.

Definition atom_from_success (log : list lentry) (a : atom) : bool :=
  match a with
  | AZero => true
  | AProd f e _ _ => existsb (fun l => Nat.eqb (le_fn l) f && Nat.eqb (le_exec l) e && le_ok l) log
  end.

Definition chk_once_event (log : list lentry) (ev : event) : list nat :=
  match ev with
  | EExec f e rl args _ =>
      guardb (Nat.eqb e (execs_of log f)) 201 ++
      guardb (negb (is_some (succ_of log f))) 202 ++
      guardb (forallb (atom_from_success log) (flat_map atoms_of_arg args)) 203
  | ECallback _ _ _ => []
  end.

Definition chk_no_crash (ob : oobs) : list nat :=
  match oo_verdict ob with
  | OVBug => [204] | OVDiverged => [204] | _ => []
  end.

Definition chk_C02 (h : history) (obs : list oobs) : list viol :=
  walk (fun _ log _ ob => walk_events chk_once_event log (oo_events ob) ++ chk_no_crash ob) 0 reg0 [] h obs.

(* codes: 701 several failing executions in one operation
          702 a failing execution is not the last execution of the operation
          703 the operation's verdict does not carry that failure as its root
          704 verdict names a user failure that no execution of this operation produced *)
Definition fail_matches (recover : bool) (ev : event) (v : overdict) : bool :=
  match ev, v with
  | EExec f e _ _ OErr, OVErr _ (QUser f' e') => Nat.eqb f f' && Nat.eqb e e'
  | EExec f e _ _ OPanic, OVErr _ (QPanic f' e') => recover && Nat.eqb f f' && Nat.eqb e e'
  | EExec f e _ _ OPanic, OVPanicked f' e' => negb recover && Nat.eqb f f' && Nat.eqb e e'
  | _, _ => false
  end.

Definition chk_fail_root (recover : bool) (ob : oobs) : list nat :=
  let execs := filter is_exec (oo_events ob) in
  let fails := filter is_fail_event execs in
  match fails with
  | [] => match oo_verdict ob with
          | OVErr _ (QUser _ _) | OVErr _ (QPanic _ _) | OVPanicked _ _ => [704]
          | _ => []
          end
  | [ev] =>
      guardb (match last execs ev with EExec _ _ _ _ OErr | EExec _ _ _ _ OPanic => true | _ => false end) 702 ++
      guardb (fail_matches recover ev (oo_verdict ob)) 703
  | _ => [701]
  end.

Definition chk_C07 (cfg : config) (h : history) (obs : list oobs) : list viol :=
  walk (fun _ log _ ob =>
          walk_events (fun lg ev => match ev with
                                    | EExec _ _ _ args _ => guardb (forallb (atom_from_success lg) (flat_map atoms_of_arg args)) 203
                                    | _ => []
                                    end) log (oo_events ob) ++
          chk_fail_root (cfg_recover cfg) ob) 0 reg0 [] h obs.

(* =====================================================================
   C03 laziness
   ===================================================================== *)

(* the closure an Invoke may touch, over-approximated on the registry:
   everything reachable from the requested leaves through providers, feeders
   (non-soft) and decorators of the requested keys in enclosing scopes *)
Definition offers_for (r : registry) (view : sid) (l : pleaf) (v : vertex) : bool :=
  encloses r (vertex_home v) view &&
  match l, v with
  | LSingle k _, VC c => provides_single c k
  | LGroup k soft, VC c => negb soft && feeds_group c k
  | LSingle k _, VD d => decorates d k
  | LGroup k _, VD d => decorates d k
  end.

Definition vertex_view (v : vertex) : sid :=
  match v with VC c => sc_orig c | VD d => sd_home d end.

Fixpoint closure (fuel : nat) (r : registry) (vs : list vertex) (front : list (sid * pleaf)) (acc : list fnid) : list fnid :=
  match fuel with
  | 0 => acc
  | S f =>
      let hit := filter (fun v => negb (memb Nat.eqb (vertex_fn v) acc) &&
                                  existsb (fun p => offers_for r (fst p) (snd p) v) front) vs in
      match hit with
      | [] => acc
      | _ => closure f r vs
               (flat_map (fun v => map (fun l => (vertex_view v, l)) (vertex_leaves v)) hit)
               (map vertex_fn hit ++ acc)
      end
  end.

Definition may_run (r : registry) (s : sid) (sg : fsig) : list fnid :=
  closure (S (length (r_ctors r) + length (r_decs r))) r (all_vertices r)
          (map (fun l => (s, l)) (sig_leaves sg)) [].

(* codes: 301 a registration executed user code   302 an Invoke executed a function outside its closure *)
Definition chk_lazy_op (r : registry) (o : op) (ob : oobs) : list nat :=
  match o with
  | OInvoke s p =>
      let allowed := ii_fn p :: may_run r s (ii_sig p) in
      guardb (forallb (fun ev => match ev with
                                 | EExec f _ _ _ _ => memb Nat.eqb f allowed
                                 | ECallback f _ _ => memb Nat.eqb f allowed
                                 end) (oo_events ob)) 302
  | _ => guardb (is_nil (oo_events ob)) 301
  end.

Definition chk_C03 (h : history) (obs : list oobs) : list viol :=
  walk (fun r log o ob =>
          chk_lazy_op r o ob ++
          walk_events (fun lg ev => match ev with
                                    | EExec _ _ _ args _ => guardb (forallb (atom_from_success lg) (flat_map atoms_of_arg args)) 203
                                    | _ => []
                                    end) log (oo_events ob)) 0 reg0 [] h obs.

(* =====================================================================
   C04 missing dependencies
   ===================================================================== *)

(* codes: 401 Invoke succeeded although a required dependency is unavailable
          402 Invoke failed although everything is available, the graph is acyclic and nothing failed (decorator-free registry)
          403 unavailable dependency reported as something other than a dig missing-type / cycle error
          404 a constructor with a directly missing required dependency was executed *)
Definition directly_missing (r : registry) (c : sctor) : bool :=
  existsb (fun l => match l with
                    | LSingle k false => negb (is_some (nearest_provider r (sc_orig c) k)) &&
                                         is_nil (decorators_on_path r (sc_orig c) k None)
                    | _ => false
                    end) (sig_leaves (sc_sig c)).

Definition chk_missing_op (r : registry) (log : list lentry) (o : op) (ob : oobs) : list nat :=
  match o with
  | OInvoke s p =>
      let av := forallb (avail_leaf r (built_of log) s) (sig_leaves (ii_sig p)) in
      let nodec := is_nil (r_decs r) in
      let nofail := negb (existsb is_fail_event (oo_events ob)) in
      (if negb av && nodec then
         match oo_verdict ob with
         | OVOk => [401]
         | OVErr _ QMissing | OVErr _ QCycle => []
         | _ => if nofail then [403] else []
         end
       else []) ++
      (if av && nodec && nofail && acyclicb (perm_graph r (all_vertices r)) then
         match oo_verdict ob with OVOk => [] | _ => [402] end
       else []) ++
      guardb (forallb (fun ev => match ev with
                                 | EExec f _ RoleCtor _ _ =>
                                     match find (fun c => Nat.eqb (sc_fn c) f) (r_ctors r) with
                                     | Some c => negb (directly_missing r c)
                                     | None => true
                                     end
                                 | _ => true
                                 end) (oo_events ob)) 404
  | _ => []
  end.

Definition chk_C04 (cfg : config) (btab : list (fnid * list outcome)) (h : history) (obs : list oobs) : list viol :=
  walk (fun r log o ob => chk_missing_op r log o ob) 0 reg0 [] h obs ++
  chk_prov btab h obs ++
  walk (fun _ _ _ ob => chk_fail_root (cfg_recover cfg) ob) 0 reg0 [] h obs.

(* =====================================================================
   C05 cycles (container level)
   ===================================================================== *)

(* codes: 501 an operation diverged or dig panicked
          502 a cycle was reported although the most permissive graph is acyclic
          503 (non-deferred) Provide accepted although it closes a cycle in the view of the target or a descendant
          504 (non-deferred) Provide reported a cycle although no single view contains one
          505 a cycle verdict on an Invoke that executed user functions after detecting it … not checked
          506 Provide rejected with a cycle error changed the set of executed functions … see C06 *)
Definition is_cycle_verdict (v : overdict) : bool :=
  match v with OVErr _ QCycle => true | _ => false end.

Definition chk_cycle_op (defer_ : bool) (r : registry) (o : op) (ob : oobs) : list nat :=
  chk_no_crash ob ++
  match o with
  | OProvide s p =>
      let cand := mkSCtor (pi_fn p) (pi_sig p) (if pi_export p then 0 else s) s in
      let r' := mkReg (r_parents r) (r_ctors r ++ [cand]) (r_decs r) in
      let some_view_cyclic :=
          existsb (fun a => negb (acyclicb (view_graph r' a (r_ctors r')))) (subtree_of r (sc_home cand)) in
      if is_cycle_verdict (oo_verdict ob) then
        guardb (negb (acyclicb (perm_graph r' (all_vertices r')))) 502 ++
        guardb (defer_ || some_view_cyclic) 504
      else if accepted ob then guardb (defer_ || negb some_view_cyclic) 503
      else []
  | OInvoke _ _ =>
      if is_cycle_verdict (oo_verdict ob)
      then guardb (negb (acyclicb (perm_graph r (all_vertices r)))) 502
      else []
  | _ => guardb (negb (is_cycle_verdict (oo_verdict ob))) 502
  end.

Definition chk_C05 (cfg : config) (h : history) (obs : list oobs) : list viol :=
  walk (fun r _ o ob => chk_cycle_op (cfg_defer cfg) r o ob) 0 reg0 [] h obs.

(* =====================================================================
   C09 keys and duplicates / C12 decorator registration
   ===================================================================== *)

(* codes: 901 Provide of an already provided (or internally duplicated) single key was not rejected
          902 Provide rejected as duplicate although no single key conflicts
          903 Provide with no result keys accepted
          1201 Decorate of an already decorated key (or returning a key twice) accepted   1202 Decorate rejected without a conflict *)
Fixpoint has_dup_key (seen ks : list key) : bool :=
  match ks with
  | [] => false
  | k :: t => memb key_eqb k seen || has_dup_key (k :: seen) t
  end.

Definition spec_dup (r : registry) (target : sid) (sg : fsig) : bool :=
  has_dup_key [] (single_keys sg) ||
  existsb (fun k => negb (is_nil (providers_in r target k))) (single_keys sg).

Definition is_dup_verdict (v : overdict) : bool :=
  match v with OVErr [KProvide; KInvalid] QInvalidLeaf => true | _ => false end.

Definition chk_keys_op (r : registry) (o : op) (ob : oobs) : list nat :=
  match o with
  | OProvide s p =>
      let target := if pi_export p then 0 else s in
      let d := spec_dup r target (pi_sig p) in
      (if d then guardb (negb (accepted ob)) 901 else guardb (negb (is_dup_verdict (oo_verdict ob))) 902) ++
      (if is_nil (sig_keys (pi_sig p)) then guardb (negb (accepted ob)) 903 else [])
  | ODecorate s p =>
      let conflict := negb (nodupb key_eqb (dec_keys (di_sig p))) ||
                      existsb (fun k => existsb (fun d => Nat.eqb (sd_home d) s && decorates d k) (r_decs r))
                              (dec_keys (di_sig p)) in
      if conflict then guardb (negb (accepted ob)) 1201 else guardb (accepted ob) 1202
  | _ => []
  end.

Definition chk_C09 (btab : list (fnid * list outcome)) (h : history) (obs : list oobs) : list viol :=
  walk (fun r _ o ob => chk_keys_op r o ob) 0 reg0 [] h obs ++ chk_prov btab h obs.

(* C08, C10, C11, C12 are the provenance checker on their profiles plus the
   registration rules *)
Definition chk_C08 := chk_prov.
Definition chk_C10 (btab : list (fnid * list outcome)) (h : history) (obs : list oobs) : list viol :=
  chk_prov btab h obs ++ chk_C02 h obs.
Definition chk_C11_base (btab : list (fnid * list outcome)) (h : history) (obs : list oobs) : list viol :=
  chk_prov btab h obs ++ chk_C03 h obs.
Definition chk_C12 (btab : list (fnid * list outcome)) (h : history) (obs : list oobs) : list viol :=
  walk (fun r _ o ob => chk_keys_op r o ob) 0 reg0 [] h obs ++ chk_prov btab h obs ++ chk_C02 h obs.

(* =====================================================================
   C14 (history level): bad inputs are rejected with an error, nothing panics
   ===================================================================== *)

(* codes: 1401 dig panicked / diverged   1402 a malformed input was accepted *)
Definition chk_C14 (h : history) (obs : list oobs) : list viol :=
  walk (fun _ _ o ob =>
          chk_no_crash ob ++
          match o with
          | OBad _ _ _ => guardb (match oo_verdict ob with OVErr _ _ => true | _ => false end) 1402
          | _ => []
          end) 0 reg0 [] h obs.

(* =====================================================================
   C17 dry run / C20 callbacks
   ===================================================================== *)

(* codes: 1701 a user function ran in a dry container *)
Definition chk_C17_dry (h : history) (obs : list oobs) : list viol :=
  walk (fun _ _ _ ob => guardb (forallb (fun ev => negb (is_exec ev)) (oo_events ob)) 1701) 0 reg0 [] h obs.

(* verdict classes compared between the dry container and the normal all-ok one *)
Definition vclass (v : overdict) : nat :=
  match v with
  | OVOk => 0
  | OVErr ls QMissing => 1
  | OVErr ls QCycle => 2
  | OVErr ls QInvalidLeaf => 3
  | OVErr ls QGroupOpt => 3
  | OVErr ls QForeign => 3
  | OVErr ls (QUser _ _) => 4
  | OVErr ls (QPanic _ _) => 5
  | OVPanicked _ _ => 6
  | OVBug => 7
  | OVDiverged => 8
  end.

Fixpoint chk_same_verdicts (i : nat) (a b : list oobs) : list viol :=
  match a, b with
  | x :: a', y :: b' =>
      (if Nat.eqb (vclass (oo_verdict x)) (vclass (oo_verdict y)) &&
          list_eqb lkind_eqb (match oo_verdict x with OVErr l _ => l | _ => [] end)
                             (match oo_verdict y with OVErr l _ => l | _ => [] end)
       then [] else [(i, 1702)]) ++ chk_same_verdicts (S i) a' b'
  | [], [] => []
  | _, _ => [(i, 1703)]
  end.

(* codes: 2001 an execution of a function with a callback is not immediately followed by its callback
          2002 callback error class does not match the outcome   2003 Runtime is not the time spent in the body
          2004 a callback fired that does not directly follow an execution of its function *)
Definition has_cb (h : history) (f : fnid) : bool :=
  existsb (fun o => match o with
                    | OProvide _ p => Nat.eqb (pi_fn p) f && pi_cb p
                    | ODecorate _ p => Nat.eqb (di_fn p) f && di_cb p
                    | _ => false
                    end) h.

Definition ecls_ok (recover : bool) (f : fnid) (e : nat) (o : outcome) (c : ecls) : bool :=
  match o with
  | OOk _ => ecls_eqb c ENone
  | OErr => ecls_eqb c (EUser f e)
  | OPanic => if recover then ecls_eqb c (EPanicE f e) else ecls_eqb c ENone
  end.

Fixpoint cb_scan (recover : bool) (du : dur) (h : history) (evs : list event) : list nat :=
  match evs with
  | [] => []
  | EExec f e rl _ o :: rest =>
      match rl with
      | RoleInv => cb_scan recover du h rest
      | _ =>
          if has_cb h f then
            match rest with
            | ECallback f' c rt :: rest' =>
                guardb (Nat.eqb f f') 2001 ++ guardb (ecls_ok recover f e o c) 2002 ++
                guardb (N.eqb rt (du f e)) 2003 ++ cb_scan recover du h rest'
            | _ => [2001]
            end
          else cb_scan recover du h rest
      end
  | ECallback _ _ _ :: rest => 2004 :: cb_scan recover du h rest
  end.

Definition chk_C20 (cfg : config) (dtab : list (fnid * list N)) (h : history) (obs : list oobs) : list viol :=
  if cfg_dry cfg then []
  else walk (fun _ _ _ ob => cb_scan (cfg_recover cfg) (dur_of dtab) h (oo_events ob)) 0 reg0 [] h obs.

(* =====================================================================
   Relational checkers: C06 (rejected registrations deleted), C16 (order)
   ===================================================================== *)

(* obs of the full history with the entries at rejected registrations removed
   must equal the obs of the history without them.  codes: 601 differ, 602 a
   rejected function was executed *)
Fixpoint drop_rejected (h : history) (obs : list oobs) : list oobs :=
  match h, obs with
  | o :: h', ob :: obs' =>
      match o with
      | OProvide _ _ | ODecorate _ _ | OBad _ _ _ =>
          if accepted ob then ob :: drop_rejected h' obs' else drop_rejected h' obs'
      | _ => ob :: drop_rejected h' obs'
      end
  | _, _ => []
  end.

Fixpoint chk_eq_obs (i : nat) (code : nat) (a b : list oobs) : list viol :=
  match a, b with
  | x :: a', y :: b' => (if oobs_eqb x y then [] else [(i, code)]) ++ chk_eq_obs (S i) code a' b'
  | [], [] => []
  | _, _ => [(i, code + 1)]
  end.

Definition chk_C06 (h : history) (obs_full obs_without : list oobs) : list viol :=
  chk_eq_obs 0 601 (drop_rejected h obs_full) obs_without.

(* wiring: the provenance of every execution, forgetting the execution order
   across functions: per function the list of (exec, args, outcome class) *)
Definition exec_key (ev : event) : option (fnid * nat) :=
  match ev with EExec f e _ _ _ => Some (f, e) | _ => None end.

Definition find_exec (f : fnid) (e : nat) (obs : list oobs) : option event :=
  find (fun ev => match ev with EExec f' e' _ _ _ => Nat.eqb f f' && Nat.eqb e e' | _ => false end)
       (flat_map oo_events obs).

(* codes: 1601 a registration's verdict class differs, or an Invoke succeeds
   in one run and fails in the other   1602 an execution of a successful
   Invoke of the reference run is missing or received different arguments in
   the permuted run (soft value groups aside)   1603 length differs
   1604 only a SOFT value group differs, and an earlier Invoke had failed
        (what a failed Invoke happened to execute before failing depends on the
        order of group providers, and soft groups observe it)
   1605 a soft value group differs although no earlier Invoke failed.
   (Invokes that fail in both runs may fail for different reasons: which of
   several failing dependencies is reached first depends on the order of
   group providers, and the property claims nothing about them.) *)
Definition sig_of_fn (h : history) (f : fnid) : option fsig :=
  find_map (fun o => match o with
                     | OProvide _ p => if Nat.eqb (pi_fn p) f then Some (pi_sig p) else None
                     | ODecorate _ p => if Nat.eqb (di_fn p) f then Some (di_sig p) else None
                     | OInvoke _ p => if Nat.eqb (ii_fn p) f then Some (ii_sig p) else None
                     | _ => None
                     end) h.

Fixpoint mask_soft (ls : list pleaf) (args : list arg) : list arg :=
  match ls, args with
  | LGroup _ true :: ls', _ :: args' => ASlice [] :: mask_soft ls' args'
  | _ :: ls', a :: args' => a :: mask_soft ls' args'
  | _, _ => args
  end.

Definition mask_event (h : history) (ev : event) : event :=
  match ev with
  | EExec f e r args o =>
      match sig_of_fn h f with
      | Some sg => EExec f e r (mask_soft (sig_leaves sg) args) o
      | None => ev
      end
  | _ => ev
  end.

Definition chk_C16 (h : history) (perm : list nat) (obsA obsB : list oobs) : list viol :=
  (* perm[i] = index in B of operation i of A *)
  flat_map (fun p =>
              let i := fst p in
              match nth_error obsB (snd p), nth_error obsA i, nth_error h i with
              | Some y, Some x, Some o =>
                  (match o with
                   | OInvoke _ _ => if Bool.eqb (accepted x) (accepted y) then [] else [(i, 1601)]
                   | _ => if Nat.eqb (vclass (oo_verdict x)) (vclass (oo_verdict y)) then [] else [(i, 1601)]
                   end) ++
                  (if accepted x then
                     let failed_before :=
                         existsb (fun q => match fst q with
                                           | OInvoke _ _ => negb (accepted (snd q))
                                           | _ => false
                                           end) (firstn i (combine h obsA)) in
                     flat_map (fun ev => match ev with
                                         | EExec f e _ _ _ =>
                                             match find_exec f e obsB with
                                             | Some ev' =>
                                                 if event_eqb ev ev' then []
                                                 else if event_eqb (mask_event h ev) (mask_event h ev')
                                                      then [(i, if failed_before then 1604 else 1605)]
                                                      else [(i, 1602)]
                                             | None => [(i, 1602)]
                                             end
                                         | _ => []
                                         end) (oo_events x)
                   else [])
              | _, _, _ => [(i, 1603)]
              end) (combine (seq 0 (length perm)) perm).

(* =====================================================================
   C11, last clause: a soft group contains the members contributed by the
   constructors that the OTHER fields of the same parameter object require
   ===================================================================== *)

(* parallel to decl_leaves: for a soft-group leaf, the non-soft leaves of the
   fields of its own (immediate) parameter object; [] for every other leaf *)
Fixpoint soft_siblings (p : param) (sibs : list pleaf) : list (list pleaf) :=
  match p with
  | PSingle _ _ => [[]]
  | PGroup _ true => [sibs]
  | PGroup _ false => [[]]
  | PObj fs =>
      let mine := (fix go (l : list param) : list pleaf :=
                     match l with
                     | [] => []
                     | f :: t => (if is_soft_group f then [] else decl_leaves f) ++ go t
                     end) fs in
      (fix go (l : list param) : list (list pleaf) :=
         match l with
         | [] => []
         | f :: t => soft_siblings f mine ++ go t
         end) fs
  end.

Definition soft_siblings_list (ps : list param) : list (list pleaf) :=
  flat_map (fun p => soft_siblings p []) ps.

(* code 152: a soft group lacks a member of a constructor required by another
   field of the same parameter object.  Only for keys no enclosing scope
   decorates, as the property says. *)
Section SoftSib.
  Variable btab : list (fnid * list outcome).
  Variable r : registry.

  Definition required_ctors (cn : consumer) (sib : pleaf) : list sctor :=
    match sib with
    | LSingle k _ =>
        match decorators_on_path r (cn_view cn) k (cn_self cn), nearest_provider r (cn_view cn) k with
        | [], Some c => [c]
        | _, _ => []
        end
    | LGroup k false =>
        match decorators_on_path r (cn_view cn) k (cn_self cn) with
        | [] => feeders r (cn_view cn) k
        | _ => []
        end
    | LGroup _ true => []
    end.

  Fixpoint chk_soft_args (log : list lentry) (cn : consumer) (ls : list pleaf) (sibs : list (list pleaf))
           (args : list arg) : list nat :=
    match ls, sibs, args with
    | LGroup k true :: ls', sb :: sibs', ASlice l :: args' =>
        (match decorators_on_path r (cn_view cn) k (cn_self cn) with
         | [] =>
             let need := filter (fun c => feeds_group c k && encloses r (sc_home c) (cn_view cn))
                                (flat_map (required_ctors cn) sb) in
             guardb (subsetb atom_eqb (flat_map (members_of btab log k) need) l) 152
         | _ => []
         end) ++ chk_soft_args log cn ls' sibs' args'
    | _ :: ls', _ :: sibs', _ :: args' => chk_soft_args log cn ls' sibs' args'
    | _, _, _ => []
    end.

  Definition chk_soft_event (o : op) (log : list lentry) (ev : event) : list nat :=
    match ev with
    | EExec f e rl args _ =>
        match find_consumer r o f rl with
        | Some cn => chk_soft_args log cn (sig_leaves (cn_sig cn)) (soft_siblings_list (fs_params (cn_sig cn))) args
        | None => []
        end
    | ECallback _ _ _ => []
    end.
End SoftSib.

Definition chk_soft_sib (btab : list (fnid * list outcome)) (h : history) (obs : list oobs) : list viol :=
  walk (fun r log o ob => walk_events (chk_soft_event btab r o) log (oo_events ob)) 0 reg0 [] h obs.

Definition chk_C11 (btab : list (fnid * list outcome)) (h : history) (obs : list oobs) : list viol :=
  chk_C11_base btab h obs ++ chk_soft_sib btab h obs.

(* =====================================================================
   All single-run checkers on one case, tagged with the property number
   ===================================================================== *)

Definition tag (p : nat) (vs : list viol) : list (nat * nat * nat) :=
  map (fun v => (p, fst v, snd v)) vs.

Definition all_checks (c : case) (obs : list oobs) : list (nat * nat * nat) :=
  let cfg := cs_cfg c in let h := cs_hist c in let bt := cs_beh c in
  tag 1 (chk_C01 cfg bt h obs) ++ tag 2 (chk_C02 h obs) ++ tag 3 (chk_C03 h obs) ++
  tag 4 (chk_C04 cfg bt h obs) ++ tag 5 (chk_C05 cfg h obs) ++ tag 7 (chk_C07 cfg h obs) ++
  tag 9 (chk_C09 bt h obs) ++ tag 12 (chk_C12 bt h obs) ++ tag 14 (chk_C14 h obs) ++
  (if cfg_dry cfg then tag 17 (chk_C17_dry h obs) else []) ++
  tag 20 (chk_C20 cfg (cs_dur c) h obs).

Fixpoint violations_from (sel : case -> list oobs) (i : nat) (cs : list case) : list (nat * nat * nat * nat) :=
  match cs with
  | [] => []
  | c :: t => map (fun v => (i, fst (fst v), snd (fst v), snd v)) (dedup_first (fun a b => Nat.eqb (fst (fst a)) (fst (fst b)) && Nat.eqb (snd a) (snd b) && Nat.eqb (snd (fst a)) (snd (fst b))) (all_checks c (sel c)))
              ++ violations_from sel (S i) t
  end.

(* checkers on the implementation's observations *)
Definition impl_violations (cs : list case) := violations_from cs_impl 0 cs.
(* checkers on the model's own observations (what the theorems say is empty) *)
Definition model_violations (cs : list case) := violations_from model_obs 0 cs.
