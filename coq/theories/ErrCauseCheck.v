(* ErrCauseCheck.v — on the regenerated call-site table: no dig wrapper is
   handed a non-dig error as its cause, so RootCause of a dig-originated
   rejection is a dig.Error (finite table, closed by computation). *)
From Dig Require Import Base ErrTable Err.

Theorem no_foreign_cause_now : no_foreign_cause cause_sites = true.
Proof. vm_compute. reflexivity. Qed.
