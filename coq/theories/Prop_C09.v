(* Prop_C09.v — property theorems for C09, and nothing else: each statement is closed
   by `exact <lemma>` and followed by Print Assumptions. *)
From Dig Require Import Base Sig State Graph GraphProofs Register Resolve Run Spec Check
  ErrTable Err ErrTableCheck GoTypes Parse RunRaw P_Parse P_Frame P_Reg P_Keys P_Once P_Term P_Refine P_Glue.

(* ---- C09: in every accepted signature single keys carry no group name and
        group keys carry one, so a single key and a group key never coincide ---- *)
Theorem C09_keys_never_mix_partial : forall fn v o p,
  provide_parse fn v o = POk p -> keys_never_mix (pi_sig p).
Proof. exact P_Parse.C09_provide_keys. Qed.
Print Assumptions C09_keys_never_mix_partial.

Theorem C09_keys_disjoint_partial : forall s1 s2 k1 k2,
  accepted_sig s1 -> accepted_sig s2 -> single_key s1 k1 -> group_key s2 k2 -> key_eqb k1 k2 = false.
Proof. exact P_Parse.keys_disjoint. Qed.
Print Assumptions C09_keys_disjoint_partial.

(* ---- C09 / C12 registration rules: a Provide is rejected as duplicate exactly
        when a single key of its signature repeats or is already provided in
        the target scope; group keys never conflict; a Decorate is rejected
        exactly when it returns the same key twice or the scope already
        decorates one of its keys ---- *)
Theorem C09_rules_hold : forall cfg b du h, wf_scopes h = true -> hist_kinds_ok h = true ->
  walk (fun r _ o ob => chk_keys_op r o ob) 0 reg0 [] h (map obs_of (run cfg b du h)) = [].
Proof. exact P_Keys.keys_rules_ok. Qed.
Print Assumptions C09_rules_hold.

(* ---- C09: provenance part (every consumer receives what the spec prescribes:
        nearest decorator's output, else nearest provider's, exact key) up to the
        recorded known findings D12 / D13 ---- *)
Theorem C09_prov_up_to_known_findings : forall cfg bt du h,
  wf_scopes h = true -> wf_strict h = true -> P_Once.wf_fns h = true -> cfg_dry cfg = false ->
  forall i c, In (i, c) (chk_prov bt h (map obs_of (run cfg (beh_of bt) du h))) ->
  c = 112 \/ c = 132 \/ (c = 120 /\ has_opt h = true /\ has_dec h = true).
Proof. exact P_Refine.prov_refines. Qed.
Print Assumptions C09_prov_up_to_known_findings.

(* ---- C09, the whole checker (registration rules + provenance): nothing but the
        recorded known findings ---- *)
Theorem C09_holds_up_to_known_findings : forall cfg bt du h,
  wf_scopes h = true -> wf_strict h = true -> P_Once.wf_fns h = true -> cfg_dry cfg = false ->
  forall i c, In (i, c) (chk_C09 bt h (map obs_of (run cfg (beh_of bt) du h))) ->
    c = 112 \/ c = 132 \/ (c = 120 /\ has_opt h = true /\ has_dec h = true).
Proof. exact P_Glue.chk_C09_bound. Qed.
Print Assumptions C09_holds_up_to_known_findings.

(* ---- the same for every history dig's own parser produces: `raw_only rh` says that
        each operation of rh is a Scope call or a Provide / Decorate / Invoke of an
        arbitrary Go value of the grammar (GoTypes) with arbitrary options;
        `lower_op` parses it (Parse / RunRaw).  No well-formedness premise on keys
        is left: the parser establishes it (P_Glue.lowered_wf) ---- *)
Theorem C09_holds_raw : forall cfg bt du rh, raw_only rh ->
  wf_scopes (map lower_op rh) = true -> P_Once.wf_fns (map lower_op rh) = true -> cfg_dry cfg = false ->
  forall i c, In (i, c) (chk_C09 bt (map lower_op rh) (map obs_of (run cfg (beh_of bt) du (map lower_op rh)))) ->
    Bound (map lower_op rh) c.
Proof. exact P_Glue.C09_raw. Qed.
Print Assumptions C09_holds_raw.
