(* RunViz.v — what Visualize must print after every operation of a history,
   according to the model (Dot.v over the model state) and according to the
   registry (spec), and the comparison with the implementation's parsed DOT
   text.  Definitions only. *)
From Dig Require Import Base Sig State Graph Register Resolve Run Spec Check Dot.

(* after each operation: the plain graph, and for a failed Invoke the graph
   marked with its error *)
Fixpoint viz_from (cfg : config) (b : beh) (du : dur) (st : state) (h : history) : list (odot * option odot) :=
  match h with
  | [] => []
  | o :: t =>
      let r := step cfg b du st o in
      let st' := snd r in
      let g := create_graph st' in
      (odot_of g,
       match o, fst r with
       | OInvoke _ _, VErr e => Some (odot_of (update_graph st' g e))
       | _, _ => None
       end) :: viz_from cfg b du st' t
  end.

Definition model_viz (c : case) : list (odot * option odot) :=
  viz_from (cs_cfg c) (beh_of (cs_beh c)) (dur_of (cs_dur c)) init_state (cs_hist c).

(* the graph the REGISTRY prescribes: one cluster per accepted constructor,
   scopes in pre-order, constructors of a scope in order of acceptance *)
Fixpoint preorder_fuel (fuel : nat) (r : registry) (s : sid) : list sid :=
  match fuel with
  | 0 => [s]
  | S f => s :: flat_map (preorder_fuel f r)
                  (filter (fun c => option_eqb Nat.eqb (nth c (r_parents r) None) (Some s))
                          (seq 0 (length (r_parents r))))
  end.

Definition spec_graph (r : registry) : dgraph :=
  fold_left (fun g c => add_ctor g (IdFn (sc_fn c)) (sc_sig c))
            (flat_map (fun s => filter (fun c => Nat.eqb (sc_home c) s) (r_ctors r))
                      (preorder_fuel (length (r_parents r)) r 0))
            empty_graph.

Definition opt_odot_eqb (a b : option odot) : bool := option_eqb odot_eqb a b.

(* implementation side: per operation (plain graph, optional error graph, DOT text well-formed) *)
Definition vobs := (odot * option odot * bool)%type.

(* codes: 1901 the DOT text is not well formed
          1902 the plain graph is not the picture of the accepted registrations
          1 / 2 (mismatch) the plain / the error graph differs from the model's *)
Fixpoint viz_walk (i : nat) (r : registry) (h : history) (obs : list oobs) (vs : list vobs) : list viol :=
  match h, obs, vs with
  | o :: h', ob :: obs', (g, ge, wf) :: vs' =>
      let r' := reg_step r o (accepted ob) in
      (if wf then [] else [(i, 1901)]) ++
      (if odot_eqb g (odot_of (spec_graph r')) then [] else [(i, 1902)]) ++
      viz_walk (S i) r' h' obs' vs'
  | _, _, _ => []
  end.

Definition chk_C19 (h : history) (obs : list oobs) (vs : list vobs) : list viol :=
  viz_walk 0 reg0 h obs vs.

Fixpoint viz_diff (i : nat) (m : list (odot * option odot)) (vs : list vobs) : list (nat * nat) :=
  match m, vs with
  | (g, ge) :: m', (g', ge', _) :: vs' =>
      (if odot_eqb g g' then [] else [(i, 1)]) ++
      (if opt_odot_eqb ge ge' then [] else [(i, 2)]) ++ viz_diff (S i) m' vs'
  | _, _ => []
  end.

Fixpoint vmism_from (i : nat) (cs : list (case * list vobs)) : list (nat * nat * nat) :=
  match cs with
  | [] => []
  | (c, vs) :: t => map (fun d => (i, fst d, snd d)) (viz_diff 0 (model_viz c) vs) ++ vmism_from (S i) t
  end.

Fixpoint vviol_from (i : nat) (cs : list (case * list vobs)) : list (nat * nat * nat) :=
  match cs with
  | [] => []
  | (c, vs) :: t => map (fun d => (i, fst d, snd d)) (chk_C19 (cs_hist c) (cs_impl c) vs) ++ vviol_from (S i) t
  end.
