(* Prop_C05.v — property theorems for C05, and nothing else: each statement is closed
   by `exact <lemma>` and followed by Print Assumptions. *)
From Dig Require Import Base Sig State Graph GraphProofs Register Resolve Run Spec Check
  ErrTable Err ErrTableCheck P_Frame P_Term P_Reg P_C05.

(* ---- C05: the cycle detector decides cyclicity and returns real cycles;
        non-deferred containers never hold a cyclic scope graph ---- *)
Theorem C05_detector_decides : forall g, wf_graph g = true ->
  (exists p, is_acyclic g = Some (false, p) /\ closed_path g p) \/
  (is_acyclic g = Some (true, []) /\ ~ cyclic g).
Proof. exact dfs_decides. Qed.
Print Assumptions C05_detector_decides.

Theorem C05_reachable_acyclic : forall cfg b du h a, wf_scopes h = true -> cfg_defer cfg = false ->
  ~ cyclic (scope_graph (state_after cfg b du h) a).
Proof. exact P_Frame.reachable_acyclic. Qed.
Print Assumptions C05_reachable_acyclic.

(* ---- C05: resolution always terminates with the fuel Invoke supplies, never
        re-enters a constructor or decorator that is on the stack (every frame
        is popped: quiescence), and the model never reaches a branch in which
        dig itself would panic ---- *)
Theorem C05_never_aborts : forall cfg b du h,
  wf_scopes h = true -> wf_keys h = true ->
  forall o, In o (run cfg b du h) ->
  match so_verdict o with VAbort (ABug _) | VAbort AFuel => False | _ => True end.
Proof. exact P_Term.run_never_aborts. Qed.
Print Assumptions C05_never_aborts.

Theorem C05_fuel_enough : forall cfg b du f t st,
  tpre t st -> G st -> need t st <= f -> fst (eval cfg b du f t st) <> Abort AFuel.
Proof. exact P_Term.eval_fuel_enough. Qed.
Print Assumptions C05_fuel_enough.

Theorem C05_quiescent : forall cfg b du h,
  wf_scopes h = true -> wf_keys h = true ->
  (forall n, c_onstack (get_node (state_after cfg b du h) n) = false) /\
  (forall d, d_state (get_dec (state_after cfg b du h) d) <> DOnStack).
Proof. exact P_Term.quiescent_state_after. Qed.
Print Assumptions C05_quiescent.

(* ---- C05, container level: the cycle checker accepts every model trace: no
        crash or divergence; a Provide closing a cycle in the view of the target
        or of any descendant scope is rejected (non-deferred) and otherwise
        accepted; whenever a cycle is reported (Provide, the static check of
        Invoke, or the run-time guard) even the most permissive graph is cyclic ---- *)
Theorem C05_holds : forall cfg b du h,
  wf_scopes h = true -> wf_keys h = true -> P_Once.wf_fns h = true ->
  chk_C05 cfg h (map obs_of (run cfg b du h)) = [].
Proof. exact P_C05.chk_C05_ok. Qed.
Print Assumptions C05_holds.

Theorem C05_views_are_the_graph_holders : forall st r a, RegRel st r -> GN st ->
  (cyclic (scope_graph st a) <-> cyclic (view_graph r a (r_ctors r))).
Proof. exact P_C05.contraction. Qed.
Print Assumptions C05_views_are_the_graph_holders.
