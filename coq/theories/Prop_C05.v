(* Prop_C05.v — property theorems for C05, and nothing else: each statement is closed
   by `exact <lemma>` and followed by Print Assumptions. *)
From Dig Require Import Base Sig State Graph GraphProofs Register Resolve Run Spec Check
  ErrTable Err ErrTableCheck P_Frame.

(* ---- C05: the cycle detector decides cyclicity and returns real cycles;
        non-deferred containers never hold a cyclic scope graph ---- *)
Theorem C05_detector_decides : forall g, wf_graph g = true ->
  (exists p, is_acyclic g = Some (false, p) /\ closed_path g p) \/
  (is_acyclic g = Some (true, []) /\ ~ cyclic g).
Proof. exact dfs_decides. Qed.
Print Assumptions C05_detector_decides.

Theorem C05_reachable_acyclic : forall cfg b du h a, wf_scopes h = true -> cfg_defer cfg = false ->
  ~ cyclic (scope_graph (state_after cfg b du h) a).
Proof. exact P_Frame.reachable_acyclic. Qed.
Print Assumptions C05_reachable_acyclic.
