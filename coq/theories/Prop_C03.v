(* Prop_C03.v — property theorems for C03, and nothing else: each statement is closed
   by `exact <lemma>` and followed by Print Assumptions. *)
From Dig Require Import Base Sig State Graph GraphProofs Register Resolve Run Spec Check
  ErrTable Err ErrTableCheck P_Events.

(* ---- C03: registration, Scope and malformed calls never run user code ---- *)
Theorem C03_registration_silent_partial : forall cfg b du h i o ob,
  nth_error h i = Some o -> nth_error (run cfg b du h) i = Some ob ->
  (forall s p, o <> OInvoke s p) -> so_events ob = [].
Proof. exact P_Events.C03_registration_silent. Qed.
Print Assumptions C03_registration_silent_partial.
