(* Prop_C03.v — property theorems for C03, and nothing else: each statement is closed
   by `exact <lemma>` and followed by Print Assumptions. *)
From Dig Require Import Base Sig State Graph GraphProofs Register Resolve Run Spec Check
  ErrTable Err ErrTableCheck P_Events P_Frame P_Term P_Reg P_C03 GoTypes Parse RunRaw P_Glue.

(* ---- C03: registration, Scope and malformed calls never run user code ---- *)
Theorem C03_registration_silent_partial : forall cfg b du h i o ob,
  nth_error h i = Some o -> nth_error (run cfg b du h) i = Some ob ->
  (forall s p, o <> OInvoke s p) -> so_events ob = [].
Proof. exact P_Events.C03_registration_silent. Qed.
Print Assumptions C03_registration_silent_partial.

(* ---- C03: the laziness checker accepts every model trace: registrations run
        nothing, an Invoke runs only functions in the closure of its parameters,
        every argument comes from an execution that completed earlier.
        wf_gleaves / hist_kinds_ok / wf_keys: the key-kind conventions every
        parsed signature satisfies ---- *)
Theorem C03_holds : forall cfg b du h,
  wf_scopes h = true -> P_Once.wf_fns h = true -> wf_keys h = true ->
  hist_kinds_ok h = true -> wf_gleaves h = true ->
  chk_C03 h (map obs_of (run cfg b du h)) = [].
Proof. exact P_C03.chk_C03_ok. Qed.
Print Assumptions C03_holds.

(* ---- the same for every history dig's own parser produces: `raw_only rh` says that
        each operation of rh is a Scope call or a Provide / Decorate / Invoke of an
        arbitrary Go value of the grammar (GoTypes) with arbitrary options;
        `lower_op` parses it (Parse / RunRaw).  No well-formedness premise on keys
        is left: the parser establishes it (P_Glue.lowered_wf) ---- *)
Theorem C03_holds_raw : forall cfg b du rh, raw_only rh ->
  wf_scopes (map lower_op rh) = true -> P_Once.wf_fns (map lower_op rh) = true ->
  chk_C03 (map lower_op rh) (map obs_of (run cfg b du (map lower_op rh))) = [].
Proof. exact P_Glue.C03_raw. Qed.
Print Assumptions C03_holds_raw.
