(* EvalInd.v — the induction principle for the fuelled evaluator and the basic
   structure lemmas every proof about [eval] and [run] starts from. *)
From Dig Require Import Base Sig State Graph Register Resolve Run.

(* To prove P of every result of [eval], prove it of the out-of-fuel result and
   show that one unfolding of [evalF] preserves it for an arbitrary [rec]
   satisfying P. *)
Theorem eval_ind (cfg : config) (b : beh) (du : dur) (P : task -> state -> out -> Prop) :
  (forall t st, P t st (Abort AFuel, st)) ->
  (forall rec, (forall t st, P t st (rec t st)) -> forall t st, P t st (evalF cfg b du rec t st)) ->
  forall fuel t st, P t st (eval cfg b du fuel t st).
Proof.
  intros Hfuel Hstep fuel.
  induction fuel as [|f IH]; intros t st; cbn [eval].
  - apply Hfuel.
  - apply Hstep. exact IH.
Qed.

(* run_from unfolds one operation at a time *)
Lemma run_from_cons cfg b du st o h :
  run_from cfg b du st (o :: h) =
  (mkObs (fst (step cfg b du st o)) (new_events (st_log st) (st_log (snd (step cfg b du st o))))
     :: fst (run_from cfg b du (snd (step cfg b du st o)) h),
   snd (run_from cfg b du (snd (step cfg b du st o)) h)).
Proof. reflexivity. Qed.

Lemma run_from_length cfg b du h : forall st, length (fst (run_from cfg b du st h)) = length h.
Proof.
  induction h as [|o h IH]; intros st; [reflexivity|].
  rewrite run_from_cons. cbn [fst length]. now rewrite IH.
Qed.
