(* Sig.v — parsed signatures of user functions as dig sees them after
   newParamList / newResultList: keys, parameter and result trees, their
   flattening (declaration order = DotParam/DotResult order) and the order in
   which paramObject.Build builds the leaves.  Definitions only. *)
From Dig Require Import Base.

Definition ty := nat.      (* abstract Go type id; for group keys: the ELEMENT type *)
Definition name := nat.    (* 0 = "" *)
Definition gname := nat.   (* 0 = "" *)
Definition fnid := nat.    (* identity of a user function value *)
Definition sid := nat.     (* scope id; 0 = root *)
Definition nid := nat.     (* constructor node id *)
Definition did := nat.     (* decorator node id *)

(* container.go:39 — the Go triple, not a sum type *)
Record key := mkKey { k_ty : ty; k_name : name; k_group : gname }.

Definition key_eqb (a b : key) : bool :=
  Nat.eqb (k_ty a) (k_ty b) && Nat.eqb (k_name a) (k_name b) && Nat.eqb (k_group a) (k_group b).

Definition KV (t : ty) (n : name) : key := mkKey t n 0.
Definition KG (t : ty) (g : gname) : key := mkKey t 0 g.

(* ---------- parameters ---------- *)

Inductive param :=
| PSingle (k : key) (opt : bool)
| PGroup (k : key) (soft : bool)
| PObj (fs : list param).

Inductive pleaf :=
| LSingle (k : key) (opt : bool)
| LGroup (k : key) (soft : bool).

(* declaration order: paramList.DotParam / getParamOrder / findMissingDependencies *)
Fixpoint decl_leaves (p : param) : list pleaf :=
  match p with
  | PSingle k o => [LSingle k o]
  | PGroup k s => [LGroup k s]
  | PObj fs => (fix go (l : list param) : list pleaf :=
                  match l with [] => [] | x :: t => decl_leaves x ++ go t end) fs
  end.

Fixpoint decl_leaves_list (ps : list param) : list pleaf :=
  match ps with [] => [] | p :: t => decl_leaves p ++ decl_leaves_list t end.

Definition nleaves (p : param) : nat := length (decl_leaves p).

Definition is_soft_group (p : param) : bool :=
  match p with PGroup _ true => true | _ => false end.

(* paramObject.Build (param.go:397-420): the fields of ONE object are built
   in declaration order except that its own soft groups come last.  The
   result lists declaration indices (leaves numbered from [off]). *)
Fixpoint build_order (off : nat) (p : param) : list nat :=
  match p with
  | PSingle _ _ => [off]
  | PGroup _ _ => [off]
  | PObj fs =>
      let r := (fix go (off : nat) (l : list param) : list nat * list nat :=
                  match l with
                  | [] => ([], [])
                  | f :: t =>
                      let r := go (off + nleaves f) t in
                      if is_soft_group f then (fst r, off :: snd r)
                      else (build_order off f ++ fst r, snd r)
                  end) off fs in
      fst r ++ snd r
  end.

(* paramList.BuildList: top-level parameters strictly left to right *)
Fixpoint build_order_list (off : nat) (ps : list param) : list nat :=
  match ps with
  | [] => []
  | p :: t => build_order off p ++ build_order_list (off + nleaves p) t
  end.

(* ---------- results ---------- *)

Inductive result :=
| RSingle (k : key) (as_ : list key)          (* k = primary key (already As-rewritten), as_ = the other As keys *)
| RGroup (k : key) (flat : bool) (as_ : list key)
| RObj (fs : list result).

Inductive rleaf :=
| QSingle (ks : list key)
| QGroup (ks : list key) (flat : bool).

Fixpoint decl_rleaves (r : result) : list rleaf :=
  match r with
  | RSingle k a => [QSingle (k :: a)]
  | RGroup k f a => [QGroup (k :: a) f]
  | RObj fs => (fix go (l : list result) : list rleaf :=
                  match l with [] => [] | x :: t => decl_rleaves x ++ go t end) fs
  end.

Fixpoint decl_rleaves_list (rs : list result) : list rleaf :=
  match rs with [] => [] | r :: t => decl_rleaves r ++ decl_rleaves_list t end.

Record fsig := mkSig {
  fs_params : list param;
  fs_results : list result;
  fs_err : bool                 (* has an `error` result *)
}.

Definition sig_leaves (s : fsig) : list pleaf := decl_leaves_list (fs_params s).
Definition sig_order (s : fsig) : list nat := build_order_list 0 (fs_params s).
Definition sig_rleaves (s : fsig) : list rleaf := decl_rleaves_list (fs_results s).

Definition dummy_leaf : pleaf := LSingle (KV 0 0) false.

(* the leaves in the order they are built *)
Definition sig_build_seq (s : fsig) : list pleaf :=
  map (fun i => nth i (sig_leaves s) dummy_leaf) (sig_order s).

Definition rleaf_keys (r : rleaf) : list key :=
  match r with QSingle ks => ks | QGroup ks _ => ks end.

Definition rleaf_is_single (r : rleaf) : bool :=
  match r with QSingle _ => true | _ => false end.

(* all keys a constructor's results are registered under, declaration order *)
Definition sig_keys (s : fsig) : list key := flat_map rleaf_keys (sig_rleaves s).

Definition pleaf_key (l : pleaf) : key :=
  match l with LSingle k _ => k | LGroup k _ => k end.
