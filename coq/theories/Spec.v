(* Spec.v — the declarative side: what a container SHOULD deliver, defined on
   the registration history only (which constructors / decorators were
   accepted where, the scope tree) and on the log of executions so far.  No
   caches, no flags, no graph-node lists.  Definitions only. *)
From Dig Require Import Base Sig State Graph Register Resolve Run.

Record sctor := mkSCtor { sc_fn : fnid; sc_sig : fsig; sc_home : sid; sc_orig : sid }.
Record sdec := mkSDec { sd_fn : fnid; sd_sig : fsig; sd_home : sid }.

Record registry := mkReg {
  r_parents : list (option sid);     (* scope tree: parent of each scope, root first *)
  r_ctors : list sctor;              (* accepted constructors, in order of acceptance *)
  r_decs : list sdec                 (* accepted decorators *)
}.

Definition reg0 : registry := mkReg [None] [] [].

(* the effect of an operation on the registry, given whether it was accepted *)
Definition reg_step (r : registry) (o : op) (accepted : bool) : registry :=
  match o with
  | OScope p => mkReg (r_parents r ++ [Some p]) (r_ctors r) (r_decs r)
  | OProvide s p =>
      if accepted then
        mkReg (r_parents r)
              (r_ctors r ++ [mkSCtor (pi_fn p) (pi_sig p) (if pi_export p then 0 else s) s])
              (r_decs r)
      else r
  | ODecorate s p =>
      if accepted then mkReg (r_parents r) (r_ctors r) (r_decs r ++ [mkSDec (di_fn p) (di_sig p) s]) else r
  | OInvoke _ _ => r
  | OBad _ _ _ => r
  end.

(* ---------- visibility ---------- *)

Fixpoint spath_fuel (fuel : nat) (r : registry) (s : sid) : list sid :=
  match fuel with
  | 0 => []
  | S f => s :: match nth s (r_parents r) None with
                | None => []
                | Some p => spath_fuel f r p
                end
  end.
(* s, parent s, ..., root *)
Definition spath (r : registry) (s : sid) : list sid := spath_fuel (length (r_parents r)) r s.

(* b is s or an ancestor of s *)
Definition encloses (r : registry) (b s : sid) : bool := memb Nat.eqb b (spath r s).

(* the two scopes lie on one root-to-leaf line *)
Definition comparable (r : registry) (a b : sid) : bool := encloses r a b || encloses r b a.

Definition single_keys (sg : fsig) : list key :=
  flat_map (fun q => match q with QSingle ks => ks | QGroup _ _ => [] end) (sig_rleaves sg).
Definition group_keys (sg : fsig) : list key :=
  flat_map (fun q => match q with QGroup ks _ => ks | QSingle _ => [] end) (sig_rleaves sg).

Definition provides_single (c : sctor) (k : key) : bool := memb key_eqb k (single_keys (sc_sig c)).
Definition feeds_group (c : sctor) (k : key) : bool := memb key_eqb k (group_keys (sc_sig c)).
Definition decorates (d : sdec) (k : key) : bool := memb key_eqb k (dec_keys (sd_sig d)).

(* constructors registered in scope b that provide the single key k *)
Definition providers_in (r : registry) (b : sid) (k : key) : list sctor :=
  filter (fun c => Nat.eqb (sc_home c) b && provides_single c k) (r_ctors r).

(* the provider a consumer in scope s must use: nearest enclosing scope wins *)
Definition nearest_provider (r : registry) (s : sid) (k : key) : option sctor :=
  find_map (fun b => hd_error (providers_in r b k)) (spath r s).

(* decorators of k in the enclosing scopes, nearest first, other than [self] *)
Definition decorators_on_path (r : registry) (s : sid) (k : key) (self : option fnid) : list sdec :=
  flat_map (fun b => filter (fun d => Nat.eqb (sd_home d) b && decorates d k &&
                                      negb (option_eqb Nat.eqb (Some (sd_fn d)) self)) (r_decs r))
           (spath r s).

(* every constructor feeding group k that is visible from s *)
Definition feeders (r : registry) (s : sid) (k : key) : list sctor :=
  filter (fun c => encloses r (sc_home c) s && feeds_group c k) (r_ctors r).

(* ---------- the log of executions ---------- *)

Record lentry := mkLE { le_fn : fnid; le_exec : nat; le_ok : bool }.

Definition log_of_event (ev : event) : list lentry :=
  match ev with
  | EExec f e _ _ (OOk _) => [mkLE f e true]
  | EExec f e _ _ _ => [mkLE f e false]
  | ECallback _ _ _ => []
  end.

(* the execution index of the successful execution of f, if it has one *)
Definition succ_of (log : list lentry) (f : fnid) : option nat :=
  find_map (fun l => if Nat.eqb (le_fn l) f && le_ok l then Some (le_exec l) else None) log.

Definition execs_of (log : list lentry) (f : fnid) : nat :=
  count_occ_b (fun l => Nat.eqb (le_fn l) f) log.

(* ---------- what a successful execution contributes ---------- *)

Definition lens_of (b : list (fnid * list outcome)) (f : fnid) (e : nat) : list nat :=
  match nth e (alookup_list Nat.eqb f b) (OOk []) with
  | OOk l => l
  | _ => []
  end.

(* slot of the result leaf providing single key k *)
Fixpoint slot_of_single (k : key) (slot : nat) (rs : list rleaf) : option nat :=
  match rs with
  | [] => None
  | QSingle ks :: t => if memb key_eqb k ks then Some slot else slot_of_single k (S slot) t
  | QGroup _ _ :: t => slot_of_single k (S slot) t
  end.

(* the members a successful execution (f,e) contributes to group k *)
Fixpoint group_members (k : key) (f : fnid) (e : nat) (lens : list nat) (slot : nat) (rs : list rleaf) : list atom :=
  match rs with
  | [] => []
  | QGroup ks false :: t =>
      (if memb key_eqb k ks then [AProd f e slot 0] else []) ++ group_members k f e lens (S slot) t
  | QGroup ks true :: t =>
      (if memb key_eqb k ks then prod_atoms f e slot (nth_len lens slot) else []) ++
      group_members k f e lens (S slot) t
  | QSingle _ :: t => group_members k f e lens (S slot) t
  end.

(* slot in which decorator signature [sg] returns key k *)
Fixpoint dec_slot (k : key) (slot : nat) (rs : list rleaf) : option nat :=
  match rs with
  | [] => None
  | QSingle (k' :: _) :: t => if key_eqb k k' then Some slot else dec_slot k (S slot) t
  | QGroup (k' :: _) _ :: t => if key_eqb k k' then Some slot else dec_slot k (S slot) t
  | _ :: t => dec_slot k (S slot) t
  end.

(* ---------- availability (C04) ---------- *)

(* least fixed point, computed by iteration from the empty set: a constructor
   is available when each required single parameter has an available nearest
   provider as seen from its original scope and every visible feeder of each
   non-soft group parameter is available.  A is a set of function ids. *)
Definition leaf_avail (r : registry) (A : list fnid) (view : sid) (l : pleaf) : bool :=
  match l with
  | LSingle k true => true
  | LSingle k false =>
      match nearest_provider r view k with
      | Some c => memb Nat.eqb (sc_fn c) A
      | None => false
      end
  | LGroup k true => true
  | LGroup k false => forallb (fun c => memb Nat.eqb (sc_fn c) A) (feeders r view k)
  end.

(* [built]: functions that have already run successfully; their values are
   cached, so they are available whatever the registry says now *)
Definition avail_step (r : registry) (built : list fnid) (A : list fnid) : list fnid :=
  map sc_fn (filter (fun c => memb Nat.eqb (sc_fn c) built ||
                              forallb (leaf_avail r A (sc_orig c)) (sig_leaves (sc_sig c))) (r_ctors r)).

Fixpoint avail_iter (n : nat) (r : registry) (built : list fnid) (A : list fnid) : list fnid :=
  match n with
  | 0 => A
  | S m => avail_iter m r built (avail_step r built A)
  end.

(* the available constructors (n+1 rounds reach the fixed point of a monotone
   operator on subsets of n constructors) *)
Definition avail_set (r : registry) (built : list fnid) : list fnid :=
  avail_iter (S (length (r_ctors r))) r built [].

Definition avail_ctor (r : registry) (built : list fnid) (c : sctor) : bool :=
  memb Nat.eqb (sc_fn c) (avail_set r built).

Definition avail_leaf (r : registry) (built : list fnid) (s : sid) (l : pleaf) : bool :=
  leaf_avail r (avail_set r built) s l.

(* ---------- dependency graphs (C05) ---------- *)

Inductive vertex := VC (c : sctor) | VD (d : sdec).

Definition vertex_leaves (v : vertex) : list pleaf :=
  match v with VC c => sig_leaves (sc_sig c) | VD d => sig_leaves (sd_sig d) end.
Definition vertex_home (v : vertex) : sid :=
  match v with VC c => sc_home c | VD d => sd_home d end.
Definition vertex_fn (v : vertex) : fnid :=
  match v with VC c => sc_fn c | VD d => sd_fn d end.

Definition vertex_offers (v : vertex) (k : key) : bool :=
  match v with
  | VC c => provides_single c k || feeds_group c k
  | VD d => decorates d k
  end.

(* a decorator consuming the key it decorates does not depend on itself *)
Definition is_self_decoration (v w : vertex) : bool :=
  match v, w with
  | VD d, VD d' => Nat.eqb (sd_fn d) (sd_fn d')
  | _, _ => false
  end.

(* the most permissive reading: an edge from a consumer to every constructor
   or decorator offering one of its keys whose scope lies on one line with the
   consumer's scope *)
Definition perm_graph (r : registry) (vs : list vertex) : graph :=
  map (fun v =>
         flat_map (fun l =>
                     flat_map (fun p => let w := snd p in
                                        if vertex_offers w (pleaf_key l) &&
                                           comparable r (vertex_home v) (vertex_home w) &&
                                           negb (is_self_decoration v w)
                                        then [fst p] else [])
                              (combine (seq 0 (length vs)) vs))
                  (vertex_leaves v)) vs.

Definition all_vertices (r : registry) : list vertex :=
  map VC (r_ctors r) ++ map VD (r_decs r).

Definition acyclicb (g : graph) : bool :=
  match is_acyclic g with Some (true, _) => true | _ => false end.

(* the graph one scope [a] sees: constructors registered in enclosing scopes,
   each consuming from the providers / feeders in enclosing scopes of a *)
Definition view_graph (r : registry) (a : sid) (cs : list sctor) : graph :=
  let vis := filter (fun c => encloses r (sc_home c) a) cs in
  map (fun c =>
         flat_map (fun l =>
                     flat_map (fun p => let c' := snd p in
                                        if (provides_single c' (pleaf_key l) || feeds_group c' (pleaf_key l))
                                        then [fst p] else [])
                              (combine (seq 0 (length vis)) vis))
                  (sig_leaves (sc_sig c))) vis.

(* scopes of the subtree rooted at s *)
Definition subtree_of (r : registry) (s : sid) : list sid :=
  filter (fun a => encloses r s a) (seq 0 (length (r_parents r))).
