(* P_Keys.v — the registration rules (C09 duplicates, C12 decorators) and the
   error classification (C13) hold on every run of the model.

   Part A  [chk_keys_op] never fires
     A1  the duplicate check of [provide] computes [spec_dup]        ([dup_check_spec_dup])
     A2  the verdict of [provide], case by case                      ([provide_verdict], [provide_dup_iff],
                                                                      [provide_noresults_iff], [provide_keys_op])
     A3  the verdict of [decorate]                                   ([decorate_err_iff], [decorate_keys_op])
     A4  runs                                                        ([keys_rules_ok])
     A5  with no hypothesis on key kinds only code 902 can fire      ([spec_dup_detected], [keys_rules_only_902])
   Part B  [chk_C13] never fires
     B1  observation-level predicates = error-level predicates       ([rkind_is_dig_of], [has_viz_kind_of], ...)
     B2  code 1305: the invoked function's own error is unwrapped    ([eval_user_root_registered], [invoke_own_error])
     B3  runs                                                        ([chk_C13_ok], [chk_C13_model])
     B4  the two panic clauses at run level                          ([panic_recovered], [panic_not_recovered])
   Examples by vm_compute at the end, including the counterexample showing
   that [P_Term.wf_keys] alone (which says nothing about the group component
   of SINGLE result keys) does not suffice for code 902: the hypothesis used
   is [P_Reg.hist_kinds_ok]. *)
From Dig Require Import Base Sig State Graph GraphProofs Register Resolve Run EvalInd Spec Check
  ErrTable Err ErrTableCheck Check13.
From Dig Require P_Events P_Once P_Term.
From Dig Require Import P_Frame P_Reg.
From Coq Require Import List Arith Bool NArith Lia PeanoNat.
Import ListNotations.
Open Scope list_scope.

(* ===================================================================== *)
(* Part A : registration rules                                            *)
(* ===================================================================== *)

(* ---------- A1 : dup_check = spec_dup ---------- *)

Definition singles (rs : list rleaf) : list key :=
  flat_map (fun q => match q with QSingle ks => ks | QGroup _ _ => [] end) rs.

Definition rs_kinds_ok (rs : list rleaf) : bool :=
  forallb (fun q => match q with
                    | QSingle ks => forallb (fun k => Nat.eqb (k_group k) 0) ks
                    | QGroup ks _ => forallb (fun k => negb (Nat.eqb (k_group k) 0)) ks
                    end) rs.

Lemma single_keys_singles sg : single_keys sg = singles (sig_rleaves sg).
Proof. reflexivity. Qed.

Lemma sig_kinds_rs sg : sig_kinds_ok sg = rs_kinds_ok (sig_rleaves sg).
Proof. reflexivity. Qed.

Lemma key_eqb_group k k' : key_eqb k k' = true -> k_group k = k_group k'.
Proof.
  unfold key_eqb. intros H. apply andb_true_iff in H as [_ H]. apply Nat.eqb_eq. exact H.
Qed.

Lemma memb_other_group k ks :
  k_group k = 0 -> forallb (fun k => negb (Nat.eqb (k_group k) 0)) ks = true ->
  memb key_eqb k ks = false.
Proof.
  intros Hk H. induction ks as [|k0 t IH]; [reflexivity|].
  cbn [forallb] in H. apply andb_true_iff in H as [H0 Ht]. cbn [memb].
  rewrite (IH Ht), orb_false_r.
  destruct (key_eqb k k0) eqn:E; [|reflexivity].
  apply key_eqb_group in E. rewrite <- E, Hk in H0. discriminate H0.
Qed.

Lemma has_dup_key_app a : forall ss b,
  has_dup_key ss (a ++ b) = has_dup_key ss a || has_dup_key (rev a ++ ss) b.
Proof.
  induction a as [|k t IH]; intros ss b; [reflexivity|].
  cbn [app has_dup_key rev]. rewrite IH, <- app_assoc. cbn [app].
  rewrite orb_assoc. reflexivity.
Qed.

Section Dup.
  Variable provs : list (key * list nid).

  Definition taken (k : key) : bool := negb (is_nil (alookup_list key_eqb k provs)).

  (* the visitor's [seen] and the specification's [seen] agree on single keys *)
  Definition agree (seen ss : list key) : Prop :=
    forall k, k_group k = 0 -> memb key_eqb k seen = memb key_eqb k ss.

  Lemma agree_cons k seen ss : agree seen ss -> agree (k :: seen) (k :: ss).
  Proof. intros H k' Hk'. cbn [memb]. rewrite (H k' Hk'). reflexivity. Qed.

  Lemma dup_in_keys_spec : forall ks seen ss,
    agree seen ss -> forallb (fun k => Nat.eqb (k_group k) 0) ks = true ->
    fst (dup_in_keys provs seen ks) = has_dup_key ss ks || existsb taken ks /\
    (fst (dup_in_keys provs seen ks) = false ->
     agree (snd (dup_in_keys provs seen ks)) (rev ks ++ ss)).
  Proof.
    induction ks as [|k t IH]; intros seen ss Ha Hk.
    - split; [reflexivity|]. intros _. exact Ha.
    - cbn [forallb] in Hk. apply andb_true_iff in Hk as [Hk0 Hkt]. apply Nat.eqb_eq in Hk0.
      cbn [dup_in_keys has_dup_key existsb rev]. fold (taken k).
      rewrite (Ha k Hk0).
      destruct (memb key_eqb k ss) eqn:Em; cbn [orb fst snd].
      + split; [reflexivity|discriminate].
      + destruct (taken k) eqn:Et; cbn [orb fst snd].
        * split; [rewrite orb_true_r; reflexivity|discriminate].
        * destruct (IH (k :: seen) (k :: ss) (agree_cons k _ _ Ha) Hkt) as [H1 H2].
          split; [exact H1|]. rewrite <- app_assoc. exact H2.
  Qed.

  Lemma dup_check_spec : forall rs seen ss,
    agree seen ss -> rs_kinds_ok rs = true ->
    dup_check provs seen rs = has_dup_key ss (singles rs) || existsb taken (singles rs).
  Proof.
    induction rs as [|[ks|ks fl] t IH]; intros seen ss Ha Hk; [reflexivity| |].
    - cbn [rs_kinds_ok forallb] in Hk. apply andb_true_iff in Hk as [Hk0 Hkt].
      cbn [dup_check singles flat_map]. fold (singles t).
      rewrite has_dup_key_app, existsb_app.
      destruct (dup_in_keys_spec ks seen ss Ha Hk0) as [H1 H2].
      destruct (fst (dup_in_keys provs seen ks)) eqn:Ef.
      + symmetry in H1. apply orb_true_iff in H1 as [H1|H1]; rewrite H1; cbn [orb];
          rewrite ?orb_true_r; reflexivity.
      + symmetry in H1. apply orb_false_iff in H1 as [H1a H1b]. rewrite H1a, H1b. cbn [orb].
        apply IH; [apply H2; reflexivity|exact Hkt].
    - cbn [rs_kinds_ok forallb] in Hk. apply andb_true_iff in Hk as [Hk0 Hkt].
      cbn [dup_check singles flat_map app]. fold (singles t).
      apply IH; [|exact Hkt].
      intros k Hk. rewrite memb_key_app, (memb_other_group k ks Hk Hk0). cbn [orb]. apply Ha. exact Hk.
  Qed.
End Dup.

Lemma singles_group0 rs k : rs_kinds_ok rs = true -> In k (singles rs) -> k_group k = 0.
Proof.
  intros H Hin. unfold singles in Hin. apply in_flat_map in Hin as (q & Hq & Hk).
  unfold rs_kinds_ok in H. rewrite forallb_forall in H. specialize (H q Hq).
  destruct q as [ks|ks fl]; [|destruct Hk].
  rewrite forallb_forall in H. apply Nat.eqb_eq. apply H. exact Hk.
Qed.

Lemma existsb_ext_In {A} (f g : A -> bool) l :
  (forall x, In x l -> f x = g x) -> existsb f l = existsb g l.
Proof.
  induction l as [|x t IH]; intros H; [reflexivity|]. cbn [existsb].
  rewrite (H x (or_introl eq_refl)), IH; [reflexivity|]. intros y Hy. apply H. right. exact Hy.
Qed.

Lemma is_nil_map {A B} (f : A -> B) l : is_nil (map f l) = is_nil l.
Proof. destruct l; reflexivity. Qed.

(* the provider table of the target scope is empty under a single key exactly
   when no accepted constructor of that scope provides it as a single value *)
Lemma taken_providers_in st r b k :
  RegRel st r -> single_only r k ->
  taken (s_providers (get_scope st b)) k = negb (is_nil (providers_in r b k)).
Proof.
  intros HR Hs. unfold taken. f_equal.
  rewrite (providers_in_offers r b k Hs).
  change (filter (sctor_offers b k) (r_ctors r))
    with (filter (fun c => Nat.eqb (sc_home c) b && memb key_eqb k (sig_keys (sc_sig c))) (r_ctors r)).
  rewrite <- (RegRel_providers_map st r b k HR). rewrite is_nil_map. reflexivity.
Qed.

(* connectionVisitor's duplicate check is the declarative one *)
Theorem dup_check_spec_dup st r b sg :
  RegRel st r -> reg_kinds_ok r -> sig_kinds_ok sg = true ->
  dup_check (s_providers (get_scope st b)) [] (sig_rleaves sg) = spec_dup r b sg.
Proof.
  intros HR Hr Hsg. rewrite sig_kinds_rs in Hsg.
  rewrite (dup_check_spec (s_providers (get_scope st b)) (sig_rleaves sg) [] []);
    [|intros k _; reflexivity|exact Hsg].
  unfold spec_dup. rewrite single_keys_singles. f_equal.
  apply existsb_ext_In.
  intros k Hk. apply taken_providers_in; [exact HR|].
  apply reg_kinds_single_only; [exact Hr|]. eapply singles_group0; eauto.
Qed.
Print Assumptions dup_check_spec_dup.

(* ---------- A2 : the verdict of Provide ---------- *)

Lemma is_nil_dedup_first (l : list key) : is_nil (dedup_first key_eqb l) = is_nil l.
Proof. destruct l; reflexivity. Qed.

Lemma is_nil_true {A} (l : list A) : is_nil l = true <-> l = [].
Proof. destruct l; split; intros H; try reflexivity; discriminate H. Qed.

Lemma verify_loop_never_fails d A : forall st e st', verify_loop d A st <> (Fail e, st').
Proof.
  intros st e st' H. pose proof (P_Once.verify_loop_spec d A st) as (_ & _ & V).
  rewrite H in V. exact V.
Qed.

(* every verdict of Provide, decided by the duplicate check on the provider
   table of the target scope AS IT WAS BEFORE the call, then by the key list *)
Theorem provide_verdict cfg st s0 p :
  let s := if pi_export p then 0 else s0 in
  let dup := dup_check (s_providers (get_scope st s)) [] (sig_rleaves (pi_sig p)) in
  (dup = true /\ fst (provide cfg st s0 p) = VErr err_dup) \/
  (dup = false /\ sig_keys (pi_sig p) = [] /\ fst (provide cfg st s0 p) = VErr err_noresults) \/
  (dup = false /\ sig_keys (pi_sig p) <> [] /\
   (fst (provide cfg st s0 p) = VOk \/ fst (provide cfg st s0 p) = VErr err_provide_cycle)).
Proof.
  cbv zeta.
  destruct (provide cfg st s0 p) as [v st'] eqn:EP. pose proof EP as EP0. cbn [fst].
  unfold provide in EP.
  set (s := if pi_export p then 0 else s0) in *.
  set (A := subtree st s) in *.
  set (snap := snapshot st A) in *.
  set (node := mkCNode (pi_fn p) (pi_sig p) s s0 false false (pi_cb p)) in *.
  set (st1 := set_nodes st (st_nodes st ++ [node])) in *.
  set (gs := group_grefs (length (st_nodes st)) 0 (sig_leaves (pi_sig p)) ++ [GCtor (length (st_nodes st))]) in *.
  set (st2 := fold_left (append_gnodes gs) A st1) in *.
  destruct (P_Once.sfr_append_gnodes gs A st1) as [[_ S2] _]. fold st2 in S2.
  assert (E : s_providers (get_scope st2 s) = s_providers (get_scope st s)) by (rewrite S2; reflexivity).
  rewrite E in EP.
  destruct (dup_check (s_providers (get_scope st s)) [] (sig_rleaves (pi_sig p))).
  { left. split; [reflexivity|]. inversion EP. reflexivity. }
  right. rewrite is_nil_dedup_first in EP.
  destruct (is_nil (sig_keys (pi_sig p))) eqn:En.
  { left. split; [reflexivity|]. split; [apply is_nil_true; exact En|]. inversion EP. reflexivity. }
  right. split; [reflexivity|]. split.
  { intros H. apply is_nil_true in H. rewrite H in En. discriminate En. }
  match type of EP with context [verify_loop ?d ?a ?x] =>
    destruct (verify_loop d a x) as [[[o|]|e|a'] st4] eqn:Ev end.
  - right. inversion EP. reflexivity.
  - left. inversion EP. reflexivity.
  - exfalso. eapply verify_loop_never_fails; eauto.
  - exfalso. inversion EP; subst v st'. eapply provide_never_aborts; eauto.
Qed.
Print Assumptions provide_verdict.

Lemma err_dup_neq_noresults : err_dup <> err_noresults.
Proof. discriminate. Qed.
Lemma err_dup_neq_cycle : err_dup <> err_provide_cycle.
Proof. discriminate. Qed.
Lemma err_noresults_neq_cycle : err_noresults <> err_provide_cycle.
Proof. discriminate. Qed.

Section ProvideRules.
  Variables (cfg : config) (st : state) (r : registry) (s : sid) (p : provide_in).
  Hypothesis HR : RegRel st r.
  Hypothesis Hr : reg_kinds_ok r.
  Hypothesis Hp : sig_kinds_ok (pi_sig p) = true.
  Local Notation target := (if pi_export p then 0 else s).

  Lemma provide_verdict_spec :
    (spec_dup r target (pi_sig p) = true /\ fst (provide cfg st s p) = VErr err_dup) \/
    (spec_dup r target (pi_sig p) = false /\ sig_keys (pi_sig p) = [] /\
     fst (provide cfg st s p) = VErr err_noresults) \/
    (spec_dup r target (pi_sig p) = false /\ sig_keys (pi_sig p) <> [] /\
     (fst (provide cfg st s p) = VOk \/ fst (provide cfg st s p) = VErr err_provide_cycle)).
  Proof.
    pose proof (dup_check_spec_dup st r target (pi_sig p) HR Hr Hp) as Hs.
    destruct (provide_verdict cfg st s p) as [[D V]|[(D & K & V)|(D & K & V)]].
    - left. split; [rewrite <- Hs; exact D|exact V].
    - right; left. split; [rewrite <- Hs; exact D|]. split; assumption.
    - right; right. split; [rewrite <- Hs; exact D|]. split; assumption.
  Qed.

  (* A.1: rejected as a duplicate exactly when the specification says so *)
  Theorem provide_dup_iff :
    fst (provide cfg st s p) = VErr err_dup <-> spec_dup r target (pi_sig p) = true.
  Proof.
    destruct provide_verdict_spec as [[D V]|[(D & K & V)|(D & K & [V|V])]];
      rewrite D, V; split; intros H; try reflexivity; try discriminate H.
  Qed.

  (* A.2: otherwise rejected for having no results exactly when there are no keys ... *)
  Theorem provide_noresults_iff :
    spec_dup r target (pi_sig p) = false ->
    (fst (provide cfg st s p) = VErr err_noresults <-> sig_keys (pi_sig p) = []).
  Proof.
    destruct provide_verdict_spec as [[D V]|[(D & K & V)|(D & K & [V|V])]];
      rewrite D, V; intros Hd; try discriminate Hd; split; intros H; try reflexivity; try assumption;
      try discriminate H; try (exfalso; exact (K H)).
  Qed.

  (* ... and otherwise accepted or rejected for a cycle (never as a duplicate) *)
  Theorem provide_other_cases :
    spec_dup r target (pi_sig p) = false -> sig_keys (pi_sig p) <> [] ->
    fst (provide cfg st s p) = VOk \/ fst (provide cfg st s p) = VErr err_provide_cycle.
  Proof.
    destruct provide_verdict_spec as [[D V]|[(D & K & V)|(D & K & V)]];
      rewrite D; intros Hd Hk; try discriminate Hd; [exfalso; exact (Hk K)|exact V].
  Qed.

  (* codes 901, 902, 903 *)
  Theorem provide_keys_op evs :
    chk_keys_op r (OProvide s p) (mkOObs (overdict_of (fst (provide cfg st s p))) evs) = [].
  Proof.
    change (chk_keys_op r (OProvide s p) (mkOObs (overdict_of (fst (provide cfg st s p))) evs))
      with ((if spec_dup r target (pi_sig p)
             then guardb (negb (accepted (mkOObs (overdict_of (fst (provide cfg st s p))) evs))) 901
             else guardb (negb (is_dup_verdict (overdict_of (fst (provide cfg st s p))))) 902) ++
            (if is_nil (sig_keys (pi_sig p))
             then guardb (negb (accepted (mkOObs (overdict_of (fst (provide cfg st s p))) evs))) 903
             else [])).
    destruct provide_verdict_spec as [[D V]|[(D & K & V)|(D & K & [V|V])]]; rewrite D, V.
    - unfold accepted. cbn [overdict_of oo_verdict]. destruct (is_nil _); reflexivity.
    - rewrite K. reflexivity.
    - destruct (sig_keys (pi_sig p)); [exfalso; apply K; reflexivity|reflexivity].
    - destruct (sig_keys (pi_sig p)); [exfalso; apply K; reflexivity|reflexivity].
  Qed.
End ProvideRules.
Print Assumptions provide_dup_iff.
Print Assumptions provide_noresults_iff.
Print Assumptions provide_other_cases.
Print Assumptions provide_keys_op.

(* ---------- A3 : the verdict of Decorate ---------- *)

Definition dec_conflict (r : registry) (s : sid) (sg : fsig) : bool :=
  negb (nodupb key_eqb (dec_keys sg)) ||
  existsb (fun k => existsb (fun d => Nat.eqb (sd_home d) s && decorates d k) (r_decs r)) (dec_keys sg).

Lemma decorated_reg st r s k :
  RegRel st r ->
  is_some (alookup key_eqb k (s_decorators (get_scope st s))) =
  existsb (fun d => Nat.eqb (sd_home d) s && decorates d k) (r_decs r).
Proof.
  intros HR.
  destruct (existsb (fun d => Nat.eqb (sd_home d) s && decorates d k) (r_decs r)) eqn:Ex.
  - apply existsb_exists in Ex as (d & Hd & Hc). rewrite (rr_decs HR) in Hd.
    apply In_nth with (d := sdec_of dummy_dnode) in Hd as (i & Hi & Ei). rewrite map_length in Hi.
    rewrite (map_nth sdec_of) in Ei. subst d.
    apply andb_true_iff in Hc as [Hh Hk]. apply Nat.eqb_eq in Hh.
    assert (Ha : alookup key_eqb k (s_decorators (get_scope st s)) = Some i).
    { apply (rr_decorators HR). split; [exact Hi|]. split; [exact Hh|exact Hk]. }
    rewrite Ha. reflexivity.
  - destruct (alookup key_eqb k (s_decorators (get_scope st s))) as [d|] eqn:Ea; [|reflexivity].
    exfalso. apply (rr_decorators HR) in Ea as (Hd & Hh & Hk).
    assert (Hx : existsb (fun d => Nat.eqb (sd_home d) s && decorates d k) (r_decs r) = true).
    { apply existsb_exists. exists (sdec_of (get_dec st d)). split.
      - rewrite (rr_decs HR). apply in_map. unfold get_dec. apply nth_In. exact Hd.
      - apply andb_true_iff. split; [apply Nat.eqb_eq; exact Hh|exact Hk]. }
    rewrite Hx in Ex. discriminate Ex.
Qed.

(* A.3: Decorate is rejected exactly when it returns the same key twice or one of its keys is
   already decorated in that scope *)
Theorem decorate_err_iff st r s p :
  RegRel st r ->
  fst (decorate st s p) = (if dec_conflict r s (di_sig p) then VErr err_dec_dup else VOk).
Proof.
  intros HR. unfold decorate, dec_conflict. cbv zeta.
  rewrite (existsb_ext_In _ (fun k => existsb (fun d => Nat.eqb (sd_home d) s && decorates d k) (r_decs r)))
    by (intros k _; apply decorated_reg; exact HR).
  destruct (negb _ || existsb _ (dec_keys (di_sig p))); reflexivity.
Qed.
Print Assumptions decorate_err_iff.

Corollary decorate_rejected_iff st r s p :
  RegRel st r ->
  ((exists e, fst (decorate st s p) = VErr e) <-> dec_conflict r s (di_sig p) = true).
Proof.
  intros HR. rewrite (decorate_err_iff st r s p HR).
  destruct (dec_conflict r s (di_sig p)); split; intros H; try reflexivity; try discriminate H.
  - eexists; reflexivity.
  - destruct H as [e H]. discriminate H.
Qed.

(* codes 1201, 1202 *)
Theorem decorate_keys_op st r s p evs :
  RegRel st r ->
  chk_keys_op r (ODecorate s p) (mkOObs (overdict_of (fst (decorate st s p))) evs) = [].
Proof.
  intros HR. unfold chk_keys_op. cbv zeta. rewrite (decorate_err_iff st r s p HR).
  fold (dec_conflict r s (di_sig p)). destruct (dec_conflict r s (di_sig p)); reflexivity.
Qed.
Print Assumptions decorate_keys_op.

(* ---------- A4 : runs ---------- *)

(* the invariant threaded through the walk: structure, scope ids in range,
   key kinds of the remaining history, key kinds of what has been accepted *)
Definition KH (st : state) (h : history) : Prop :=
  SInv st /\ wf_scopes_from (length (st_scopes st)) h = true /\ hist_kinds_ok h = true /\
  exists r, RegRel st r /\ reg_kinds_ok r.

Lemma hist_kinds_cons o h :
  hist_kinds_ok (o :: h) = true ->
  match o with OProvide _ p => sig_kinds_ok (pi_sig p) = true | _ => True end /\ hist_kinds_ok h = true.
Proof.
  unfold hist_kinds_ok. cbn [forallb]. intros H. apply andb_true_iff in H as [H1 H2].
  split; [|exact H2]. destruct o; try exact I. exact H1.
Qed.

Lemma KH_step cfg b du st o h : KH st (o :: h) -> KH (snd (step cfg b du st o)) h.
Proof.
  intros (HS & Hw & Hk & r & HR & Hr).
  cbn [wf_scopes_from] in Hw. apply andb_true_iff in Hw as [Hok Hw].
  apply hist_kinds_cons in Hk as [Hko Hk].
  split; [apply SInv_step; assumption|].
  split; [rewrite step_scopes_length; exact Hw|].
  split; [exact Hk|].
  exists (reg_step r o (accepted (mkOObs (overdict_of (fst (step cfg b du st o))) []))).
  split; [apply RegRel_step; assumption|].
  apply reg_kinds_step; assumption.
Qed.

Lemma reg_kinds_RegRel st r r' : RegRel st r -> RegRel st r' -> reg_kinds_ok r -> reg_kinds_ok r'.
Proof.
  intros H H' Hr c Hc. apply Hr. rewrite (rr_ctors H), <- (rr_ctors H'). exact Hc.
Qed.

(* C09 / C12, registration rules: codes 901, 902, 903, 1201, 1202 never fire *)
Theorem keys_rules_ok cfg b du h :
  wf_scopes h = true -> hist_kinds_ok h = true ->
  walk (fun r _ o ob => chk_keys_op r o ob) 0 reg0 [] h (map obs_of (run cfg b du h)) = [].
Proof.
  intros Hs Hk. apply P_Term.viols_nil. intros i c. unfold run.
  change (@nil lentry) with (log_of_events (rev (st_log init_state))).
  apply (walk_run_from_reg cfg b du KH (fun r _ o ob => chk_keys_op r o ob) (fun _ => False)).
  - intros st o h'. apply KH_step.
  - intros st o h' (HS & Hw & _). cbn [wf_scopes_from] in Hw. apply andb_true_iff in Hw as [Hok _].
    split; assumption.
  - intros st o h' r new (HS & Hw & Hk' & r0 & HR0 & Hr0) HR L c' Hc.
    apply hist_kinds_cons in Hk' as [Hko _].
    pose proof (reg_kinds_RegRel st r0 r HR0 HR Hr0) as Hr.
    destruct o as [q|s p|s p|s p|bk s f]; cbn [step] in Hc.
    + destruct Hc.
    + rewrite (provide_keys_op cfg st r s p HR Hr Hko) in Hc. destruct Hc.
    + rewrite (decorate_keys_op st r s p _ HR) in Hc. destruct Hc.
    + destruct Hc.
    + destruct Hc.
  - split; [apply SInv_init|]. split; [exact Hs|]. split; [exact Hk|].
    exists reg0. split; [apply RegRel_init|]. intros c' [].
  - apply RegRel_init.
Qed.
Print Assumptions keys_rules_ok.

(* the form with the hypothesis of P_Term added (it is not needed) *)
Corollary keys_rules_ok' cfg b du h :
  wf_scopes h = true -> P_Term.wf_keys h = true -> hist_kinds_ok h = true ->
  walk (fun r _ o ob => chk_keys_op r o ob) 0 reg0 [] h (map obs_of (run cfg b du h)) = [].
Proof. intros Hs _ Hk. apply keys_rules_ok; assumption. Qed.

(* ---------- A5 : without any hypothesis on key kinds only 902 can fire ---------- *)

Section DupSound.
  Variable provs : list (key * list nid).
  Variable taken0 : key -> bool.
  Hypothesis taken0_sound : forall k, taken0 k = true -> taken provs k = true.

  Definition sub (seen ss : list key) : Prop :=
    forall k, memb key_eqb k ss = true -> memb key_eqb k seen = true.

  Lemma dup_in_keys_sound : forall ks seen ss, sub seen ss ->
    (has_dup_key ss ks || existsb taken0 ks = true -> fst (dup_in_keys provs seen ks) = true) /\
    (fst (dup_in_keys provs seen ks) = false -> sub (snd (dup_in_keys provs seen ks)) (rev ks ++ ss)).
  Proof.
    induction ks as [|k t IH]; intros seen ss Hs.
    - split; [intros H; discriminate H|intros _; exact Hs].
    - cbn [dup_in_keys has_dup_key existsb rev]. fold (taken provs k).
      destruct (memb key_eqb k seen || taken provs k) eqn:Ec; cbn [fst snd].
      + split; [reflexivity|discriminate].
      + apply orb_false_iff in Ec as [Em Et].
        assert (Em' : memb key_eqb k ss = false).
        { destruct (memb key_eqb k ss) eqn:E; [|reflexivity]. rewrite (Hs k E) in Em. discriminate Em. }
        assert (Et' : taken0 k = false).
        { destruct (taken0 k) eqn:E; [|reflexivity]. rewrite (taken0_sound k E) in Et. discriminate Et. }
        rewrite Em', Et'. cbn [orb].
        assert (Hs' : sub (k :: seen) (k :: ss)).
        { intros k'. cbn [memb]. intros H. apply orb_true_iff in H as [H|H]; [rewrite H; reflexivity|].
          rewrite (Hs k' H). apply orb_true_r. }
        destruct (IH (k :: seen) (k :: ss) Hs') as [H1 H2].
        split; [exact H1|]. rewrite <- app_assoc. exact H2.
  Qed.

  Lemma dup_check_sound : forall rs seen ss, sub seen ss ->
    has_dup_key ss (singles rs) || existsb taken0 (singles rs) = true -> dup_check provs seen rs = true.
  Proof.
    induction rs as [|[ks|ks fl] t IH]; intros seen ss Hs H; [discriminate H| |].
    - cbn [dup_check singles flat_map] in *. fold (singles t) in H.
      rewrite has_dup_key_app, existsb_app in H.
      destruct (dup_in_keys_sound ks seen ss Hs) as [H1 H2].
      destruct (fst (dup_in_keys provs seen ks)) eqn:Ef; [reflexivity|].
      destruct (has_dup_key ss ks || existsb taken0 ks) eqn:E1; [discriminate (H1 eq_refl)|].
      apply orb_false_iff in E1 as [E1a E1b]. rewrite E1a, E1b in H. cbn [orb] in H.
      apply (IH _ (rev ks ++ ss)); [apply H2; reflexivity|exact H].
    - cbn [dup_check singles flat_map app] in *. fold (singles t) in H.
      apply (IH _ ss); [|exact H].
      intros k Hk. rewrite memb_key_app, (Hs k Hk). apply orb_true_r.
  Qed.
End DupSound.

Lemma taken_providers_in_sound st r b k :
  RegRel st r -> negb (is_nil (providers_in r b k)) = true -> taken (s_providers (get_scope st b)) k = true.
Proof.
  intros HR H. unfold taken.
  change (alookup_list key_eqb k (s_providers (get_scope st b))) with (providers_at st b k).
  destruct (providers_at st b k) as [|n ns] eqn:E; [|reflexivity]. exfalso.
  pose proof (RegRel_providers_map st r b k HR) as M. rewrite E in M. cbn [map] in M.
  destruct (providers_in r b k) as [|c cs] eqn:Ep; [discriminate H|].
  assert (Hc : In c (providers_in r b k)) by (rewrite Ep; left; reflexivity).
  unfold providers_in in Hc. apply filter_In in Hc as [Hc Hf].
  apply andb_true_iff in Hf as [Hh Hk].
  assert (Hc' : In c (filter (fun c => Nat.eqb (sc_home c) b && memb key_eqb k (sig_keys (sc_sig c))) (r_ctors r))).
  { apply filter_In. split; [exact Hc|]. rewrite Hh, memb_sig_keys. unfold provides_single in Hk.
    rewrite Hk. reflexivity. }
  rewrite <- M in Hc'. destruct Hc'.
Qed.

(* a conflict of the specification is always detected (no hypothesis on key kinds) *)
Theorem spec_dup_detected cfg st r s p :
  RegRel st r -> spec_dup r (if pi_export p then 0 else s) (pi_sig p) = true ->
  fst (provide cfg st s p) = VErr err_dup.
Proof.
  intros HR H.
  assert (D' : dup_check (s_providers (get_scope st (if pi_export p then 0 else s))) []
                         (sig_rleaves (pi_sig p)) = true).
  { unfold spec_dup in H. rewrite single_keys_singles in H.
    apply (dup_check_sound _ (fun k => negb (is_nil (providers_in r (if pi_export p then 0 else s) k)))
             (fun k => taken_providers_in_sound st r _ k HR) (sig_rleaves (pi_sig p)) [] []);
      [intros k Hk; exact Hk|exact H]. }
  destruct (provide_verdict cfg st s p) as [[D V]|[(D & _)|(D & _)]]; [exact V| |]; exfalso.
  all: pose proof (eq_trans (eq_sym D') D) as F; discriminate F.
Qed.
Print Assumptions spec_dup_detected.

Lemma provide_keys_op_weak cfg st r s p evs c :
  RegRel st r ->
  In c (chk_keys_op r (OProvide s p) (mkOObs (overdict_of (fst (provide cfg st s p))) evs)) -> c = 902.
Proof.
  intros HR.
  change (chk_keys_op r (OProvide s p) (mkOObs (overdict_of (fst (provide cfg st s p))) evs))
    with ((if spec_dup r (if pi_export p then 0 else s) (pi_sig p)
           then guardb (negb (accepted (mkOObs (overdict_of (fst (provide cfg st s p))) evs))) 901
           else guardb (negb (is_dup_verdict (overdict_of (fst (provide cfg st s p))))) 902) ++
          (if is_nil (sig_keys (pi_sig p))
           then guardb (negb (accepted (mkOObs (overdict_of (fst (provide cfg st s p))) evs))) 903
           else [])).
  intros Hc. apply in_app_or in Hc as [Hc|Hc].
  - destruct (spec_dup r (if pi_export p then 0 else s) (pi_sig p)) eqn:Ed.
    + rewrite (spec_dup_detected cfg st r s p HR Ed) in Hc. destruct Hc.
    + unfold guardb in Hc. destruct (negb _); [destruct Hc|]. destruct Hc as [<-|[]]. reflexivity.
  - exfalso. destruct (is_nil (sig_keys (pi_sig p))) eqn:En; [|destruct Hc].
    apply is_nil_true in En.
    destruct (provide_verdict cfg st s p) as [[_ V]|[(_ & _ & V)|(_ & K & _)]];
      [rewrite V in Hc; destruct Hc|rewrite V in Hc; destruct Hc|exact (K En)].
Qed.

(* codes 901, 903, 1201, 1202 never fire on any history with valid scope ids;
   only 902 ("rejected as duplicate although no single key conflicts") depends
   on the key kinds *)
Theorem keys_rules_only_902 cfg b du h :
  wf_scopes h = true ->
  forall i c, In (i, c) (walk (fun r _ o ob => chk_keys_op r o ob) 0 reg0 [] h (map obs_of (run cfg b du h))) ->
              c = 902.
Proof.
  intros Hs. apply (walk_run_reg cfg b du (fun r _ o ob => chk_keys_op r o ob) (fun c => c = 902)); [|exact Hs].
  intros st o r new HS Hok HR L c Hc.
  destruct o as [q|s p|s p|s p|bk s f]; cbn [step] in Hc.
  - destruct Hc.
  - eapply provide_keys_op_weak; eauto.
  - rewrite (decorate_keys_op st r s p _ HR) in Hc. destruct Hc.
  - destruct Hc.
  - destruct Hc.
Qed.
Print Assumptions keys_rules_only_902.

(* ===================================================================== *)
(* Part B : error classification (C13)                                    *)
(* ===================================================================== *)

(* ---------- B1 : observation-level predicates are the error-level ones ---------- *)

Lemma rkind_is_dig_of r : rkind_is_dig (rkind_of r) = root_is_dig r.
Proof. destruct r; reflexivity. Qed.

Lemma rkind_is_cycle_of r :
  (match rkind_of r with QCycle => true | _ => false end) = (match r with RCycle => true | _ => false end).
Proof. destruct r; reflexivity. Qed.

Lemma has_viz_kind_of e :
  has_viz_kind (map lkind_of (e_links e)) (rkind_of (e_root e)) = has_viz_link e.
Proof.
  unfold has_viz_kind, has_viz_link. f_equal.
  - induction (e_links e) as [|l t IH]; [reflexivity|]. cbn [map existsb]. rewrite IH.
    destruct l; reflexivity.
  - destruct (e_root e); reflexivity.
Qed.

Lemma is_nil_map_links (ls : list elink) : is_nil (map lkind_of ls) = is_nil ls.
Proof. destruct ls; reflexivity. Qed.

Lemma eqb_same x : Bool.eqb x x = true.
Proof. destruct x; reflexivity. Qed.

(* the flags the model attaches to a verdict *)
Definition vflag (v : verdict) : option oflags :=
  match v with VErr e => Some (flags_now e) | _ => None end.
Definition flag_of (so : step_obs) : option oflags := vflag (so_verdict so).

Lemma model_flags_eq c :
  model_flags c = map flag_of (run (cs_cfg c) (beh_of (cs_beh c)) (dur_of (cs_dur c)) (cs_hist c)).
Proof. reflexivity. Qed.

(* codes 1301-1304 hold of every error the model can build; 1305 and 1307
   are the two side conditions; 1306 cannot fire by construction *)
Lemma chk_flags_op_err o e evs :
  (forall s p x, o = OInvoke s p -> e_root e = RUser (ii_fn p) x -> e_links e = []) ->
  (forall k s f, o = OBad k s f -> root_is_dig (e_root e) = true) ->
  chk_flags_op o (mkOObs (overdict_of (VErr e)) evs) (vflag (VErr e)) = [].
Proof.
  intros Hown Hbad. unfold chk_flags_op. cbn [oo_verdict overdict_of vflag].
  rewrite C13_is_cycle, C13_as_dig, C13_root_is_last, C13_can_viz.
  rewrite rkind_is_cycle_of, rkind_is_dig_of, has_viz_kind_of, !eqb_same.
  cbn [guardb app].
  destruct o as [q|s p|s p|s p|k s f].
  - destruct (rkind_of (e_root e)); reflexivity.
  - destruct (rkind_of (e_root e)); reflexivity.
  - destruct (rkind_of (e_root e)); reflexivity.
  - destruct (e_root e) as [ks| | | |g x|g x|] eqn:Er; cbn [rkind_of]; try reflexivity.
    destruct (Nat.eqb g (ii_fn p)) eqn:Eg; [|reflexivity].
    apply Nat.eqb_eq in Eg. subst g.
    rewrite is_nil_map_links, (Hown s p x eq_refl eq_refl). reflexivity.
  - rewrite (Hbad k s f eq_refl). destruct (rkind_of (e_root e)); reflexivity.
Qed.

Lemma chk_flags_op_nonerr o v evs :
  (forall e, v <> VErr e) -> chk_flags_op o (mkOObs (overdict_of v) evs) (vflag v) = [].
Proof.
  intros H. destruct v as [|e|[f x|c|]]; try reflexivity. exfalso. exact (H e eq_refl).
Qed.

(* ---------- B2 : code 1305 ---------- *)

Lemma lastfail_nexec new f x o l :
  P_Once.lastfail new f x o -> P_Once.nexec f (new ++ l) = P_Once.nexec f l -> False.
Proof.
  intros (l1 & r & a & l2 & E & _ & _) H. subst new. unfold P_Once.nexec in H.
  rewrite !P_Once.count_occ_b_app in H. cbn [count_occ_b P_Once.exec_of] in H.
  rewrite Nat.eqb_refl in H. lia.
Qed.

Section OwnError.
  Variables (cfg : config) (b : beh) (du : dur).

  (* an error leaving the evaluator with a user root names the function of a
     registered constructor or decorator: a function that is neither cannot be
     the root *)
  Theorem eval_user_root_registered fuel t st g :
    cfg_dry cfg = false ->
    P_Once.refs_ok st -> P_Once.pre t st -> P_Once.inv_once st ->
    ~ In g (P_Once.fnsl (st_nodes st) (st_decs st)) ->
    forall e x, fst (eval cfg b du fuel t st) = Fail e -> e_root e <> RUser g x.
  Proof.
    intros Hdry Hr Hp Hi Hg e x Hf Hroot.
    destruct (P_Once.eval_once cfg b du Hdry fuel t st Hr Hp Hi) as [_ (_ & _ & _ & _ & R)].
    specialize (R g Hg).
    destruct (P_Once.eval_fail_root cfg b du fuel t st) as (new & L & Rk).
    rewrite Hf in Rk. cbn [P_Once.res_ok] in Rk. unfold P_Once.fail_ok in Rk. rewrite Hroot in Rk.
    destruct Rk as [Hl _]. rewrite L in R. eapply lastfail_nexec; eauto.
  Qed.

  Lemma invoke_tail_own st1 s p e x :
    cfg_dry cfg = false ->
    P_Once.refs_ok st1 -> P_Once.inv_once st1 ->
    ~ In (ii_fn p) (P_Once.fnsl (st_nodes st1) (st_decs st1)) ->
    fst (match eval cfg b du (eval_fuel st1) (TLeaves s (sig_build_seq (ii_sig p))) st1 with
         | (Fail e, st2) => (VErr (wrap LArgsFailed e), st2)
         | (Abort a, st2) => (VAbort a, st2)
         | (Done built, st2) =>
             let args := place (sig_order (ii_sig p)) built in
             match run_fn cfg b du RoleInv (ii_fn p) args st2 with
             | (OOk _, _, st3) => (VOk, st3)
             | (OErr, e, st3) => (VErr (mkErr [] (RUser (ii_fn p) e)), st3)
             | (OPanic, e, st3) =>
                 if cfg_recover cfg then (VErr (mkErr [] (RPanic (ii_fn p) e)), st3)
                 else (VAbort (APanicked (ii_fn p) e), st3)
             end
         end) = VErr e ->
    e_root e = RUser (ii_fn p) x -> e_links e = [].
  Proof.
    intros Hdry Hr Hi Hg H Hroot.
    pose proof (eval_user_root_registered (eval_fuel st1) (TLeaves s (sig_build_seq (ii_sig p))) st1
                  (ii_fn p) Hdry Hr I Hi Hg) as Hev.
    destruct (eval cfg b du (eval_fuel st1) (TLeaves s (sig_build_seq (ii_sig p))) st1)
      as [[built|e'|a] st2]; cbn [fst] in *.
    - cbv zeta in H. destruct (run_fn cfg b du RoleInv (ii_fn p) _ st2) as [[o ex] st3].
      destruct o as [lens| |]; [discriminate H| |destruct (cfg_recover cfg)]; cbn [fst] in H;
        try discriminate H; inversion H; reflexivity.
    - inversion H; subst e. cbn [wrap e_root] in Hroot. exfalso. exact (Hev e' x eq_refl Hroot).
    - discriminate H.
  Qed.

  (* code 1305: when Invoke returns an error whose root is the invoked
     function's own error value, it is that value itself, unwrapped *)
  Theorem invoke_own_error st s p e x :
    cfg_dry cfg = false ->
    P_Once.refs_ok st -> P_Once.inv_once st ->
    ~ In (ii_fn p) (P_Once.fnsl (st_nodes st) (st_decs st)) ->
    fst (invoke cfg b du st s p) = VErr e -> e_root e = RUser (ii_fn p) x -> e_links e = [].
  Proof.
    intros Hdry Hr Hi Hg H Hroot. unfold invoke in H.
    destruct (shallow_missing st s _).
    2:{ cbn [fst] in H. inversion H; subst e. discriminate Hroot. }
    destruct (s_verified (get_scope st s)).
    - eapply (invoke_tail_own st s p e x); eauto.
    - destruct (is_acyclic (scope_graph st s)) as [[[|] y]|].
      + eapply (invoke_tail_own (upd_scope st s (sc_set_verified true)) s p e x); eauto.
        eapply P_Once.refs_ok_frame; [|exact Hr]. apply P_Once.frame_upd_scope. intros c; split; reflexivity.
      + cbn [fst] in H. inversion H; subst e. discriminate Hroot.
      + discriminate H.
  Qed.

  (* in a dry container no verdict has a user root at all *)
  Lemma dry_no_user_root st o e :
    cfg_dry cfg = true -> fst (step cfg b du st o) = VErr e ->
    match e_root e with RUser _ _ | RPanic _ _ => False | _ => True end.
  Proof.
    intros Hdry H.
    destruct (P_Once.step_D cfg b du st o) as (new & L & Rk). rewrite H in Rk.
    destruct (P_Events.step_ext1 cfg b du st o) as (l & L' & Hn). specialize (Hn Hdry).
    rewrite L in L'. apply app_inv_tail in L'. subst l.
    cbn [P_Once.vres P_Once.res_ok] in Rk. unfold P_Once.fail_ok in Rk.
    assert (Hno : forall f x oc, P_Once.lastfail new f x oc -> False).
    { intros f x oc (l1 & r & a & l2 & E & _ & _). subst new.
      unfold P_Events.noexec in Hn. rewrite Forall_forall in Hn.
      specialize (Hn (EExec f x r a oc)). cbn [is_exec] in Hn.
      assert (Hin : In (EExec f x r a oc) (l1 ++ EExec f x r a oc :: l2)) by (apply in_elt).
      specialize (Hn Hin). discriminate Hn. }
    destruct (e_root e); try exact I; destruct Rk as [Hl _]; eapply Hno; eauto.
  Qed.
End OwnError.
Print Assumptions eval_user_root_registered.
Print Assumptions invoke_own_error.

(* ---------- B3 : runs ---------- *)

Section C13Run.
  Variables (cfg : config) (b : beh) (du : dur).
  Variable Inv : state -> history -> Prop.
  Hypothesis Inv_step : forall st o h, Inv st (o :: h) -> Inv (snd (step cfg b du st o)) h.
  Hypothesis Inv_own : forall st s p h e x, Inv st (OInvoke s p :: h) ->
      fst (invoke cfg b du st s p) = VErr e -> e_root e = RUser (ii_fn p) x -> e_links e = [].

  Lemma chk_flags_step st o h evs :
    Inv st (o :: h) ->
    chk_flags_op o (mkOObs (overdict_of (fst (step cfg b du st o))) evs) (vflag (fst (step cfg b du st o))) = [].
  Proof.
    intros HI. destruct (fst (step cfg b du st o)) as [|e|a] eqn:V.
    - reflexivity.
    - apply chk_flags_op_err.
      + intros s p x -> Hroot. cbn [step] in V. eapply Inv_own; eauto.
      + intros k s f ->. cbn [step fst] in V. inversion V. reflexivity.
    - apply chk_flags_op_nonerr. discriminate.
  Qed.

  Lemma chk_C13_run_from : forall h st i, Inv st h ->
    chk_C13_from i h (map obs_of (fst (run_from cfg b du st h)))
                     (map flag_of (fst (run_from cfg b du st h))) = [].
  Proof.
    induction h as [|o h IH]; intros st i HI; [reflexivity|].
    rewrite run_from_cons. cbn [fst map chk_C13_from].
    unfold obs_of at 1, flag_of at 1. cbn [so_verdict so_events].
    rewrite (chk_flags_step st o h _ HI). cbn [map app].
    apply IH. apply Inv_step. exact HI.
  Qed.
End C13Run.

(* C13: no code of the classification checker fires on a run of the model *)
Theorem chk_C13_ok cfg b du h :
  P_Once.wf_fns h = true ->
  chk_C13 h (map obs_of (run cfg b du h)) (map flag_of (run cfg b du h)) = [].
Proof.
  intros Hwf. unfold chk_C13, run.
  destruct (cfg_dry cfg) eqn:Hdry.
  - apply (chk_C13_run_from cfg b du (fun _ _ => True)); [auto| |exact I].
    intros st s p h' e x _ H Hroot. exfalso.
    pose proof (dry_no_user_root cfg b du st (OInvoke s p) e Hdry H) as Hn.
    rewrite Hroot in Hn. exact Hn.
  - apply (chk_C13_run_from cfg b du P_Once.GH).
    + intros st o h'. apply P_Once.GH_step. exact Hdry.
    + intros st s p h' e x ((_ & _ & Hr & Hi) & _ & Hfr) H Hroot.
      destruct (Hfr (ii_fn p) (or_introl eq_refl)) as [Hg _].
      eapply invoke_own_error; eauto.
    + apply P_Once.GH_init. exact Hwf.
Qed.
Print Assumptions chk_C13_ok.

(* the same, in the vocabulary of correspondence cases *)
Corollary chk_C13_model c :
  P_Once.wf_fns (cs_hist c) = true -> chk_C13 (cs_hist c) (model_obs c) (model_flags c) = [].
Proof. intros H. rewrite model_flags_eq. unfold model_obs. apply chk_C13_ok. exact H. Qed.
Print Assumptions chk_C13_model.

(* ---------- B4 : the panic clauses of C13 at run level ---------- *)

Lemma run_from_Forall cfg b du (Q : step_obs -> Prop) :
  (forall st o new, st_log (snd (step cfg b du st o)) = new ++ st_log st ->
                    P_Once.res_ok (cfg_recover cfg) new (P_Once.vres (fst (step cfg b du st o))) ->
                    Q (mkObs (fst (step cfg b du st o)) (rev new))) ->
  forall h st, Forall Q (fst (run_from cfg b du st h)).
Proof.
  intros HQ. induction h as [|o h IH]; intros st; [constructor|].
  rewrite run_from_cons. cbn [fst]. constructor; [|apply IH].
  destruct (P_Once.step_D cfg b du st o) as (new & L & R).
  rewrite L, P_Once.new_events_ext. apply HQ; assumption.
Qed.

Lemma lastfail_unique new f x o f' x' r a :
  P_Once.lastfail new f x o -> In (EExec f' x' r a OPanic) new -> o = OPanic /\ f' = f /\ x' = x.
Proof.
  intros (l1 & r0 & a0 & l2 & E & H1 & H2) Hin. subst new.
  apply in_app_or in Hin as [Hin|[Hin|Hin]].
  - specialize (H1 _ Hin). discriminate H1.
  - inversion Hin. auto.
  - specialize (H2 _ Hin). discriminate H2.
Qed.

Lemma root_panic_not_dig f e : root_is_dig (RPanic f e) = false.
Proof. reflexivity. Qed.

(* RecoverFromPanics: no panic reaches the caller; the operation in which a
   function panics fails with a PanicError naming that execution as its root
   cause, and that root is not a dig.Error *)
Theorem panic_recovered cfg b du h :
  cfg_recover cfg = true ->
  forall so, In so (run cfg b du h) ->
    (forall f e, so_verdict so <> VAbort (APanicked f e)) /\
    (forall f e r a, In (EExec f e r a OPanic) (so_events so) ->
       exists err, so_verdict so = VErr err /\ e_root err = RPanic f e /\
                   root_is_dig (e_root err) = false /\ fl_as_dig (flags_now err) = false).
Proof.
  intros Hrec. unfold run.
  set (Q := fun so : step_obs =>
               (forall f e, so_verdict so <> VAbort (APanicked f e)) /\
               (forall f e r a, In (EExec f e r a OPanic) (so_events so) ->
                  exists err, so_verdict so = VErr err /\ e_root err = RPanic f e /\
                              root_is_dig (e_root err) = false /\ fl_as_dig (flags_now err) = false)).
  enough (HF : Forall Q (fst (run_from cfg b du init_state h))).
  { intros so Hin. rewrite Forall_forall in HF. exact (HF so Hin). }
  apply run_from_Forall. unfold Q. clear Q. intros st o new L R. rewrite Hrec in R. cbn [so_verdict so_events].
  destruct (fst (step cfg b du st o)) as [|err|ab]; cbn [P_Once.vres P_Once.res_ok] in R.
  - split; [discriminate|]. intros f e r a Hin. apply in_rev in Hin.
    specialize (R _ Hin). discriminate R.
  - split; [discriminate|]. intros f e r a Hin. apply in_rev in Hin.
    unfold P_Once.fail_ok in R.
    destruct (e_root err) as [ks| | | |g x|g x|] eqn:Er;
      try (specialize (R _ Hin); discriminate R).
    + destruct R as [R _]. destruct (lastfail_unique _ _ _ _ _ _ _ _ R Hin) as [Ho _]. discriminate Ho.
    + destruct R as [R _]. destruct (lastfail_unique _ _ _ _ _ _ _ _ R Hin) as (_ & -> & ->).
      exists err. split; [reflexivity|]. split; [exact Er|].
      rewrite C13_as_dig, Er. split; reflexivity.
  - destruct ab as [g x|c|]; cbn [P_Once.abort_ok] in R.
    + destruct R as [_ R]. discriminate R.
    + split; [discriminate|]. intros f e r a Hin. apply in_rev in Hin. specialize (R _ Hin). discriminate R.
    + split; [discriminate|]. intros f e r a Hin. apply in_rev in Hin. specialize (R _ Hin). discriminate R.
Qed.
Print Assumptions panic_recovered.

(* without RecoverFromPanics no verdict is a PanicError: a panic unwinds to the caller *)
Theorem panic_not_recovered cfg b du h :
  cfg_recover cfg = false ->
  forall so, In so (run cfg b du h) ->
    (forall err f e, so_verdict so = VErr err -> e_root err <> RPanic f e) /\
    (forall f e r a, In (EExec f e r a OPanic) (so_events so) -> so_verdict so = VAbort (APanicked f e)).
Proof.
  intros Hrec. unfold run.
  set (Q := fun so : step_obs =>
               (forall err f e, so_verdict so = VErr err -> e_root err <> RPanic f e) /\
               (forall f e r a, In (EExec f e r a OPanic) (so_events so) ->
                                so_verdict so = VAbort (APanicked f e))).
  enough (HF : Forall Q (fst (run_from cfg b du init_state h))).
  { intros so Hin. rewrite Forall_forall in HF. exact (HF so Hin). }
  apply run_from_Forall. unfold Q. clear Q. intros st o new L R. rewrite Hrec in R. cbn [so_verdict so_events].
  destruct (fst (step cfg b du st o)) as [|err|ab]; cbn [P_Once.vres P_Once.res_ok] in R.
  - split; [discriminate|]. intros f e r a Hin. apply in_rev in Hin.
    specialize (R _ Hin). discriminate R.
  - unfold P_Once.fail_ok in R. split.
    + intros err' f e [= <-] Er. rewrite Er in R. destruct R as (_ & R & _). discriminate R.
    + intros f e r a Hin. apply in_rev in Hin. exfalso.
      destruct (e_root err) as [ks| | | |g x|g x|] eqn:Er;
        try (specialize (R _ Hin); discriminate R).
      * destruct R as [R _]. destruct (lastfail_unique _ _ _ _ _ _ _ _ R Hin) as [Ho _]. discriminate Ho.
      * destruct R as (_ & R & _). discriminate R.
  - split; [discriminate|]. intros f e r a Hin. apply in_rev in Hin.
    destruct ab as [g x|c|]; cbn [P_Once.abort_ok] in R.
    + destruct R as [R _]. destruct (lastfail_unique _ _ _ _ _ _ _ _ R Hin) as (_ & -> & ->). reflexivity.
    + specialize (R _ Hin). discriminate R.
    + specialize (R _ Hin). discriminate R.
Qed.
Print Assumptions panic_not_recovered.

(* ===================================================================== *)
(* Examples                                                               *)
(* ===================================================================== *)

Module KeysExample.
  Definition cfg0 : config := mkConfig false false false.
  Definition kA : key := KV 1 0.      (* a concrete type *)
  Definition kI : key := KV 2 0.      (* an interface it is provided As *)
  Definition kB : key := KV 3 0.

  (* func() *A, provided As(I) *)
  Definition sigA_as_I : fsig := mkSig [] [RSingle kA [kI]] false.
  (* func() *B, provided As(I) too *)
  Definition sigB_as_I : fsig := mkSig [] [RSingle kB [kI]] false.
  (* func() struct{ dig.Out; X *B; Y *B }: the same key twice in one result object *)
  Definition sigBB : fsig := mkSig [] [RObj [RSingle kB []; RSingle kB []]] false.
  (* func() *B: fine *)
  Definition sigB : fsig := mkSig [] [RSingle kB []] false.
  (* decorators of *A *)
  Definition sigDecA : fsig := mkSig [PSingle kA false] [RSingle kA []] false.
  (* func(I, *B) error *)
  Definition sigInv : fsig := mkSig [PSingle kI false; PSingle kB false] [] true.

  Definition hist : history :=
    [ OProvide 0 (mkProvideIn 10 sigA_as_I false false);   (* 0 accepted *)
      OProvide 0 (mkProvideIn 11 sigB_as_I false false);   (* 1 duplicate of I through As *)
      OProvide 0 (mkProvideIn 12 sigBB false false);       (* 2 duplicate inside one result object *)
      OProvide 0 (mkProvideIn 13 sigB false false);        (* 3 accepted *)
      ODecorate 0 (mkDecorateIn 20 sigDecA false);         (* 4 accepted *)
      ODecorate 0 (mkDecorateIn 21 sigDecA false);         (* 5 a second decorator of *A in the same scope *)
      OBad BadProvide 0 30;                                (* 6 malformed input *)
      OInvoke 0 (mkInvokeIn 40 sigInv) ].                  (* 7 the invoked function returns its own error *)

  Definition btab : list (fnid * list outcome) := [(40, [OErr])].
  Definition bh : beh := beh_of btab.
  Definition dr : dur := dur_of [].

  Example verdicts :
    map so_verdict (run cfg0 bh dr hist) =
    [ VOk; VErr err_dup; VErr err_dup; VOk; VOk; VErr err_dec_dup; VErr err_invalid_leaf;
      VErr (mkErr [] (RUser 40 0)) ].
  Proof. vm_compute. reflexivity. Qed.

  Example hyps : wf_scopes hist = true /\ hist_kinds_ok hist = true /\ P_Once.wf_fns hist = true.
  Proof. vm_compute. auto. Qed.

  Example keys_checker :
    walk (fun r _ o ob => chk_keys_op r o ob) 0 reg0 [] hist (map obs_of (run cfg0 bh dr hist)) = [].
  Proof. vm_compute. reflexivity. Qed.

  Example C13_checker :
    chk_C13 hist (map obs_of (run cfg0 bh dr hist)) (map flag_of (run cfg0 bh dr hist)) = [].
  Proof. vm_compute. reflexivity. Qed.

  Example flags :
    map flag_of (run cfg0 bh dr hist) =
    [ None;
      Some (mkFlags false true false true);     (* duplicate: a dig.Error, not a cycle, nothing to draw *)
      Some (mkFlags false true false true);
      None; None;
      Some (mkFlags false true false true);
      Some (mkFlags false true false true);
      Some (mkFlags false false false true) ].  (* the user's own error: RootCause is not a dig.Error *)
  Proof. vm_compute. reflexivity. Qed.

  (* the same through the theorems *)
  Example keys_checker_thm :
    walk (fun r _ o ob => chk_keys_op r o ob) 0 reg0 [] hist (map obs_of (run cfg0 bh dr hist)) = [].
  Proof. apply keys_rules_ok; apply hyps. Qed.
  Example C13_checker_thm :
    chk_C13 hist (map obs_of (run cfg0 bh dr hist)) (map flag_of (run cfg0 bh dr hist)) = [].
  Proof. apply chk_C13_ok. apply hyps. Qed.

  (* ---- why [hist_kinds_ok] and not [P_Term.wf_keys]: a SINGLE result whose
     key carries a group name.  [wf_keys] allows it; the visitor has put the
     group leaf's key into [seen], so the single leaf is reported as a
     duplicate, while no single key conflicts: code 902.  (Go cannot build
     such a key: a single result never has a group name.) ---- *)
  Definition kG : key := KG 3 1.
  Definition sigMixed : fsig := mkSig [] [RGroup kG false []; RSingle kG []] false.
  Definition histMixed : history := [OProvide 0 (mkProvideIn 50 sigMixed false false)].

  Example mixed_hyps :
    wf_scopes histMixed = true /\ P_Term.wf_keys histMixed = true /\ hist_kinds_ok histMixed = false.
  Proof. vm_compute. auto. Qed.

  Example mixed_fires :
    map so_verdict (run cfg0 bh dr histMixed) = [VErr err_dup] /\
    walk (fun r _ o ob => chk_keys_op r o ob) 0 reg0 [] histMixed (map obs_of (run cfg0 bh dr histMixed))
    = [(0, 902)].
  Proof. vm_compute. auto. Qed.

  (* ---- why [wf_fns] for code 1305: when the invoked function value is also a
     registered constructor, its error comes back wrapped ---- *)
  Definition sigInvB : fsig := mkSig [PSingle kB false] [] true.
  Definition sigBe : fsig := mkSig [] [RSingle kB []] true.
  Definition histShared : history :=
    [ OProvide 0 (mkProvideIn 60 sigBe false false); OInvoke 0 (mkInvokeIn 60 sigInvB) ].
  Definition bhShared : beh := beh_of [(60, [OErr])].

  Example shared_fires :
    P_Once.wf_fns histShared = false /\
    chk_C13 histShared (map obs_of (run cfg0 bhShared dr histShared))
                       (map flag_of (run cfg0 bhShared dr histShared)) = [(1, 1305)].
  Proof. vm_compute. auto. Qed.
End KeysExample.
