(* Prop_C13.v — property theorems for C13, and nothing else: each statement is closed
   by `exact <lemma>` and followed by Print Assumptions. *)
From Dig Require Import Base Sig State Graph GraphProofs Register Resolve Run Spec Check
  ErrTable Err ErrTableCheck ErrCauseCheck Check13 P_Once P_Keys.

(* ---- C13: classification of every error the model can build, over the
        error-type table regenerated from /repo ---- *)
Theorem C13_classification : forall e,
  root_cause (chain_of err_table e) = Some (root_node err_table e) /\
  fl_as_dig (flags_now e) = root_is_dig (e_root e) /\
  fl_is_cycle (flags_now e) = (match e_root e with RCycle => true | _ => false end) /\
  fl_root_is_last (flags_now e) = true /\
  fl_can_viz (flags_now e) = has_viz_link e.
Proof.
  exact (fun e => conj (C13_rootcause e) (conj (C13_as_dig e) (conj (C13_is_cycle e)
                 (conj (C13_root_is_last e) (C13_can_viz e))))).
Qed.
Print Assumptions C13_classification.

Theorem C13_no_foreign_cause : no_foreign_cause cause_sites = true.
Proof. exact no_foreign_cause_now. Qed.
Print Assumptions C13_no_foreign_cause.

(* ---- C13 on runs: the classification checker accepts every model trace; the
        invoked function's own error is returned unwrapped; panics surface as
        PanicError (recovered) or reach the caller (not recovered) ---- *)
Theorem C13_holds : forall cfg b du h, P_Once.wf_fns h = true ->
  chk_C13 h (map obs_of (run cfg b du h)) (map flag_of (run cfg b du h)) = [].
Proof. exact P_Keys.chk_C13_ok. Qed.
Print Assumptions C13_holds.
