(* P_C04.v — property C04 (missing dependencies / optional parameters) for the MODEL.

   Part 1   availability is a least fixed point (pure, about Spec.v):
            [avail_step_mono], [avail_iter_incr], [avail_set_fixed] (pigeonhole),
            the inductive characterisation [Avail] / [LeafP]: [avail_set_char],
            [avail_leaf_char], [avail_ctor_unfold], [avail_set_least]
   Part 1b  every declared leaf is in the build sequence and conversely
            ([build_seq_complete], [build_seq_sound] in Part 5)
   Part 2   code 404: invariants [DVI] (decorated caches only hold decorated
            keys) and [CV] (a cached single value has a called provider in that
            scope) along [step]; [shallow_not_directly_missing]; the evaluator
            [eval_404]; [invoke_404]
   Part 3a  code 403: [eval_roots], [invoke_roots], [invoke_403]
   Part 3b  code 401 (decorator-free registries): [eval_401], [invoke_401]
   Part 4   the checker on runs: [chk_missing_no_403_404], [chk_missing_only_402],
            run-level statements [run_404], [run_403], [run_401], and
            [chk_C04_codes] (given the provenance result as a Section hypothesis)
   Part 5   the optional branch (code 123) and the converse of 401:
            [eval_md], [opt_zero_guard_123], [invoke_md], [run_md_unavailable]
   Part 6   code 402 (liveness): [eval_mdroot], [invoke_mdroot], and with the
            cycle result of P_C05, [chk_missing_nil], [chk_C04_model]
   Examples (module C04Example) by vm_compute, including the counterexamples
   showing that [cfg_dry cfg = false] (401) and [wf_gkeys] (402) are needed.

   The proofs about [eval] are by induction on the fuel with
   [rec := eval cfg b du fuel], one lemma per combinator as in EvalInd's
   scheme, so that the theorems already proved about [eval] (P_Term.eval_PT,
   P_Frame.eval_pres, ...) apply to the recursive calls; [eval_roots] uses
   [eval_ind] directly. *)
From Dig Require Import Base Sig State Graph GraphProofs Register Resolve Run EvalInd Spec Check.
From Dig Require P_Events P_Once P_Term P_Keys.
From Dig Require P_C05.
From Dig Require Import P_Frame P_Reg.
From Coq Require Import List Arith Bool NArith Lia PeanoNat.
Import ListNotations.
Open Scope list_scope.

(* ===================================================================== *)
(* Part 1 : availability is a least fixed point                           *)
(* ===================================================================== *)

Definition fsub (A B : list fnid) : Prop :=
  forall x, memb Nat.eqb x A = true -> memb Nat.eqb x B = true.

Lemma fsub_refl A : fsub A A.
Proof. intros x H; exact H. Qed.

Lemma fsub_trans A B C : fsub A B -> fsub B C -> fsub A C.
Proof. intros H1 H2 x H. apply H2, H1, H. Qed.

Lemma fsub_nil A : fsub [] A.
Proof. intros x H; discriminate H. Qed.

(* ---------- monotonicity ---------- *)

Lemma leaf_avail_mono r A B v l :
  fsub A B -> leaf_avail r A v l = true -> leaf_avail r B v l = true.
Proof.
  intros HS. destruct l as [k [|]|k [|]]; cbn [leaf_avail]; try (intros _; reflexivity).
  - destruct (nearest_provider r v k) as [c|]; [apply HS|intros H; exact H].
  - rewrite !forallb_forall. intros H c Hc. apply HS, H, Hc.
Qed.

(* the filter predicate of [avail_step] *)
Definition step_pred (r : registry) (built A : list fnid) (c : sctor) : bool :=
  memb Nat.eqb (sc_fn c) built || forallb (leaf_avail r A (sc_orig c)) (sig_leaves (sc_sig c)).

Lemma avail_step_eq r built A :
  avail_step r built A = map sc_fn (filter (step_pred r built A) (r_ctors r)).
Proof. reflexivity. Qed.

Lemma step_pred_mono r built A B c :
  fsub A B -> step_pred r built A c = true -> step_pred r built B c = true.
Proof.
  intros HS. unfold step_pred. rewrite !orb_true_iff. intros [H|H]; [left; exact H|right].
  rewrite forallb_forall in *. intros l Hl. eapply leaf_avail_mono; [exact HS|apply H, Hl].
Qed.

Lemma avail_step_In r built A f :
  In f (avail_step r built A) <->
  exists c, In c (r_ctors r) /\ sc_fn c = f /\ step_pred r built A c = true.
Proof.
  rewrite avail_step_eq, in_map_iff. split.
  - intros (c & E & Hc). apply filter_In in Hc as [Hc Hp]. exists c. auto.
  - intros (c & Hc & E & Hp). exists c. split; [exact E|]. apply filter_In. auto.
Qed.

Theorem avail_step_mono r built A B :
  fsub A B -> fsub (avail_step r built A) (avail_step r built B).
Proof.
  intros HS f Hf. apply memb_nat_In in Hf. apply memb_nat_In.
  apply avail_step_In in Hf as (c & Hc & E & Hp). apply avail_step_In.
  exists c. split; [exact Hc|]. split; [exact E|]. eapply step_pred_mono; eauto.
Qed.

(* every element is the function id of a constructor of r *)
Theorem avail_step_ctor r built A f :
  In f (avail_step r built A) -> exists c, In c (r_ctors r) /\ sc_fn c = f.
Proof. intros H. apply avail_step_In in H as (c & Hc & E & _). exists c. auto. Qed.

(* ---------- the iteration ---------- *)

Lemma avail_iter_comm n r built : forall A,
  avail_iter n r built (avail_step r built A) = avail_step r built (avail_iter n r built A).
Proof. induction n as [|n IH]; intros A; cbn [avail_iter]; [reflexivity|apply IH]. Qed.

Lemma avail_iter_S n r built A :
  avail_iter (S n) r built A = avail_step r built (avail_iter n r built A).
Proof. cbn [avail_iter]. apply avail_iter_comm. Qed.

Theorem avail_iter_incr r built n :
  fsub (avail_iter n r built []) (avail_iter (S n) r built []).
Proof.
  induction n as [|n IH]; [apply fsub_nil|].
  pose proof (avail_step_mono r built _ _ IH) as H.
  rewrite <- !avail_iter_S in H. exact H.
Qed.

Theorem avail_iter_ctor r built n f :
  In f (avail_iter n r built []) -> exists c, In c (r_ctors r) /\ sc_fn c = f.
Proof.
  destruct n as [|n]; [intros []|]. rewrite avail_iter_S. apply avail_step_ctor.
Qed.

Corollary avail_set_ctor r built f :
  In f (avail_set r built) -> exists c, In c (r_ctors r) /\ sc_fn c = f.
Proof. apply avail_iter_ctor. Qed.

(* ---------- stabilisation: the pigeonhole argument ---------- *)

Lemma filter_same_or_longer {A} (p q : A -> bool) (l : list A) :
  (forall x, In x l -> p x = true -> q x = true) ->
  filter p l = filter q l \/ length (filter p l) < length (filter q l).
Proof.
  induction l as [|x l IH]; intros H; [left; reflexivity|].
  assert (Hl : forall y, In y l -> p y = true -> q y = true) by (intros y Hy; apply H; right; exact Hy).
  assert (Hle : length (filter p l) <= length (filter q l)).
  { destruct (IH Hl) as [E|L]; [rewrite E|]; lia. }
  cbn [filter]. destruct (p x) eqn:Ep.
  - rewrite (H x (or_introl eq_refl) Ep). destruct (IH Hl) as [E|L].
    + left. rewrite E. reflexivity.
    + right. cbn [length]. lia.
  - destruct (q x).
    + right. cbn [length]. lia.
    + destruct (IH Hl) as [E|L]; [left; exact E|right; exact L].
Qed.

Lemma avail_step_same_or_longer r built A B :
  fsub A B ->
  avail_step r built A = avail_step r built B \/
  length (avail_step r built A) < length (avail_step r built B).
Proof.
  intros HS. rewrite !avail_step_eq.
  destruct (filter_same_or_longer (step_pred r built A) (step_pred r built B) (r_ctors r)) as [E|L].
  - intros c _. apply step_pred_mono. exact HS.
  - left. rewrite E. reflexivity.
  - right. rewrite !map_length. exact L.
Qed.

Lemma filter_len_le {A} (p : A -> bool) l : length (filter p l) <= length l.
Proof. induction l as [|x l IH]; cbn [filter length]; [lia|]. destruct (p x); cbn [length]; lia. Qed.

Lemma avail_step_length r built A : length (avail_step r built A) <= length (r_ctors r).
Proof. rewrite avail_step_eq, map_length. apply filter_len_le. Qed.

Section Stabilise.
  Variables (r : registry) (built : list fnid).
  Let X (n : nat) : list fnid := avail_iter n r built [].

  Lemma X_S n : X (S n) = avail_step r built (X n).
  Proof. apply avail_iter_S. Qed.

  Lemma stable_or_grown i :
    (exists j, j < i /\ X (S j) = X (S (S j))) \/ i <= length (X (S i)).
  Proof.
    induction i as [|i IH]; [right; lia|].
    destruct IH as [(j & Hj & E)|Hlen]; [left; exists j; split; [lia|exact E]|].
    destruct (avail_step_same_or_longer r built (X i) (X (S i)) (avail_iter_incr r built i)) as [E|L].
    - left. exists i. split; [lia|]. rewrite <- !X_S in E. exact E.
    - right. rewrite <- !X_S in L. lia.
  Qed.

  Lemma stable_forever j : X (S j) = X (S (S j)) -> forall m, j <= m -> X (S m) = X (S (S m)).
  Proof.
    intros E m Hm. induction Hm as [|m Hm IH]; [exact E|].
    rewrite (X_S (S (S m))), <- IH. rewrite <- X_S. exact IH.
  Qed.

  (* the set computed by Spec.avail_set is a fixed point of avail_step *)
  Theorem avail_set_fixed : avail_step r built (avail_set r built) = avail_set r built.
  Proof.
    unfold avail_set. fold (X (S (length (r_ctors r)))). rewrite <- X_S. symmetry.
    destruct (stable_or_grown (S (length (r_ctors r)))) as [(j & Hj & E)|Hlen].
    - apply (stable_forever j E). lia.
    - exfalso. rewrite X_S in Hlen. pose proof (avail_step_length r built (X (S (length (r_ctors r))))). lia.
  Qed.
End Stabilise.
Print Assumptions avail_set_fixed.

(* every round of the iteration is below the fixed point *)
Lemma avail_iter_below r built n : fsub (avail_iter n r built []) (avail_set r built).
Proof.
  induction n as [|n IH]; [apply fsub_nil|].
  rewrite avail_iter_S, <- (avail_set_fixed r built). apply avail_step_mono. exact IH.
Qed.

(* ---------- the inductive characterisation ---------- *)

(* a constructor of r is available if it has already run successfully, or if
   every required single parameter has a nearest provider (seen from its
   original scope) which is available and every visible feeder of every
   non-soft group parameter is available.  Optional singles and soft groups
   ask for nothing. *)
Inductive Avail (r : registry) (built : list fnid) : sctor -> Prop :=
| Av_built : forall c, In c (r_ctors r) -> In (sc_fn c) built -> Avail r built c
| Av_leaves : forall c, In c (r_ctors r) ->
    (forall k, In (LSingle k false) (sig_leaves (sc_sig c)) ->
               nearest_provider r (sc_orig c) k <> None) ->
    (forall k c', In (LSingle k false) (sig_leaves (sc_sig c)) ->
                  nearest_provider r (sc_orig c) k = Some c' -> Avail r built c') ->
    (forall k c', In (LGroup k false) (sig_leaves (sc_sig c)) ->
                  In c' (feeders r (sc_orig c) k) -> Avail r built c') ->
    Avail r built c.

(* the same for one leaf seen from a scope *)
Definition LeafP (r : registry) (built : list fnid) (v : sid) (l : pleaf) : Prop :=
  match l with
  | LSingle k false => exists c, nearest_provider r v k = Some c /\ Avail r built c
  | LGroup k false => forall c, In c (feeders r v k) -> Avail r built c
  | _ => True
  end.

Lemma Avail_In r built c : Avail r built c -> In c (r_ctors r).
Proof. intros [c' H _|c' H _ _ _]; exact H. Qed.

Lemma Avail_of_leaves r built c :
  In c (r_ctors r) -> (forall l, In l (sig_leaves (sc_sig c)) -> LeafP r built (sc_orig c) l) ->
  Avail r built c.
Proof.
  intros Hc H. apply Av_leaves; [exact Hc| | |].
  - intros k Hk. destruct (H _ Hk) as (c' & E & _). rewrite E. discriminate.
  - intros k c' Hk E. destruct (H _ Hk) as (c'' & E' & Ha). congruence.
  - intros k c' Hk Hc'. exact (H _ Hk c' Hc').
Qed.

Lemma find_map_In {A B} (f : A -> option B) l y :
  find_map f l = Some y -> exists x, In x l /\ f x = Some y.
Proof.
  induction l as [|x l IH]; cbn [find_map]; [discriminate|].
  destruct (f x) as [z|] eqn:E.
  - intros [= <-]. exists x. split; [left; reflexivity|exact E].
  - intros H. destruct (IH H) as (x' & Hx & E'). exists x'. split; [right; exact Hx|exact E'].
Qed.

Lemma nearest_provider_In r v k c : nearest_provider r v k = Some c -> In c (r_ctors r).
Proof.
  unfold nearest_provider. intros H. apply find_map_In in H as (b & _ & H).
  unfold providers_in in H. destruct (filter _ (r_ctors r)) as [|c0 t] eqn:E; [discriminate|].
  cbn in H. injection H as <-.
  assert (Hin : In c0 (filter (fun c => Nat.eqb (sc_home c) b && provides_single c k) (r_ctors r)))
    by (rewrite E; left; reflexivity).
  apply filter_In in Hin. tauto.
Qed.

Lemma feeders_In r v k c : In c (feeders r v k) -> In c (r_ctors r).
Proof. unfold feeders. intros H. apply filter_In in H. tauto. Qed.

Section Char.
  Variables (r : registry) (built : list fnid).
  Hypothesis Hnd : NoDup (map sc_fn (r_ctors r)).

  Lemma sc_fn_inj c c' : In c (r_ctors r) -> In c' (r_ctors r) -> sc_fn c = sc_fn c' -> c = c'.
  Proof.
    revert Hnd. generalize (r_ctors r). intros l. induction l as [|x l IH]; intros Hn Hc Hc' E; [destruct Hc|].
    cbn [map] in Hn. inversion Hn as [|? ? Hx Hn']; subst.
    destruct Hc as [<-|Hc], Hc' as [<-|Hc'].
    - reflexivity.
    - exfalso. apply Hx. rewrite E. apply in_map. exact Hc'.
    - exfalso. apply Hx. rewrite <- E. apply in_map. exact Hc.
    - apply IH; assumption.
  Qed.

  (* membership in one round, for a constructor of r *)
  Lemma avail_step_memb A c : In c (r_ctors r) ->
    memb Nat.eqb (sc_fn c) (avail_step r built A) = step_pred r built A c.
  Proof.
    intros Hc. destruct (step_pred r built A c) eqn:Ep.
    - apply memb_nat_In. apply avail_step_In. exists c. auto.
    - destruct (memb Nat.eqb (sc_fn c) (avail_step r built A)) eqn:Em; [|reflexivity].
      apply memb_nat_In in Em. apply avail_step_In in Em as (c' & Hc' & E & Hp).
      rewrite (sc_fn_inj c' c Hc' Hc E) in Hp. congruence.
  Qed.

  (* the unfolding equation of availability *)
  Theorem avail_ctor_unfold c : In c (r_ctors r) ->
    avail_ctor r built c =
    memb Nat.eqb (sc_fn c) built || forallb (avail_leaf r built (sc_orig c)) (sig_leaves (sc_sig c)).
  Proof.
    intros Hc. unfold avail_ctor. rewrite <- (avail_set_fixed r built) at 1.
    rewrite (avail_step_memb _ c Hc). reflexivity.
  Qed.

  Lemma iter_sound n : forall c, In c (r_ctors r) ->
    memb Nat.eqb (sc_fn c) (avail_iter n r built []) = true -> Avail r built c.
  Proof.
    induction n as [|n IH]; intros c Hc Hm; [discriminate Hm|].
    rewrite avail_iter_S, (avail_step_memb _ c Hc) in Hm. unfold step_pred in Hm.
    apply orb_true_iff in Hm as [Hm|Hm].
    - apply Av_built; [exact Hc|apply memb_nat_In; exact Hm].
    - rewrite forallb_forall in Hm. apply Avail_of_leaves; [exact Hc|].
      intros l Hl. specialize (Hm l Hl). destruct l as [k [|]|k [|]]; cbn [LeafP leaf_avail] in *; try exact I.
      + destruct (nearest_provider r (sc_orig c) k) as [c'|] eqn:E; [|discriminate].
        exists c'. split; [reflexivity|]. apply IH; [eapply nearest_provider_In; eauto|exact Hm].
      + rewrite forallb_forall in Hm. intros c' Hc'. apply IH; [eapply feeders_In; eauto|apply Hm, Hc'].
  Qed.

  Lemma Avail_complete c : Avail r built c -> memb Nat.eqb (sc_fn c) (avail_set r built) = true.
  Proof.
    induction 1 as [c Hc Hb|c Hc Hs1 Hs2 IHs Hg IHg];
      rewrite <- (avail_set_fixed r built), (avail_step_memb _ c Hc); unfold step_pred; apply orb_true_iff.
    - left. apply memb_nat_In. exact Hb.
    - right. apply forallb_forall. intros l Hl. destruct l as [k [|]|k [|]]; cbn [leaf_avail]; try reflexivity.
      + destruct (nearest_provider r (sc_orig c) k) as [c'|] eqn:E.
        * apply (IHs k c' Hl E).
        * exfalso. exact (Hs1 k Hl E).
      + apply forallb_forall. intros c' Hc'. apply (IHg k c' Hl Hc').
  Qed.

  (* MAIN 1: the computed set is exactly the inductively defined one *)
  Theorem avail_set_char c : In c (r_ctors r) ->
    (memb Nat.eqb (sc_fn c) (avail_set r built) = true <-> Avail r built c).
  Proof.
    intros Hc. split; [apply iter_sound; exact Hc|apply Avail_complete].
  Qed.

  Corollary avail_ctor_char c : In c (r_ctors r) -> (avail_ctor r built c = true <-> Avail r built c).
  Proof. apply avail_set_char. Qed.

  Theorem avail_leaf_char v l : avail_leaf r built v l = true <-> LeafP r built v l.
  Proof.
    unfold avail_leaf. destruct l as [k [|]|k [|]]; cbn [leaf_avail LeafP]; try tauto.
    - destruct (nearest_provider r v k) as [c|] eqn:E.
      + rewrite (avail_set_char c (nearest_provider_In _ _ _ _ E)). split.
        * intros H. exists c. auto.
        * intros (c' & [= <-] & H). exact H.
      + split; [discriminate|]. intros (c' & H & _). discriminate H.
    - rewrite forallb_forall. split.
      + intros H c Hc. apply avail_set_char; [eapply feeders_In; eauto|apply H, Hc].
      + intros H c Hc. apply avail_set_char; [eapply feeders_In; eauto|apply H, Hc].
  Qed.

  (* least: any set closed under the rules contains the available constructors *)
  Theorem avail_set_least (S : list fnid) :
    fsub (avail_step r built S) S -> fsub (avail_set r built) S.
  Proof.
    intros Hcl. unfold avail_set. generalize (Datatypes.S (length (r_ctors r))). intros n.
    induction n as [|n IH]; [apply fsub_nil|].
    rewrite avail_iter_S. eapply fsub_trans; [|exact Hcl]. apply avail_step_mono. exact IH.
  Qed.
End Char.
Print Assumptions avail_set_char.
Print Assumptions avail_leaf_char.
Print Assumptions avail_ctor_unfold.
Print Assumptions avail_set_least.

(* ===================================================================== *)
(* Part 1b : every declared leaf is in the build sequence                 *)
(* ===================================================================== *)

(* ---------- every declared leaf is built ---------- *)

Fixpoint param_ind2 (P : param -> Prop)
  (HS : forall k o, P (PSingle k o)) (HG : forall k s, P (PGroup k s))
  (HO : forall fs, Forall P fs -> P (PObj fs)) (p : param) : P p :=
  match p with
  | PSingle k o => HS k o
  | PGroup k s => HG k s
  | PObj fs => HO fs ((fix go (l : list param) : Forall P l :=
                         match l with
                         | [] => Forall_nil P
                         | x :: t => Forall_cons x (param_ind2 P HS HG HO x) (go t)
                         end) fs)
  end.

Definition obj_go := fix go (off : nat) (l : list param) : list nat * list nat :=
  match l with
  | [] => ([], [])
  | f :: t => let r := go (off + nleaves f) t in
              if is_soft_group f then (fst r, off :: snd r)
              else (build_order off f ++ fst r, snd r)
  end.

Definition obj_leaves := fix go (l : list param) : list pleaf :=
  match l with [] => [] | x :: t => decl_leaves x ++ go t end.

Lemma build_order_obj off fs : build_order off (PObj fs) = fst (obj_go off fs) ++ snd (obj_go off fs).
Proof. reflexivity. Qed.

Lemma nleaves_obj fs : nleaves (PObj fs) = length (obj_leaves fs).
Proof. reflexivity. Qed.

Definition covers (p : param) : Prop :=
  forall off i, off <= i < off + nleaves p -> In i (build_order off p).

Lemma obj_cover fs : Forall covers fs -> forall off i,
  off <= i < off + length (obj_leaves fs) ->
  In i (fst (obj_go off fs)) \/ In i (snd (obj_go off fs)).
Proof.
  induction 1 as [|f t Hf Ht IH]; intros off i Hi; [cbn in Hi; lia|].
  change (obj_leaves (f :: t)) with (decl_leaves f ++ obj_leaves t) in Hi.
  rewrite app_length in Hi. fold (nleaves f) in Hi.
  change (obj_go off (f :: t)) with
    (let r := obj_go (off + nleaves f) t in
     if is_soft_group f then (fst r, off :: snd r) else (build_order off f ++ fst r, snd r)).
  cbv zeta.
  destruct (Nat.lt_ge_cases i (off + nleaves f)) as [Hlt|Hge].
  - destruct (is_soft_group f) eqn:Es; cbn [fst snd].
    + right. left. destruct f as [k o|k [|]|fs]; try discriminate Es. unfold nleaves in Hlt. cbn in Hlt. lia.
    + left. apply in_or_app. left. apply Hf. lia.
  - destruct (IH (off + nleaves f) i) as [H|H]; [lia| |];
      destruct (is_soft_group f); cbn [fst snd].
    + left; exact H.
    + left; apply in_or_app; right; exact H.
    + right; right; exact H.
    + right; exact H.
Qed.

Lemma build_order_cover p : covers p.
Proof.
  induction p as [k o|k s|fs IH] using param_ind2; intros off i Hi.
  - unfold nleaves in Hi. cbn in Hi. left. lia.
  - unfold nleaves in Hi. cbn in Hi. left. lia.
  - rewrite build_order_obj. apply in_or_app. rewrite nleaves_obj in Hi. apply obj_cover; assumption.
Qed.

Lemma build_order_list_cover : forall ps off i,
  off <= i < off + length (decl_leaves_list ps) -> In i (build_order_list off ps).
Proof.
  induction ps as [|p ps IH]; intros off i Hi; [cbn in Hi; lia|].
  cbn [decl_leaves_list build_order_list] in *. rewrite app_length in Hi. fold (nleaves p) in Hi.
  apply in_or_app. destruct (Nat.lt_ge_cases i (off + nleaves p)) as [Hlt|Hge].
  - left. apply build_order_cover. lia.
  - right. apply IH. lia.
Qed.

Theorem build_seq_complete sg l : In l (sig_leaves sg) -> In l (sig_build_seq sg).
Proof.
  intros H. apply (In_nth _ _ dummy_leaf) in H as (i & Hi & <-).
  unfold sig_build_seq.
  apply (in_map (fun j => nth j (sig_leaves sg) dummy_leaf) (sig_order sg) i).
  unfold sig_order, sig_leaves in *. apply build_order_list_cover. lia.
Qed.
Print Assumptions build_seq_complete.

(* ===================================================================== *)
(* Part 2 : code 404 — a constructor with a directly missing required     *)
(*          dependency is never executed                                   *)
(* ===================================================================== *)

(* ---------- the decorated caches are written for decorated keys only ---------- *)

Definition dc (c : scope) := (s_dvalues c, s_dgroups c).

Definition hasdc (st : state) (v : sid) (k : key) : Prop :=
  alookup key_eqb k (s_dvalues (get_scope st v)) <> None \/
  alookup key_eqb k (s_dgroups (get_scope st v)) <> None.

(* an entry for k in the decorated caches of scope v only if some decorator
   registered in v decorates k *)
Definition DVI (st : state) : Prop :=
  forall v k, hasdc st v k ->
  exists d, d < length (st_decs st) /\ d_home (get_dec st d) = v /\
            memb key_eqb k (dec_keys (d_sig (get_dec st d))) = true.

Lemma DVI_ext st st' :
  (forall v, dc (get_scope st' v) = dc (get_scope st v)) ->
  (forall d, d < length (st_decs st) -> d < length (st_decs st') /\ get_dec st' d = get_dec st d) ->
  DVI st -> DVI st'.
Proof.
  intros Hdc Hd H v k Hk. pose proof (Hdc v) as Ev. unfold dc in Ev. injection Ev as E1 E2.
  unfold hasdc in Hk. rewrite E1, E2 in Hk. destruct (H v k Hk) as (d & Hd1 & Hh & Hm).
  destruct (Hd d Hd1) as [Hd2 E]. exists d. rewrite E. auto.
Qed.

Lemma DVI_skel st st' :
  skel st' = skel st -> (forall v, dc (get_scope st' v) = dc (get_scope st v)) -> DVI st -> DVI st'.
Proof.
  intros E Hdc H v k Hk. pose proof (Hdc v) as Ev. unfold dc in Ev. injection Ev as E1 E2.
  unfold hasdc in Hk. rewrite E1, E2 in Hk. destruct (H v k Hk) as (d & Hd & Hh & Hm).
  apply skel_eq_fields in E. destruct E. exists d. rewrite sf_dlen, sf_dhome, sf_dsig. auto.
Qed.

Lemma DVI_pres st st' :
  pres st st' -> (forall v, dc (get_scope st' v) = dc (get_scope st v)) -> DVI st -> DVI st'.
Proof. intros [E _]. apply DVI_skel. exact E. Qed.

Definition dkeys (rs : list rleaf) : list key :=
  flat_map (fun r => match r with
                     | QSingle (k :: _) => [k]
                     | QGroup (k :: _) _ => [k]
                     | _ => []
                     end) rs.

Lemma commit_decorated_dc dry f e lens k : forall rs slot c,
  (alookup key_eqb k (s_dvalues (commit_decorated dry f e lens slot rs c)) <> None \/
   alookup key_eqb k (s_dgroups (commit_decorated dry f e lens slot rs c)) <> None) ->
  (alookup key_eqb k (s_dvalues c) <> None \/ alookup key_eqb k (s_dgroups c) <> None) \/
  In k (dkeys rs).
Proof.
  induction rs as [|q rs IH]; intros slot c H; cbn [commit_decorated] in H; [left; exact H|].
  destruct q as [[|k0 ks0]|[|k0 ks0] fl]; apply IH in H; cbn [dkeys flat_map app] in *;
    fold (dkeys rs) in *.
  - exact H.
  - destruct H as [H|H]; [|right; right; exact H].
    cbn [s_dvalues s_dgroups sc_set_dvalues] in H. rewrite alookup_aset in H.
    destruct (key_eqb k k0) eqn:E.
    + right. left. apply key_eqb_eq in E. auto.
    + left. exact H.
  - exact H.
  - destruct H as [H|H]; [|right; right; exact H].
    cbn [s_dvalues s_dgroups sc_set_dgroups] in H. rewrite alookup_aset in H.
    destruct (key_eqb k k0) eqn:E.
    + right. left. apply key_eqb_eq in E. auto.
    + left. exact H.
Qed.

Lemma commit_results_dc dry f e lens : forall rs slot c,
  dc (commit_results dry f e lens slot rs c) = dc c.
Proof.
  induction rs as [|q rs IH]; intros slot c; cbn [commit_results]; [reflexivity|].
  destruct q as [ks0|ks0 [|]]; rewrite IH; reflexivity.
Qed.

Lemma dc_upd_scope st s f :
  (forall c, dc (f c) = dc c) -> forall v, dc (get_scope (upd_scope st s f) v) = dc (get_scope st v).
Proof.
  intros H v. destruct (P_Once.get_scope_upd_cases st s f v) as [E|[-> E]]; rewrite E; [reflexivity|apply H].
Qed.

(* ---------- the bridge: a passed shallow check refutes directly_missing ---------- *)

Lemma single_only_KI st r k :
  RegRel st r -> P_Term.KI st -> k_group k = 0 -> single_only r k.
Proof.
  intros HR HK Hk c Hc. rewrite (rr_ctors HR) in Hc. apply in_map_iff in Hc as (cn & <- & Hcn).
  apply (In_nth _ _ dummy_cnode) in Hcn as (n & _ & <-). fold (get_node st n).
  unfold feeds_group. cbn [sc_sig sctor_of].
  destruct (memb key_eqb k (group_keys (c_sig (get_node st n)))) eqn:E; [|reflexivity].
  exfalso. apply memb_key_In in E. unfold group_keys in E. apply in_flat_map in E as (q & Hq & Hkq).
  destruct q as [ks|ks fl]; [destruct Hkq|].
  pose proof (P_Term.ki_nsig HK n) as W. unfold P_Term.wf_sig in W. apply andb_true_iff in W as [_ W].
  rewrite forallb_forall in W. specialize (W _ Hq). cbn [P_Term.rleaf_ok] in W.
  rewrite forallb_forall in W. specialize (W _ Hkq). rewrite Hk in W. discriminate W.
Qed.

Lemma find_map_none_flat {A B} (f : A -> list B) l :
  find_map (fun x => hd_error (f x)) l = None -> flat_map f l = [].
Proof.
  induction l as [|x l IH]; cbn [find_map flat_map]; [reflexivity|].
  destruct (f x) as [|y t]; cbn [hd_error]; [intros H; cbn; apply IH; exact H|discriminate].
Qed.

Lemma has_provider_nearest st r v k :
  RegRel st r -> single_only r k -> nearest_provider r v k = None -> has_provider st v k = false.
Proof.
  intros HR Hs Hn. unfold has_provider.
  pose proof (providers_on_path_single st r v k HR Hs) as E.
  unfold nearest_provider in Hn. rewrite (find_map_none_flat _ _ Hn) in E.
  destruct (providers_on_path st v k); [reflexivity|discriminate E].
Qed.

Lemma decorated_on_path st r v k d :
  RegRel st r -> TInv st -> d < length (st_decs st) -> d_home (get_dec st d) = v ->
  memb key_eqb k (dec_keys (d_sig (get_dec st d))) = true ->
  decorators_on_path r v k None <> [].
Proof.
  intros HR HT Hd Hh Hm E. rewrite (decorators_on_path_reg st r v k HR) in E.
  apply map_eq_nil in E. unfold decs_on_path in E.
  destruct (path_head st v (ti_nonempty HT)) as (t & Ep). rewrite Ep in E. cbn [flat_map] in E.
  apply app_eq_nil in E as [E _].
  assert (L : alookup key_eqb k (s_decorators (get_scope st v)) = Some d)
    by (apply (rr_decorators HR); auto).
  rewrite L in E. discriminate E.
Qed.

Theorem shallow_not_directly_missing st r c :
  P_Term.G st -> RegRel st r -> DVI st ->
  forallb P_Term.leaf_ok (sig_leaves (sc_sig c)) = true ->
  shallow_missing st (sc_orig c) (sig_leaves (sc_sig c)) = [] ->
  directly_missing r c = false.
Proof.
  intros ((HT & _) & HK & _) HR HD Hl Hs. unfold directly_missing.
  destruct (existsb _ (sig_leaves (sc_sig c))) eqn:E; [|reflexivity]. exfalso.
  apply existsb_exists in E as (l & Hin & Hb).
  rewrite forallb_forall in Hl. specialize (Hl l Hin).
  destruct l as [k [|]|k s]; try discriminate Hb.
  cbn [P_Term.leaf_ok] in Hl. apply Nat.eqb_eq in Hl.
  apply andb_true_iff in Hb as [Hb1 Hb2].
  assert (Hn : nearest_provider r (sc_orig c) k = None)
    by (destruct (nearest_provider r (sc_orig c) k); [discriminate Hb1|reflexivity]).
  assert (Hd : decorators_on_path r (sc_orig c) k None = [])
    by (destruct (decorators_on_path r (sc_orig c) k None); [reflexivity|discriminate Hb2]).
  unfold shallow_missing in Hs.
  assert (Hk : (if has_provider st (sc_orig c) k ||
                   is_some (alookup key_eqb k (s_dvalues (get_scope st (sc_orig c))))
                then [] else [k]) = []).
  { clear -Hs Hin. induction (sig_leaves (sc_sig c)) as [|x t IH]; [destruct Hin|].
    cbn [flat_map] in Hs. apply app_eq_nil in Hs as [H1 H2].
    destruct Hin as [->|Hin]; [exact H1|apply IH; assumption]. }
  rewrite (has_provider_nearest st r _ k HR (single_only_KI st r k HR HK Hl) Hn) in Hk.
  cbn [orb] in Hk.
  destruct (alookup key_eqb k (s_dvalues (get_scope st (sc_orig c)))) as [a|] eqn:Ea; [|discriminate Hk].
  destruct (HD (sc_orig c) k) as (d & Hd1 & Hd2 & Hd3).
  { left. rewrite Ea. discriminate. }
  exact (decorated_on_path st r _ k d HR HT Hd1 Hd2 Hd3 Hd).
Qed.
Print Assumptions shallow_not_directly_missing.

(* ---------- a cached single value has a called provider in that scope ---------- *)

Definition singles (rs : list rleaf) : list key :=
  flat_map (fun q => match q with QSingle ks => ks | QGroup _ _ => [] end) rs.

Definition CV (st : state) : Prop :=
  forall bsc k a, alookup key_eqb k (s_values (get_scope st bsc)) = Some a ->
  exists n, n < length (st_nodes st) /\ c_called (get_node st n) = true /\
            c_home (get_node st n) = bsc /\
            memb key_eqb k (single_keys (c_sig (get_node st n))) = true.

Lemma CV_ext st st' :
  (forall v, s_values (get_scope st' v) = s_values (get_scope st v)) ->
  (forall n, n < length (st_nodes st) ->
             n < length (st_nodes st') /\
             c_home (get_node st' n) = c_home (get_node st n) /\
             c_sig (get_node st' n) = c_sig (get_node st n) /\
             (c_called (get_node st n) = true -> c_called (get_node st' n) = true)) ->
  CV st -> CV st'.
Proof.
  intros Hv Hn H bsc k a Hk. rewrite Hv in Hk. destruct (H bsc k a Hk) as (n & A1 & A2 & A3 & A4).
  destruct (Hn n A1) as (B1 & B2 & B3 & B4). exists n. rewrite B2, B3. auto.
Qed.

Lemma commit_results_values_inv dry f e lens k a : forall rs slot c,
  alookup key_eqb k (s_values (commit_results dry f e lens slot rs c)) = Some a ->
  alookup key_eqb k (s_values c) = Some a \/ memb key_eqb k (singles rs) = true.
Proof.
  induction rs as [|q rs IH]; intros slot c H; cbn [commit_results] in H; [left; exact H|].
  destruct q as [ks|ks [|]]; apply IH in H; cbn [singles flat_map]; fold (singles rs).
  - rewrite memb_key_app. destruct H as [H|H]; [|right; rewrite H; apply orb_true_r].
    cbn [s_values sc_set_values] in H. rewrite alookup_fold_aset in H.
    destruct (memb key_eqb k ks); [right; reflexivity|left; exact H].
  - exact H.
  - exact H.
Qed.

(* both invariants of this part *)
Definition I2 (st : state) : Prop := DVI st /\ CV st.

(* ---------- what the events of a resolution satisfy ---------- *)

Definition ev404 (r : registry) (ev : event) : Prop :=
  match ev with
  | EExec f _ RoleCtor _ _ =>
      exists c, In c (r_ctors r) /\ sc_fn c = f /\ directly_missing r c = false
  | _ => True
  end.

Section S2.
  Variables (cfg : config) (b : beh) (du : dur) (r : registry).

  (* a step that leaves the skeleton, the decorated caches and the single
     values alone and resets no called flag *)
  Definition quiet (X Y : state) : Prop :=
    pres X Y /\ (forall v, dc (get_scope Y v) = dc (get_scope X v)) /\
    (forall v, s_values (get_scope Y v) = s_values (get_scope X v)) /\
    (forall n, c_called (get_node X n) = true -> c_called (get_node Y n) = true) /\
    exists new, st_log Y = new ++ st_log X /\ Forall (ev404 r) new.

  Definition R2 (st st' : state) : Prop :=
    I2 st' /\ exists new, st_log st' = new ++ st_log st /\ Forall (ev404 r) new.

  Lemma quiet_refl X : quiet X X.
  Proof.
    split; [apply pres_refl|]. split; [reflexivity|]. split; [reflexivity|]. split; [auto|].
    exists []. split; [reflexivity|constructor].
  Qed.

  Lemma quiet_trans X Y Z : quiet X Y -> quiet Y Z -> quiet X Z.
  Proof.
    intros (P1 & D1 & V1 & C1 & n1 & L1 & F1) (P2 & D2 & V2 & C2 & n2 & L2 & F2).
    split; [eapply pres_trans; eauto|]. split; [intros v; rewrite D2; apply D1|].
    split; [intros v; rewrite V2; apply V1|]. split; [auto|].
    exists (n2 ++ n1). split; [rewrite L2, L1, app_assoc; reflexivity|apply Forall_app; auto].
  Qed.

  Lemma quiet_set_onstack X n x : quiet X (set_onstack X n x).
  Proof.
    split; [apply pres_set_onstack|]. split; [reflexivity|]. split; [reflexivity|].
    split; [intros m; rewrite P_Term.called_set_onstack; auto|].
    exists []. split; [reflexivity|constructor].
  Qed.
  Lemma quiet_set_called X n : quiet X (set_called X n).
  Proof.
    split; [apply pres_set_called|]. split; [reflexivity|]. split; [reflexivity|].
    split; [intros m; apply P_Term.called_set_mono|].
    exists []. split; [reflexivity|constructor].
  Qed.

  Lemma quiet_set_dstate X d x : quiet X (set_dstate X d x).
  Proof.
    split; [apply pres_set_dstate|]. split; [reflexivity|]. split; [reflexivity|]. split; [auto|].
    exists []. split; [reflexivity|constructor].
  Qed.

  Lemma quiet_callback X has f c start : quiet X (callback has f c start X).
  Proof.
    split; [apply pres_callback|]. split; [intros v; rewrite P_Once.get_scope_callback; reflexivity|].
    split; [intros v; rewrite P_Once.get_scope_callback; reflexivity|].
    split; [intros n; rewrite P_Once.get_node_callback; auto|].
    rewrite P_Once.log_callback. eexists. split; [reflexivity|].
    destruct has; repeat constructor.
  Qed.

  Lemma quiet_run_fn X rl f args :
    (rl = RoleCtor -> exists c, In c (r_ctors r) /\ sc_fn c = f /\ directly_missing r c = false) ->
    quiet X (snd (run_fn cfg b du rl f args X)).
  Proof.
    intros H. split; [apply pres_run_fn|].
    split; [intros v; rewrite (P_Term.deq_scope v (P_Term.deq_run_fn cfg b du rl f args X)); reflexivity|].
    split; [intros v; rewrite (P_Term.deq_scope v (P_Term.deq_run_fn cfg b du rl f args X)); reflexivity|].
    split; [intros n; rewrite (P_Term.deq_node n (P_Term.deq_run_fn cfg b du rl f args X)); auto|].
    unfold run_fn. destruct (cfg_dry cfg); cbn [snd].
    - exists []. split; [reflexivity|constructor].
    - eexists [_]. split; [reflexivity|]. constructor; [|constructor].
      destruct rl; cbn [ev404]; try exact I. apply H. reflexivity.
  Qed.

  Lemma CV_pres X Y :
    pres X Y -> (forall v, s_values (get_scope Y v) = s_values (get_scope X v)) ->
    (forall n, c_called (get_node X n) = true -> c_called (get_node Y n) = true) -> CV X -> CV Y.
  Proof.
    intros [E _] V1 C1. apply CV_ext; [exact V1|]. intros n Hn.
    apply skel_eq_fields in E. destruct E. rewrite sf_nlen, sf_chome, sf_csig. auto.
  Qed.

  Lemma I2_quiet X Y : quiet X Y -> I2 X -> I2 Y.
  Proof.
    intros (P1 & D1 & V1 & C1 & _) [HD HC].
    split; [eapply DVI_pres; eauto|eapply CV_pres; eauto].
  Qed.

  Lemma R2_refl st : I2 st -> R2 st st.
  Proof. intros H. split; [exact H|]. exists []. split; [reflexivity|constructor]. Qed.

  Lemma R2_trans x y z : R2 x y -> R2 y z -> R2 x z.
  Proof.
    intros (_ & n1 & L1 & F1) (D2 & n2 & L2 & F2). split; [exact D2|].
    exists (n2 ++ n1). split; [rewrite L2, L1, app_assoc; reflexivity|apply Forall_app; auto].
  Qed.

  Lemma R2_quiet st X Y : R2 st X -> quiet X Y -> R2 st Y.
  Proof.
    intros H Q. eapply R2_trans; [exact H|]. split; [eapply I2_quiet; [exact Q|apply H]|apply Q].
  Qed.

  Lemma quiet_R2 X Y : I2 X -> quiet X Y -> R2 X Y.
  Proof. intros H Q. eapply R2_quiet; [apply R2_refl; exact H|exact Q]. Qed.

  Lemma RegRel_pres st st' : pres st st' -> RegRel st r -> RegRel st' r.
  Proof. intros [E _]. apply RegRel_skel. symmetry. exact E. Qed.

  Definition P2 (t : task) (st : state) (o : out) : Prop :=
    P_Term.tpre t st -> P_Term.G st -> RegRel st r -> I2 st -> R2 st (snd o).

  Section Step2.
    Variable fuel : nat.
    Let rec := eval cfg b du fuel.
    Hypothesis IH : forall t st, P2 t st (rec t st).

    Let F_PT : forall t st, P_Term.PT t st (rec t st) := P_Term.eval_PT cfg b du fuel.
    Let F_pres : forall t st, pres st (snd (rec t st)) := eval_pres cfg b du fuel.

    Lemma s2_call_ctors : forall ns st,
      (forall n, In n ns -> n < length (st_nodes st)) -> P_Term.G st -> RegRel st r -> I2 st ->
      R2 st (snd (call_ctors rec ns st)).
    Proof.
      induction ns as [|n t IHn]; intros st Hr HG HR HD; cbn [call_ctors].
      - apply R2_refl. exact HD.
      - destruct (F_PT (TCallCtor n) st) as [Hp H]. specialize (H (Hr n (or_introl eq_refl)) HG).
        pose proof (IH (TCallCtor n) st (Hr n (or_introl eq_refl)) HG HR HD) as H2.
        destruct (rec (TCallCtor n) st) as [[x|e|a] st1]; cbn [fst snd] in *; try exact H2.
        destruct H as (G1 & _). destruct (P_Term.pres_lens _ _ Hp) as (L1 & _ & _).
        eapply R2_trans; [exact H2|]. apply IHn.
        + intros m Hm. rewrite L1. apply Hr. right. exact Hm.
        + exact G1.
        + eapply RegRel_pres; eauto.
        + apply H2.
    Qed.

    Lemma s2_call_group_decs k : forall bs st, P_Term.G st -> RegRel st r -> I2 st ->
      R2 st (snd (call_group_decs rec k bs st)).
    Proof.
      induction bs as [|s t IHb]; intros st HG HR HD; cbn [call_group_decs].
      - apply R2_refl. exact HD.
      - destruct (alookup key_eqb k (s_decorators (get_scope st s))) as [d|] eqn:E; [|apply IHb; assumption].
        destruct (dstate_eqb (d_state (get_dec st d)) DOnStack) eqn:E2; [apply IHb; assumption|].
        assert (Hpre : P_Term.tpre (TCallDec d) st).
        { split; [eapply P_Term.dec_range; [apply HG|exact E]|]. apply P_Once.dstate_eqb_false. exact E2. }
        destruct (F_PT (TCallDec d) st) as [Hp H]. specialize (H Hpre HG).
        pose proof (IH (TCallDec d) st Hpre HG HR HD) as H2.
        destruct (rec (TCallDec d) st) as [[x|e|a] st1]; cbn [fst snd] in *; try exact H2.
        destruct H as (G1 & _).
        eapply R2_trans; [exact H2|]. apply IHb; [exact G1|eapply RegRel_pres; eauto|apply H2].
    Qed.

    Lemma s2_build_list v : forall ls st, forallb P_Term.leaf_ok ls = true ->
      P_Term.G st -> RegRel st r -> I2 st -> R2 st (snd (build_list rec v ls st)).
    Proof.
      induction ls as [|l t IHl]; intros st Hl HG HR HD; cbn [build_list].
      - apply R2_refl. exact HD.
      - cbn [forallb] in Hl. apply andb_true_iff in Hl as [Hl Ht].
        destruct (F_PT (TLeaf v l) st) as [Hp H]. specialize (H Hl HG).
        pose proof (IH (TLeaf v l) st Hl HG HR HD) as H2.
        destruct (rec (TLeaf v l) st) as [[x|e|a] st1]; cbn [fst snd] in *; try exact H2.
        destruct H as (G1 & _).
        assert (H3 : R2 st1 (snd (build_list rec v t st1)))
          by (apply IHl; [exact Ht|exact G1|eapply RegRel_pres; eauto|apply H2]).
        destruct (build_list rec v t st1) as [[x2|e2|a2] st2]; cbn [fst snd] in *;
          eapply R2_trans; eauto.
    Qed.

    Lemma s2_build_single v k opt st : k_group k = 0 ->
      P_Term.G st -> RegRel st r -> I2 st -> R2 st (snd (build_single rec v k opt st)).
    Proof.
      intros Hk HG HR HD. unfold build_single.
      destruct (find_dec st v k) as [[d bsc]|] eqn:EF.
      - apply P_Term.find_dec_inv in EF as [ED EO].
        assert (Hpre : P_Term.tpre (TCallDec d) st) by (split; [eapply P_Term.dec_range; [apply HG|exact ED]|exact EO]).
        pose proof (IH (TCallDec d) st Hpre HG HR HD) as H2.
        destruct (rec (TCallDec d) st) as [[x|e|a] st1]; cbn [fst snd] in *; try exact H2.
        destruct (alookup key_eqb k (s_dvalues (get_scope st1 bsc))); exact H2.
      - destruct (find_map _ (path st v)); [apply R2_refl; exact HD|].
        destruct (find_provider st (path st v) k) as [a|bsc ns|] eqn:EP.
        + apply R2_refl. exact HD.
        + pose proof (P_Events.find_provider_PProv _ _ _ _ _ EP) as Ens.
          assert (Hr : forall n, In n ns -> n < length (st_nodes st)).
          { intros n Hn. rewrite Ens in Hn. eapply P_Term.prov_range; [apply HG|exact Hn]. }
          pose proof (s2_call_ctors ns st Hr HG HR HD) as H2.
          destruct (call_ctors rec ns st) as [[|c e|a] st1]; cbn [fst snd] in *.
          * destruct (alookup key_eqb k (s_values (get_scope st1 bsc))); exact H2.
          * destruct (opt && has_missingdeps e); exact H2.
          * exact H2.
        + destruct opt; apply R2_refl; exact HD.
    Qed.

    Lemma s2_build_group v k soft st :
      P_Term.G st -> RegRel st r -> I2 st -> R2 st (snd (build_group rec v k soft st)).
    Proof.
      intros HG HR HD. unfold build_group.
      destruct (P_Term.T_call_group_decs rec F_PT k (rev (path st v)) st HG) as (G1 & _ & _).
      pose proof (pres_call_group_decs rec F_pres k (rev (path st v)) st) as Hp.
      pose proof (s2_call_group_decs k (rev (path st v)) st HG HR HD) as H1.
      destruct (call_group_decs rec k (rev (path st v)) st) as [[|c e|a] st1]; cbn [fst snd] in *; try exact H1.
      destruct (find_map _ (path st1 v)); [exact H1|].
      destruct soft; [exact H1|].
      assert (Hr : forall n, In n (providers_on_path st1 v k) -> n < length (st_nodes st1)).
      { intros n Hn. destruct G1 as ([_ HB] & _). eapply pop_bound; eauto. }
      pose proof (s2_call_ctors _ st1 Hr G1 (RegRel_pres _ _ Hp HR) (proj1 H1)) as H2.
      destruct (call_ctors rec (providers_on_path st1 v k) st1) as [[|c e|a] st2]; cbn [fst snd] in *;
        eapply R2_trans; eauto.
    Qed.

    Lemma node_in_reg st n : RegRel st r -> n < length (st_nodes st) ->
      In (sctor_of (get_node st n)) (r_ctors r).
    Proof.
      intros HR Hn. rewrite (rr_ctors HR). apply in_map. apply nth_In. exact Hn.
    Qed.

    Lemma s2_call_ctor n st : P2 (TCallCtor n) st (call_ctor cfg b du rec n st).
    Proof.
      intros Hn HG HR HD. cbn [P_Term.tpre] in Hn. unfold call_ctor.
      destruct (c_called (get_node st n)); [apply R2_refl; exact HD|].
      destruct (c_onstack (get_node st n)); [apply R2_refl; exact HD|].
      set (c := get_node st n). set (st0 := set_onstack st n true).
      pose proof (quiet_set_onstack st n true) as Q0. fold st0 in Q0.
      assert (G0 : P_Term.G st0) by (apply P_Term.G_push_node; exact HG).
      assert (R0 : RegRel st0 r) by (eapply RegRel_pres; [apply Q0|exact HR]).
      assert (D0 : I2 st0) by (eapply I2_quiet; eauto).
      destruct (shallow_missing st0 (c_orig c) (sig_leaves (c_sig c))) as [|k0 ks] eqn:ES.
      2:{ cbn [snd]. apply quiet_R2; [exact HD|]. eapply quiet_trans; [exact Q0|apply quiet_set_onstack]. }
      assert (Hsig : P_Term.wf_sig (c_sig c) = true) by (destruct HG as (_ & HK & _); apply (P_Term.ki_nsig HK)).
      assert (Hpre : P_Term.tpre (TLeaves (c_orig c) (sig_build_seq (c_sig c))) st0)
        by (apply P_Term.wf_sig_build_seq; exact Hsig).
      pose proof (IH _ st0 Hpre G0 R0 D0) as H1.
      pose proof (F_pres (TLeaves (c_orig c) (sig_build_seq (c_sig c))) st0) as Hp1.
      assert (H01 : R2 st (snd (rec (TLeaves (c_orig c) (sig_build_seq (c_sig c))) st0)))
        by (eapply R2_trans; [apply quiet_R2; [exact HD|exact Q0]|exact H1]).
      clear H1.
      destruct (rec (TLeaves (c_orig c) (sig_build_seq (c_sig c))) st0) as [[built|e|a] st1]; cbn [fst snd] in *.
      2,3: eapply R2_quiet; [exact H01|apply quiet_set_onstack].
      assert (Hev : RoleCtor = RoleCtor ->
                    exists c', In c' (r_ctors r) /\ sc_fn c' = c_fn c /\ directly_missing r c' = false).
      { intros _. exists (sctor_of c). split; [apply node_in_reg; assumption|]. split; [reflexivity|].
        apply (shallow_not_directly_missing st0 r (sctor_of c) G0 R0 (proj1 D0)).
        - unfold P_Term.wf_sig in Hsig. apply andb_true_iff in Hsig. apply Hsig.
        - exact ES. }
      pose proof (quiet_run_fn st1 RoleCtor (c_fn c) (place (sig_order (c_sig c)) built) Hev) as Q2.
      destruct (run_fn cfg b du RoleCtor (c_fn c) (place (sig_order (c_sig c)) built) st1) as [[o e] st2].
      cbn [snd] in Q2.
      assert (H02 : R2 st st2) by (eapply R2_quiet; eauto).
      destruct o as [lens| |]; [| |destruct (cfg_recover cfg)]; cbn [snd].
      - (* the only writer of the single values *)
        set (st3 := upd_scope st2 (c_home c) (commit_results (cfg_dry cfg) (c_fn c) e lens 0 (sig_rleaves (c_sig c)))).
        assert (P23 : pres st2 st3) by (apply pres_upd_scope; intros c0; apply commit_results_skel).
        assert (P24 : pres st2 (set_called st3 n)) by (eapply pres_trans; [exact P23|apply pres_set_called]).
        assert (P04 : pres st (set_called st3 n)).
        { eapply pres_trans; [apply Q0|]. eapply pres_trans; [exact Hp1|]. eapply pres_trans; [apply Q2|exact P24]. }
        assert (H04 : R2 st (set_called st3 n)).
        { split; [|destruct H02 as (_ & new & L & F); exists new; split; [exact L|exact F]].
          destruct H02 as ((D2 & C2) & _). split.
          - eapply DVI_pres; [exact P24| |exact D2]. intros v.
            change (get_scope (set_called st3 n) v) with (get_scope st3 v).
            apply dc_upd_scope. intros c0. apply commit_results_dc.
          - destruct P04 as [E4 _]. apply skel_eq_fields in E4. destruct E4.
            destruct P24 as [E24 _]. apply skel_eq_fields in E24. destruct E24.
            assert (Hold : forall bsc k a, alookup key_eqb k (s_values (get_scope st2 bsc)) = Some a ->
                      exists n0, n0 < length (st_nodes (set_called st3 n)) /\
                                 c_called (get_node (set_called st3 n) n0) = true /\
                                 c_home (get_node (set_called st3 n) n0) = bsc /\
                                 memb key_eqb k (single_keys (c_sig (get_node (set_called st3 n) n0))) = true).
            { intros bsc k a Hk. destruct (C2 bsc k a Hk) as (n0 & A1 & A2 & A3 & A4).
              exists n0. rewrite sf_nlen0, sf_chome0, sf_csig0. split; [exact A1|].
              split; [apply P_Term.called_set_mono; exact A2|]. auto. }
            intros bsc k a Hk. change (get_scope (set_called st3 n) bsc) with (get_scope st3 bsc) in Hk.
            unfold st3 in Hk.
            destruct (P_Once.get_scope_upd_cases st2 (c_home c)
                        (commit_results (cfg_dry cfg) (c_fn c) e lens 0 (sig_rleaves (c_sig c))) bsc) as [E|[-> E]];
              rewrite E in Hk; [eapply Hold; exact Hk|].
            apply commit_results_values_inv in Hk as [Hk|Hk]; [eapply Hold; exact Hk|].
            exists n. rewrite sf_nlen, sf_chome, sf_csig. split; [exact Hn|].
            split; [apply P_Term.called_set_same; unfold st3; cbn [st_nodes upd_scope set_scopes];
                    destruct (P_Term.pres_lens _ _ (pres_trans _ _ _ (proj1 Q0) (pres_trans _ _ _ Hp1 (proj1 Q2)))) as (LN & _ & _);
                    rewrite LN; exact Hn|].
            split; [reflexivity|exact Hk]. }
        eapply R2_quiet; [exact H04|].
        eapply quiet_trans; [apply quiet_callback|apply quiet_set_onstack].
      - eapply R2_quiet; [exact H02|]. eapply quiet_trans; [apply quiet_callback|apply quiet_set_onstack].
      - eapply R2_quiet; [exact H02|]. eapply quiet_trans; [apply quiet_callback|apply quiet_set_onstack].
      - eapply R2_quiet; [exact H02|]. eapply quiet_trans; [apply quiet_callback|apply quiet_set_onstack].
    Qed.

    Lemma G_push_dec' st d : d < length (st_decs st) -> P_Term.G st -> P_Term.G (set_dstate st d DOnStack).
    Proof. apply P_Term.G_push_dec. Qed.

    Lemma s2_call_dec d st : P2 (TCallDec d) st (call_dec cfg b du rec d st).
    Proof.
      intros [Hd Hns] HG HR HD. unfold call_dec.
      destruct (dstate_eqb (d_state (get_dec st d)) DCalled); [apply R2_refl; exact HD|].
      set (dn := get_dec st d). set (st0 := set_dstate st d DOnStack).
      pose proof (quiet_set_dstate st d DOnStack) as Q0. fold st0 in Q0.
      assert (G0 : P_Term.G st0) by (apply P_Term.G_push_dec; assumption).
      assert (R0 : RegRel st0 r) by (eapply RegRel_pres; [apply Q0|exact HR]).
      assert (D0 : I2 st0) by (eapply I2_quiet; eauto).
      destruct (shallow_missing st0 (d_home dn) (sig_leaves (d_sig dn))) as [|k0 ks] eqn:ES.
      2:{ cbn [snd]. apply quiet_R2; [exact HD|]. eapply quiet_trans; [exact Q0|apply quiet_set_dstate]. }
      assert (Hsig : P_Term.wf_sig (d_sig dn) = true) by (destruct HG as (_ & HK & _); apply (P_Term.ki_dsig HK)).
      assert (Hpre : P_Term.tpre (TLeaves (d_home dn) (sig_build_seq (d_sig dn))) st0)
        by (apply P_Term.wf_sig_build_seq; exact Hsig).
      pose proof (IH _ st0 Hpre G0 R0 D0) as H1.
      pose proof (F_pres (TLeaves (d_home dn) (sig_build_seq (d_sig dn))) st0) as Hp1.
      assert (H01 : R2 st (snd (rec (TLeaves (d_home dn) (sig_build_seq (d_sig dn))) st0)))
        by (eapply R2_trans; [apply quiet_R2; [exact HD|exact Q0]|exact H1]).
      clear H1.
      destruct (rec (TLeaves (d_home dn) (sig_build_seq (d_sig dn))) st0) as [[built|e|a] st1]; cbn [fst snd] in *.
      2,3: eapply R2_quiet; [exact H01|apply quiet_set_dstate].
      assert (Hev : RoleDec = RoleCtor ->
                    exists c', In c' (r_ctors r) /\ sc_fn c' = d_fn dn /\ directly_missing r c' = false)
        by discriminate.
      pose proof (quiet_run_fn st1 RoleDec (d_fn dn) (place (sig_order (d_sig dn)) built) Hev) as Q2.
      destruct (run_fn cfg b du RoleDec (d_fn dn) (place (sig_order (d_sig dn)) built) st1) as [[o e] st2].
      cbn [snd] in Q2.
      assert (H02 : R2 st st2) by (eapply R2_quiet; eauto).
      assert (P02 : pres st st2).
      { eapply pres_trans; [apply Q0|]. eapply pres_trans; [exact Hp1|apply Q2]. }
      destruct o as [lens| |]; [| |destruct (cfg_recover cfg)]; cbn [snd].
      - (* the only writer of the decorated caches *)
        set (st3 := upd_scope st2 (d_home dn) (commit_decorated (cfg_dry cfg) (d_fn dn) e lens 0 (sig_rleaves (d_sig dn)))).
        assert (P23 : pres st2 st3) by (apply pres_upd_scope; intros c0; apply commit_decorated_skel).
        assert (H03 : R2 st st3).
        { split; [|destruct H02 as (_ & new & L & F); exists new; split; [exact L|exact F]].
          split.
          2:{ eapply CV_pres; [exact P23| |auto|apply H02]. intros v. unfold st3.
              destruct (P_Once.get_scope_upd_cases st2 (d_home dn)
                          (commit_decorated (cfg_dry cfg) (d_fn dn) e lens 0 (sig_rleaves (d_sig dn))) v) as [E|[-> E]];
                rewrite E; [reflexivity|apply P_Term.commit_decorated_values]. }
          intros v k Hk.
          assert (P03 : pres st st3) by (eapply pres_trans; eauto).
          destruct P03 as [E3 _]. apply skel_eq_fields in E3. destruct E3.
          assert (Hold : hasdc st2 v k -> exists d0, d0 < length (st_decs st3) /\ d_home (get_dec st3 d0) = v /\
                     memb key_eqb k (dec_keys (d_sig (get_dec st3 d0))) = true).
          { intros Hk2. destruct (proj1 (proj1 H02) v k Hk2) as (d0 & A1 & A2 & A3).
            destruct P23 as [E23 _]. apply skel_eq_fields in E23. destruct E23.
            exists d0. rewrite sf_dlen0, sf_dhome0, sf_dsig0. auto. }
          unfold hasdc, st3 in Hk.
          destruct (P_Once.get_scope_upd_cases st2 (d_home dn)
                      (commit_decorated (cfg_dry cfg) (d_fn dn) e lens 0 (sig_rleaves (d_sig dn))) v) as [E|[-> E]];
            rewrite E in Hk; [apply Hold; exact Hk|].
          apply commit_decorated_dc in Hk as [Hk|Hk]; [apply Hold; exact Hk|].
          exists d. rewrite sf_dlen, sf_dhome, sf_dsig. split; [exact Hd|]. split; [reflexivity|].
          apply memb_key_In. exact Hk. }
        eapply R2_quiet; [exact H03|].
        eapply quiet_trans; [apply quiet_set_dstate|apply quiet_callback].
      - eapply R2_quiet; [exact H02|]. eapply quiet_trans; [apply quiet_set_dstate|apply quiet_callback].
      - eapply R2_quiet; [exact H02|]. eapply quiet_trans; [apply quiet_set_dstate|apply quiet_callback].
      - eapply R2_quiet; [exact H02|]. eapply quiet_trans; [apply quiet_set_dstate|apply quiet_callback].
    Qed.

    Lemma s2_evalF t st : P2 t st (evalF cfg b du rec t st).
    Proof.
      destruct t as [v [k opt|k soft]|v ls|n|d]; cbn [evalF].
      - intros Hpre HG HR HD. cbn [P_Term.tpre P_Term.leaf_ok] in Hpre. apply Nat.eqb_eq in Hpre.
        apply s2_build_single; assumption.
      - intros _ HG HR HD. apply s2_build_group; assumption.
      - intros Hpre HG HR HD. apply s2_build_list; assumption.
      - apply s2_call_ctor.
      - apply s2_call_dec.
    Qed.
  End Step2.

  Theorem eval_404 fuel : forall t st, P2 t st (eval cfg b du fuel t st).
  Proof.
    induction fuel as [|f IHf]; intros t st; cbn [eval].
    - intros _ _ _ HD. apply R2_refl. exact HD.
    - apply s2_evalF. exact IHf.
  Qed.
End S2.
Print Assumptions eval_404.

(* ---------- operations ---------- *)

Lemma DVI_init : DVI init_state.
Proof. intros v k [H|H]; destruct v as [|[|v]]; cbn in H; congruence. Qed.

Lemma CV_init : CV init_state.
Proof. intros v k a H; destruct v as [|[|v]]; cbn in H; discriminate. Qed.

Lemma score_values c c' : P_Once.score c' = P_Once.score c -> s_values c' = s_values c.
Proof. unfold P_Once.score. intros [= _ -> _ _ _]. reflexivity. Qed.

Lemma CV_new_scope st p : CV st -> CV (new_scope st p).
Proof.
  destruct (P_Once.new_scope_spec st p) as (En & _ & _ & _ & Hs). apply CV_ext.
  - intros v. apply score_values. apply Hs.
  - intros n Hn. unfold get_node. rewrite En. auto.
Qed.

Lemma CV_provide cfg st s0 p : CV st -> CV (snd (provide cfg st s0 p)).
Proof.
  destruct (P_Once.provide_spec cfg st s0 p) as ((_ & _ & _ & _ & Hs) & Hn & _). apply CV_ext.
  - intros v. apply score_values. apply Hs.
  - intros n Hlt. unfold get_node. destruct Hn as [[En _]|[En _]]; rewrite En; [auto|].
    rewrite app_length, app_nth1 by exact Hlt. split; [lia|auto].
Qed.

Lemma CV_decorate st s p : CV st -> CV (snd (decorate st s p)).
Proof.
  destruct (P_Once.decorate_spec st s p) as (En & _ & _ & Hs & _). apply CV_ext.
  - intros v. destruct (Hs v) as [E _]. unfold P_Once.scaches in E. congruence.
  - intros n Hn. unfold get_node. rewrite En. auto.
Qed.

Lemma score_dc c c' : P_Once.score c' = P_Once.score c -> dc c' = dc c.
Proof. unfold P_Once.score, dc. intros [= _ _ -> _ ->]. reflexivity. Qed.

Lemma DVI_new_scope st p : DVI st -> DVI (new_scope st p).
Proof.
  destruct (P_Once.new_scope_spec st p) as (_ & Ed & _ & _ & Hs). apply DVI_ext.
  - intros v. apply score_dc. apply Hs.
  - intros d Hd. unfold get_dec. rewrite Ed. auto.
Qed.

Lemma DVI_provide cfg st s0 p : DVI st -> DVI (snd (provide cfg st s0 p)).
Proof.
  destruct (P_Once.provide_spec cfg st s0 p) as ((Ed & _ & _ & _ & Hs) & _). apply DVI_ext.
  - intros v. apply score_dc. apply Hs.
  - intros d Hd. unfold get_dec. rewrite Ed. auto.
Qed.

Lemma DVI_decorate st s p : DVI st -> DVI (snd (decorate st s p)).
Proof.
  destruct (P_Once.decorate_spec st s p) as (_ & _ & _ & Hs & Hd & _). apply DVI_ext.
  - intros v. destruct (Hs v) as [E _]. unfold P_Once.scaches in E. unfold dc. congruence.
  - intros d Hlt. destruct Hd as [->|[Ed _]]; [auto|]. unfold get_dec. rewrite Ed.
    rewrite app_length, app_nth1 by exact Hlt. split; [lia|reflexivity].
Qed.

Section Ops2.
  Variables (cfg : config) (b : beh) (du : dur).

  Lemma invoke_R2 r st s p :
    P_Term.RI st -> RegRel st r -> I2 st ->
    forallb P_Term.leaf_ok (sig_leaves (ii_sig p)) = true ->
    R2 r st (snd (invoke cfg b du st s p)).
  Proof.
    intros HRI HR HD Hl.
    destruct (P_Once.invoke_shape cfg b du st s p) as [E|(st1 & rr & st2 & Hst1 & Ev & Hsnd)].
    { rewrite E. apply R2_refl. exact HD. }
    assert (H1 : P_Term.RI st1 /\ RegRel st1 r /\ I2 st1 /\ st_log st1 = st_log st).
    { destruct Hst1 as [->| ->]; [auto|].
      split; [apply P_Term.RI_set_verified; exact HRI|].
      split; [eapply RegRel_skel; [|exact HR]; symmetry; apply skel_upd_verified|].
      split; [|reflexivity]. destruct HD as [HD HC]. split.
      - eapply DVI_skel; [apply skel_upd_verified| |exact HD].
        apply dc_upd_scope. reflexivity.
      - revert HC. apply CV_ext; [|auto].
        intros v. destruct (P_Once.get_scope_upd_cases st s (sc_set_verified true) v) as [E|[-> E]];
          rewrite E; reflexivity. }
    destruct H1 as ((S1 & K1 & V1 & Q1) & R1 & D1 & L1).
    assert (G1 : P_Term.G st1) by (split; [exact S1|split; assumption]).
    pose proof (eval_404 cfg b du r (eval_fuel st1) (TLeaves s (sig_build_seq (ii_sig p))) st1
                  (P_Term.leaves_build_seq _ Hl) G1 R1 D1) as H2.
    rewrite Ev in H2. cbn [snd] in H2.
    assert (H02 : R2 r st st2).
    { destruct H2 as (D2 & new & L & F). split; [exact D2|]. exists new. rewrite L, L1. auto. }
    destruct Hsnd as [[-> _]|(built & -> & ->)]; [exact H02|].
    eapply R2_quiet; [exact H02|]. apply quiet_run_fn. discriminate.
  Qed.

  Lemma step_I2 st o :
    P_Term.RI st -> (exists r, RegRel st r) -> P_Term.op_keys_ok o = true ->
    I2 st -> I2 (snd (step cfg b du st o)).
  Proof.
    intros HRI [r HR] Hk HD. destruct o as [q|s p|s p|s p|bk s f]; cbn [step snd].
    - split; [apply DVI_new_scope|apply CV_new_scope]; apply HD.
    - split; [apply DVI_provide|apply CV_provide]; apply HD.
    - split; [apply DVI_decorate|apply CV_decorate]; apply HD.
    - apply (invoke_R2 r st s p HRI HR HD Hk).
    - exact HD.
  Qed.
End Ops2.

(* ---------- the history-level invariant ---------- *)

Definition CH2 (st : state) (h : history) : Prop :=
  P_Once.GH st h /\ P_Term.TH st h /\ I2 st /\ exists r, RegRel st r.

Lemma CH2_step cfg b du st o h :
  cfg_dry cfg = false -> CH2 st (o :: h) -> CH2 (snd (step cfg b du st o)) h.
Proof.
  intros Hdry (HG & HT & HD & r & HR).
  pose proof HT as (HRI & Hs & Hk).
  cbn [wf_scopes_from] in Hs. apply andb_true_iff in Hs as [Hok _].
  unfold P_Term.wf_keys in Hk. cbn [forallb] in Hk. apply andb_true_iff in Hk as [Hko _].
  split; [apply P_Once.GH_step; assumption|].
  split; [apply (P_Term.TH_step cfg b du st o h HT)|].
  split; [apply step_I2; eauto|].
  exists (reg_step r o (accepted (mkOObs (overdict_of (fst (step cfg b du st o))) []))).
  apply RegRel_step; [apply HRI|exact Hok|exact HR].
Qed.

Lemma CH2_init h :
  wf_scopes h = true -> P_Term.wf_keys h = true -> P_Once.wf_fns h = true -> CH2 init_state h.
Proof.
  intros Hs Hk Hf. split; [apply P_Once.GH_init; exact Hf|].
  split; [split; [apply P_Term.RI_init|split; assumption]|].
  split; [split; [apply DVI_init|apply CV_init]|]. exists reg0. apply RegRel_init.
Qed.

Lemma CH2_wf st o h : CH2 st (o :: h) -> SInv st /\ op_ok (length (st_scopes st)) o = true.
Proof.
  intros (_ & (HRI & Hs & _) & _). cbn [wf_scopes_from] in Hs. apply andb_true_iff in Hs as [Hok _].
  split; [apply HRI|exact Hok].
Qed.

(* function ids of the registry are pairwise distinct *)
Lemma reg_fns_NoDup st r : P_Once.inv_once st -> RegRel st r -> NoDup (map sc_fn (r_ctors r)).
Proof.
  intros (Hn & _) HR. rewrite (rr_ctors HR), map_map.
  unfold P_Once.fnsl in Hn. apply P_Once.NoDup_app_l in Hn.
  erewrite map_ext; [exact Hn|]. reflexivity.
Qed.

Lemma find_unique (l : list sctor) c :
  NoDup (map sc_fn l) -> In c l -> find (fun c' => Nat.eqb (sc_fn c') (sc_fn c)) l = Some c.
Proof.
  induction l as [|x l IH]; intros Hn Hc; [destruct Hc|].
  cbn [map] in Hn. inversion Hn as [|? ? Hx Hn']; subst. cbn [find].
  destruct Hc as [->|Hc]; [rewrite Nat.eqb_refl; reflexivity|].
  destruct (Nat.eqb (sc_fn x) (sc_fn c)) eqn:E; [|apply IH; assumption].
  exfalso. apply Nat.eqb_eq in E. apply Hx. rewrite E. apply in_map. exact Hc.
Qed.

(* the 404 component of the checker on the events of one operation *)
Definition chk404 (r : registry) (evs : list event) : bool :=
  forallb (fun ev => match ev with
                     | EExec f _ RoleCtor _ _ =>
                         match find (fun c => Nat.eqb (sc_fn c) f) (r_ctors r) with
                         | Some c => negb (directly_missing r c)
                         | None => true
                         end
                     | _ => true
                     end) evs.

Lemma chk404_ok r evs :
  NoDup (map sc_fn (r_ctors r)) -> (forall ev, In ev evs -> ev404 r ev) -> chk404 r evs = true.
Proof.
  intros Hn H. apply forallb_forall. intros ev Hev. specialize (H ev Hev).
  destruct ev as [f e [| |] args o|]; try reflexivity.
  destruct H as (c & Hc & <- & Hd). rewrite (find_unique _ c Hn Hc), Hd. reflexivity.
Qed.

Lemma invoke_404 cfg b du st h s p r new :
  CH2 st (OInvoke s p :: h) -> RegRel st r ->
  st_log (snd (invoke cfg b du st s p)) = new ++ st_log st ->
  chk404 r (rev new) = true.
Proof.
  intros (HG & (HRI & _ & Hk) & HD & _) HR L.
  unfold P_Term.wf_keys in Hk. cbn [forallb P_Term.op_keys_ok] in Hk. apply andb_true_iff in Hk as [Hko _].
  apply chk404_ok.
  - eapply reg_fns_NoDup; [|exact HR]. apply HG.
  - destruct (invoke_R2 cfg b du r st s p HRI HR HD Hko) as (_ & new' & L' & F).
    rewrite L in L'. apply app_inv_tail in L'. subst new'.
    intros ev Hev. apply in_rev in Hev. rewrite Forall_forall in F. apply F. exact Hev.
Qed.

(* ===================================================================== *)
(* Part 3a : code 403 — without a user failure the only verdicts of an    *)
(*           Invoke are nil, missing type, cycle                           *)
(* ===================================================================== *)

(* the roots the evaluator can produce *)
Definition okroot (x : eroot) : Prop :=
  match x with
  | RMissing _ | RCycle | RUser _ _ | RPanic _ _ => True
  | RInvalidLeaf | RGroupOpt | RForeign => False
  end.

Definition PRoot (t : task) (st : state) (o : out) : Prop :=
  match fst o with Fail e => okroot (e_root e) | _ => True end.

Section Roots.
  Variables (cfg : config) (b : beh) (du : dur).
  Variable rec : task -> state -> out.
  Hypothesis IH : forall t st, PRoot t st (rec t st).

  Lemma rt_call_ctors : forall ns st,
    match fst (call_ctors rec ns st) with LFail _ e => okroot (e_root e) | _ => True end.
  Proof.
    induction ns as [|n t IHn]; intros st; cbn [call_ctors]; [exact I|].
    pose proof (IH (TCallCtor n) st) as H. unfold PRoot in H.
    destruct (rec (TCallCtor n) st) as [[x|e|a] st1]; cbn [fst] in *; [apply IHn|exact H|exact I].
  Qed.

  Lemma rt_call_group_decs k : forall bs st,
    match fst (call_group_decs rec k bs st) with LFail _ e => okroot (e_root e) | _ => True end.
  Proof.
    induction bs as [|s t IHb]; intros st; cbn [call_group_decs]; [exact I|].
    destruct (alookup key_eqb k (s_decorators (get_scope st s))) as [d|]; [|apply IHb].
    destruct (dstate_eqb (d_state (get_dec st d)) DOnStack); [apply IHb|].
    pose proof (IH (TCallDec d) st) as H. unfold PRoot in H.
    destruct (rec (TCallDec d) st) as [[x|e|a] st1]; cbn [fst] in *; [apply IHb|exact H|exact I].
  Qed.

  Lemma rt_build_list v : forall ls st, PRoot (TLeaves v ls) st (build_list rec v ls st).
  Proof.
    induction ls as [|l t IHl]; intros st; cbn [build_list]; [exact I|].
    pose proof (IH (TLeaf v l) st) as H. unfold PRoot in *.
    destruct (rec (TLeaf v l) st) as [[x|e|a] st1]; cbn [fst] in *; [|exact H|exact I].
    specialize (IHl st1). destruct (build_list rec v t st1) as [[x2|e2|a2] st2]; cbn [fst] in *; auto.
  Qed.

  Lemma rt_evalF t st : PRoot t st (evalF cfg b du rec t st).
  Proof.
    unfold PRoot. destruct t as [v [k opt|k soft]|v ls|n|d]; cbn [evalF].
    - unfold build_single. destruct (find_dec st v k) as [[d bsc]|].
      + pose proof (IH (TCallDec d) st) as H. unfold PRoot in H.
        destruct (rec (TCallDec d) st) as [[x|e|a] st1]; cbn [fst] in *; [|exact H|exact I].
        destruct (alookup key_eqb k (s_dvalues (get_scope st1 bsc))); exact I.
      + destruct (find_map _ (path st v)); [exact I|].
        destruct (find_provider st (path st v) k) as [a|bsc ns|].
        * exact I.
        * pose proof (rt_call_ctors ns st) as H.
          destruct (call_ctors rec ns st) as [[|c e|a] st1]; cbn [fst] in *.
          -- destruct (alookup key_eqb k (s_values (get_scope st1 bsc))); exact I.
          -- destruct (opt && has_missingdeps e); [exact I|exact H].
          -- exact I.
        * destruct opt; exact I.
    - unfold build_group. pose proof (rt_call_group_decs k (rev (path st v)) st) as H.
      destruct (call_group_decs rec k (rev (path st v)) st) as [[|c e|a] st1]; cbn [fst] in *; [|exact H|exact I].
      destruct (find_map _ (path st1 v)); [exact I|]. destruct soft; [exact I|].
      pose proof (rt_call_ctors (providers_on_path st1 v k) st1) as H2.
      destruct (call_ctors rec (providers_on_path st1 v k) st1) as [[|c e|a] st2]; cbn [fst] in *; [exact I|exact H2|exact I].
    - apply rt_build_list.
    - unfold call_ctor. destruct (c_called (get_node st n)); [exact I|].
      destruct (c_onstack (get_node st n)); [exact I|].
      destruct (shallow_missing _ _ _); [|exact I].
      match goal with |- context [rec ?t ?s] => pose proof (IH t s) as H; unfold PRoot in H;
        destruct (rec t s) as [[built|e|a] st1] end; cbn [fst] in *; [|exact H|exact I].
      destruct (run_fn cfg b du RoleCtor _ _ st1) as [[o e] st2].
      destruct o as [lens| |]; [| |destruct (cfg_recover cfg)]; exact I.
    - unfold call_dec. destruct (dstate_eqb _ DCalled); [exact I|].
      destruct (shallow_missing _ _ _); [|exact I].
      match goal with |- context [rec ?t ?s] => pose proof (IH t s) as H; unfold PRoot in H;
        destruct (rec t s) as [[built|e|a] st1] end; cbn [fst] in *; [|exact H|exact I].
      destruct (run_fn cfg b du RoleDec _ _ st1) as [[o e] st2].
      destruct o as [lens| |]; [| |destruct (cfg_recover cfg)]; exact I.
  Qed.
End Roots.

Theorem eval_roots cfg b du fuel t st e :
  fst (eval cfg b du fuel t st) = Fail e -> okroot (e_root e).
Proof.
  intros H. pose proof (eval_ind cfg b du PRoot (fun _ _ => I) (rt_evalF cfg b du) fuel t st) as HI.
  unfold PRoot in HI. rewrite H in HI. exact HI.
Qed.
Print Assumptions eval_roots.

Lemma invoke_tail_roots cfg b du s p st1 e :
  fst (match eval cfg b du (eval_fuel st1) (TLeaves s (sig_build_seq (ii_sig p))) st1 with
       | (Fail e, st2) => (VErr (wrap LArgsFailed e), st2)
       | (Abort a, st2) => (VAbort a, st2)
       | (Done built, st2) =>
           let args := place (sig_order (ii_sig p)) built in
           match run_fn cfg b du RoleInv (ii_fn p) args st2 with
           | (OOk _, _, st3) => (VOk, st3)
           | (OErr, e, st3) => (VErr (mkErr [] (RUser (ii_fn p) e)), st3)
           | (OPanic, e, st3) =>
               if cfg_recover cfg then (VErr (mkErr [] (RPanic (ii_fn p) e)), st3)
               else (VAbort (APanicked (ii_fn p) e), st3)
           end
       end) = VErr e -> okroot (e_root e).
Proof.
  destruct (eval cfg b du (eval_fuel st1) (TLeaves s (sig_build_seq (ii_sig p))) st1) as [[x|e0|a] st2] eqn:Ev.
  - cbn zeta. destruct (run_fn cfg b du RoleInv (ii_fn p) _ st2) as [[o x0] st3].
    destruct o; [discriminate| |destruct (cfg_recover cfg); [|discriminate]];
      cbn [fst]; intros [= <-]; exact I.
  - cbn [fst]. intros [= <-]. cbn [wrap e_root].
    apply (eval_roots cfg b du (eval_fuel st1) (TLeaves s (sig_build_seq (ii_sig p))) st1 e0).
    rewrite Ev. reflexivity.
  - discriminate.
Qed.

Theorem invoke_roots cfg b du st s p e :
  fst (invoke cfg b du st s p) = VErr e -> okroot (e_root e).
Proof.
  unfold invoke. destruct (shallow_missing st s _).
  2:{ cbn [fst]. intros [= <-]. exact I. }
  destruct (s_verified (get_scope st s)).
  - apply invoke_tail_roots.
  - destruct (is_acyclic (scope_graph st s)) as [[[|] x]|].
    + apply invoke_tail_roots.
    + cbn [fst]. intros [= <-]. exact I.
    + cbn [fst]. discriminate.
Qed.
Print Assumptions invoke_roots.

Lemma lastfail_has_fail new f x o :
  (o = OErr \/ o = OPanic) -> P_Once.lastfail new f x o -> existsb is_fail_event (rev new) = true.
Proof.
  intros Ho (l1 & rl & a & l2 & -> & _ & _). apply existsb_exists.
  exists (EExec f x rl a o). split; [apply -> in_rev; apply in_or_app; right; left; reflexivity|].
  destruct Ho as [-> | ->]; reflexivity.
Qed.

(* MAIN 3a: the verdict classes of an Invoke that emitted no failing execution *)
Theorem invoke_403 cfg b du st s p new :
  P_Term.vok (fst (invoke cfg b du st s p)) ->
  st_log (snd (invoke cfg b du st s p)) = new ++ st_log st ->
  existsb is_fail_event (rev new) = false ->
  match overdict_of (fst (invoke cfg b du st s p)) with
  | OVOk | OVErr _ QMissing | OVErr _ QCycle => True
  | _ => False
  end.
Proof.
  intros Hvok L Hnf.
  destruct (P_Once.invoke_D cfg b du st s p) as (new' & L' & R).
  rewrite L in L'. apply app_inv_tail in L'. subst new'.
  pose proof (invoke_roots cfg b du st s p) as HR.
  destruct (fst (invoke cfg b du st s p)) as [|e|a]; cbn [overdict_of P_Once.vres P_Once.res_ok] in *.
  - exact I.
  - specialize (HR e eq_refl). unfold P_Once.fail_ok in R.
    destruct (e_root e) as [ks| | | |f x|f x|]; cbn [rkind_of okroot] in *; try exact I; try destruct HR.
    + destruct R as [R _]. rewrite (lastfail_has_fail _ _ _ _ (or_introl eq_refl) R) in Hnf. discriminate.
    + destruct R as [R _]. rewrite (lastfail_has_fail _ _ _ _ (or_intror eq_refl) R) in Hnf. discriminate.
  - destruct a as [f x|c|]; cbn [P_Once.abort_ok P_Term.vok] in *.
    + destruct R as [R _]. rewrite (lastfail_has_fail _ _ _ _ (or_intror eq_refl) R) in Hnf. discriminate.
    + exact Hvok.
    + exact Hvok.
Qed.
Print Assumptions invoke_403.

(* ===================================================================== *)
(* Part 3b : code 401 — in a decorator-free registry a successful Invoke  *)
(*           has all its required dependencies available                   *)
(* ===================================================================== *)

Lemma sctor_pres X Y n : pres X Y -> sctor_of (get_node Y n) = sctor_of (get_node X n).
Proof.
  intros [E _]. apply skel_eq_fields in E. destruct E. unfold sctor_of.
  rewrite sf_cfn, sf_csig, sf_chome, sf_corig. reflexivity.
Qed.

Section S3.
  Variables (cfg : config) (b : beh) (du : dur) (r : registry) (built0 : list fnid).
  Hypothesis Hnodec : r_decs r = [].
  Hypothesis HUR : forall bsc k, length (providers_in r bsc k) <= 1.

  (* every called constructor is available *)
  Definition AvI (st : state) : Prop :=
    forall n, n < length (st_nodes st) -> c_called (get_node st n) = true ->
              Avail r built0 (sctor_of (get_node st n)).

  Definition Ctx3 (st : state) : Prop := P_Term.G st /\ RegRel st r /\ I2 st.

  Definition leafres (v : sid) (ls : list pleaf) (x : res (list arg)) : Prop :=
    match x with Done _ => forall l, In l ls -> LeafP r built0 v l | _ => True end.

  Definition post3 (t : task) (x : res (list arg)) : Prop :=
    match t with
    | TLeaf v l => leafres v [l] x
    | TLeaves v ls => leafres v ls x
    | _ => True
    end.

  Definition P3 (t : task) (st : state) (o : out) : Prop :=
    P_Term.tpre t st -> Ctx3 st -> AvI st -> AvI (snd o) /\ post3 t (fst o).

  Lemma AvI_step X Y :
    pres X Y ->
    (forall n, n < length (st_nodes X) -> c_called (get_node Y n) = true ->
               c_called (get_node X n) = true \/ Avail r built0 (sctor_of (get_node X n))) ->
    AvI X -> AvI Y.
  Proof.
    intros HP H HA n Hn Hc. rewrite (sctor_pres X Y n HP).
    destruct (P_Term.pres_lens _ _ HP) as (LN & _ & _). rewrite LN in Hn.
    destruct (H n Hn Hc) as [H1|H1]; [apply HA; assumption|exact H1].
  Qed.

  Lemma AvI_quiet X Y :
    pres X Y -> (forall n, c_called (get_node Y n) = c_called (get_node X n)) -> AvI X -> AvI Y.
  Proof. intros HP H. apply AvI_step; [exact HP|]. intros n _ Hc. left. rewrite <- H. exact Hc. Qed.

  Lemma AvI_set_onstack X n x : AvI X -> AvI (set_onstack X n x).
  Proof. apply AvI_quiet; [apply pres_set_onstack|]. intros m. apply P_Term.called_set_onstack. Qed.

  (* ---------- no decorators: the decorated paths of the evaluator are dead ---------- *)

  Lemma nodecs st : RegRel st r -> st_decs st = [].
  Proof. intros HR. pose proof (rr_decs HR) as E. rewrite Hnodec in E. symmetry in E. apply map_eq_nil in E. exact E. Qed.

  Lemma no_decorator st bsc k : RegRel st r -> alookup key_eqb k (s_decorators (get_scope st bsc)) = None.
  Proof.
    intros HR. destruct (alookup key_eqb k (s_decorators (get_scope st bsc))) as [d|] eqn:E; [|reflexivity].
    apply (rr_decorators HR) in E as [Hd _]. rewrite (nodecs st HR) in Hd. cbn in Hd. lia.
  Qed.

  Lemma no_dc st v k : RegRel st r -> DVI st ->
    alookup key_eqb k (s_dvalues (get_scope st v)) = None /\
    alookup key_eqb k (s_dgroups (get_scope st v)) = None.
  Proof.
    intros HR HD.
    assert (H : ~ hasdc st v k).
    { intros H. destruct (HD v k H) as (d & Hd & _). rewrite (nodecs st HR) in Hd. cbn in Hd. lia. }
    unfold hasdc in H. split.
    - destruct (alookup key_eqb k (s_dvalues (get_scope st v))); [exfalso; apply H; left; discriminate|reflexivity].
    - destruct (alookup key_eqb k (s_dgroups (get_scope st v))); [exfalso; apply H; right; discriminate|reflexivity].
  Qed.

  Lemma find_map_all_none {A B} (f : A -> option B) l : (forall x, f x = None) -> find_map f l = None.
  Proof. intros H. induction l as [|x l IH]; cbn [find_map]; [reflexivity|]. rewrite H. exact IH. Qed.

  Lemma find_dec_none st v k : RegRel st r -> find_dec st v k = None.
  Proof. intros HR. unfold find_dec. apply find_map_all_none. intros x. rewrite (no_decorator st x k HR). reflexivity. Qed.

  Lemma call_group_decs_nodec rec st k : RegRel st r -> forall bs, call_group_decs rec k bs st = (LDone, st).
  Proof.
    intros HR. induction bs as [|s t IH]; cbn [call_group_decs]; [reflexivity|].
    rewrite (no_decorator st s k HR). exact IH.
  Qed.

  (* ---------- find_provider against nearest_provider ---------- *)

  Definition np (k : key) (bs : list sid) : option sctor :=
    find_map (fun b0 => hd_error (providers_in r b0 k)) bs.

  Lemma find_provider_np st k : RegRel st r -> single_only r k -> forall bs,
    match find_provider st bs k with
    | PVal a => exists bsc, alookup key_eqb k (s_values (get_scope st bsc)) = Some a /\
                            forall c, hd_error (providers_in r bsc k) = Some c -> np k bs = Some c
    | PProv bsc ns => ns = providers_at st bsc k /\ ns <> [] /\
                      np k bs = hd_error (map (node_sctor st) ns)
    | PNone => True
    end.
  Proof.
    intros HR Hs. induction bs as [|b0 t IH]; cbn [find_provider]; [exact I|].
    destruct (alookup key_eqb k (s_values (get_scope st b0))) as [a|] eqn:Ea.
    - exists b0. split; [exact Ea|]. intros c Hc. unfold np. cbn [find_map]. rewrite Hc. reflexivity.
    - pose proof (RegRel_providers_in st r b0 k HR Hs) as Ep.
      destruct (providers_at st b0 k) as [|n ns] eqn:E.
      + assert (Enp : np k (b0 :: t) = np k t) by (unfold np; cbn [find_map]; rewrite Ep; reflexivity).
        destruct (find_provider st t k) as [a|bsc ns|]; try rewrite Enp; exact IH.
      + split; [symmetry; exact E|]. split; [discriminate|].
        unfold np. cbn [find_map]. rewrite Ep. reflexivity.
  Qed.

  Lemma single_in_list {A} (x : A) l : length l <= 1 -> In x l -> l = [x].
  Proof.
    destruct l as [|y [|z l]]; cbn; intros Hl Hin; [destruct Hin| |lia].
    destruct Hin as [->|[]]. reflexivity.
  Qed.

  Lemma np_nearest st v k : RegRel st r -> np k (path st v) = nearest_provider r v k.
  Proof. intros HR. unfold np, nearest_provider. rewrite (path_spath st r v HR). reflexivity. Qed.

  Lemma node_in_reg' st n : RegRel st r -> n < length (st_nodes st) ->
    In (sctor_of (get_node st n)) (r_ctors r).
  Proof. intros HR Hn. rewrite (rr_ctors HR). apply in_map. apply nth_In. exact Hn. Qed.

  (* a cached value on the path: its provider is the nearest one and was called *)
  Lemma cached_leaf st v k a :
    Ctx3 st -> AvI st -> k_group k = 0 ->
    find_provider st (path st v) k = PVal a -> LeafP r built0 v (LSingle k false).
  Proof.
    intros (HG & HR & (_ & HC)) HA Hk EP.
    assert (Hs : single_only r k) by (eapply single_only_KI; [exact HR|apply HG|exact Hk]).
    pose proof (find_provider_np st k HR Hs (path st v)) as H. rewrite EP in H.
    destruct H as (bsc & Ea & Hnp).
    destruct (HC bsc k a Ea) as (n & A1 & A2 & A3 & A4).
    assert (Hin : In (sctor_of (get_node st n)) (providers_in r bsc k)).
    { unfold providers_in. apply filter_In. split; [apply node_in_reg'; assumption|].
      cbn [sc_home sctor_of]. rewrite A3, Nat.eqb_refl. exact A4. }
    rewrite (single_in_list _ _ (HUR bsc k) Hin) in Hnp. specialize (Hnp _ eq_refl).
    rewrite (np_nearest st v k HR) in Hnp.
    cbn [LeafP]. exists (sctor_of (get_node st n)). split; [exact Hnp|apply HA; assumption].
  Qed.

  Lemma feeder_node st v k c : RegRel st r -> In c (feeders r v k) ->
    exists n, In n (providers_on_path st v k) /\ c = sctor_of (get_node st n).
  Proof.
    intros HR Hc. unfold feeders in Hc. apply filter_In in Hc as [Hin Hb].
    apply andb_true_iff in Hb as [He Hf].
    assert (Hm : In c (map (fun n => sctor_of (get_node st n)) (providers_on_path st v k))).
    { rewrite (providers_on_path_reg st r v k HR). apply in_flat_map. exists (sc_home c).
      split; [apply memb_nat_In; exact He|]. apply filter_In. split; [exact Hin|].
      rewrite sctor_offers_split, Nat.eqb_refl, Hf, orb_true_r. reflexivity. }
    apply in_map_iff in Hm as (n & E & Hn). exists n. auto.
  Qed.

  Section Step3.
    Variable fuel : nat.
    Let rec := eval cfg b du fuel.
    Hypothesis IH : forall t st, P3 t st (rec t st).

    Let F_PT : forall t st, P_Term.PT t st (rec t st) := P_Term.eval_PT cfg b du fuel.
    Let F_pres : forall t st, pres st (snd (rec t st)) := eval_pres cfg b du fuel.

    Lemma ctx3_rec t st : P_Term.tpre t st -> Ctx3 st -> Ctx3 (snd (rec t st)).
    Proof.
      intros Hpre (HG & HR & HI). destruct (F_PT t st) as [Hp H]. destruct (H Hpre HG) as (G1 & _).
      split; [exact G1|]. split; [eapply RegRel_pres; eauto|].
      apply (eval_404 cfg b du r fuel t st Hpre HG HR HI).
    Qed.

    Lemma s3_call_ctors : forall ns st,
      (forall n, In n ns -> n < length (st_nodes st)) -> Ctx3 st -> AvI st ->
      Ctx3 (snd (call_ctors rec ns st)) /\ AvI (snd (call_ctors rec ns st)).
    Proof.
      induction ns as [|n t IHn]; intros st Hr HC HA; cbn [call_ctors]; [split; assumption|].
      pose proof (ctx3_rec (TCallCtor n) st (Hr n (or_introl eq_refl)) HC) as C1.
      destruct (IH (TCallCtor n) st (Hr n (or_introl eq_refl)) HC HA) as [A1 _].
      pose proof (F_pres (TCallCtor n) st) as Hp.
      destruct (rec (TCallCtor n) st) as [[x|e|a] st1]; cbn [fst snd] in *; try (split; assumption).
      destruct (P_Term.pres_lens _ _ Hp) as (L1 & _ & _).
      apply IHn; [|exact C1|exact A1]. intros m Hm. rewrite L1. apply Hr. right. exact Hm.
    Qed.

    Lemma s3_build_list v : forall ls st, forallb P_Term.leaf_ok ls = true -> Ctx3 st -> AvI st ->
      AvI (snd (build_list rec v ls st)) /\ leafres v ls (fst (build_list rec v ls st)).
    Proof.
      induction ls as [|l t IHl]; intros st Hl HC HA; cbn [build_list].
      - split; [exact HA|]. intros l [].
      - cbn [forallb] in Hl. apply andb_true_iff in Hl as [Hl Ht].
        pose proof (ctx3_rec (TLeaf v l) st Hl HC) as C1.
        destruct (IH (TLeaf v l) st Hl HC HA) as [A1 Q1]. cbn [post3] in Q1.
        destruct (rec (TLeaf v l) st) as [[x|e|a] st1]; cbn [fst snd] in *; try (split; [exact A1|exact I]).
        destruct (IHl st1 Ht C1 A1) as [A2 Q2].
        destruct (build_list rec v t st1) as [[x2|e2|a2] st2]; cbn [fst snd] in *; try (split; [exact A2|exact I]).
        split; [exact A2|]. intros l' [<-|Hin]; [apply Q1; left; reflexivity|apply Q2; exact Hin].
    Qed.

    Lemma s3_build_single v k opt st : k_group k = 0 -> Ctx3 st -> AvI st ->
      AvI (snd (build_single rec v k opt st)) /\ leafres v [LSingle k opt] (fst (build_single rec v k opt st)).
    Proof.
      intros Hk HC HA. pose proof HC as (HG & HR & (HD & HCV)). unfold build_single.
      rewrite (find_dec_none st v k HR).
      rewrite (find_map_all_none (fun s => alookup key_eqb k (s_dvalues (get_scope st s))) (path st v))
        by (intros x; apply (no_dc st x k HR HD)).
      assert (Hopt : forall x : res (list arg), opt = true -> leafres v [LSingle k opt] x).
      { intros x ->. destruct x; try exact I. intros l [<-|[]]. exact I. }
      destruct (find_provider st (path st v) k) as [a|bsc ns|] eqn:EP.
      - cbn [fst snd]. split; [exact HA|]. destruct opt; [apply Hopt; reflexivity|].
        intros l [<-|[]]. eapply cached_leaf; eauto.
      - assert (Hs : single_only r k) by (eapply single_only_KI; [exact HR|apply HG|exact Hk]).
        pose proof (find_provider_np st k HR Hs (path st v)) as Hnp. rewrite EP in Hnp.
        destruct Hnp as (Ens & Hne & Hnp).
        assert (Hr : forall n, In n ns -> n < length (st_nodes st)).
        { intros n Hn. rewrite Ens in Hn. eapply P_Term.prov_range; [apply HG|exact Hn]. }
        destruct (s3_call_ctors ns st Hr HC HA) as [C1 A1].
        destruct (P_Term.T_call_ctors rec F_PT ns st Hr HG) as (_ & _ & _ & Hcalled).
        pose proof (pres_call_ctors rec F_pres ns st) as Hp.
        destruct (call_ctors rec ns st) as [[|c e|a] st1]; cbn [fst snd] in *.
        + destruct (alookup key_eqb k (s_values (get_scope st1 bsc))); cbn [fst snd]; [|split; [exact A1|exact I]].
          split; [exact A1|]. destruct opt; [apply Hopt; reflexivity|].
          intros l [<-|[]]. destruct ns as [|n0 ns']; [exfalso; apply Hne; reflexivity|].
          cbn [map hd_error] in Hnp. rewrite (np_nearest st v k HR) in Hnp.
          cbn [LeafP]. exists (node_sctor st n0). split; [exact Hnp|].
          unfold node_sctor. rewrite <- (sctor_pres st st1 n0 Hp). apply A1.
          * destruct (P_Term.pres_lens _ _ Hp) as (L1 & _ & _). rewrite L1. apply Hr. left. reflexivity.
          * apply Hcalled; [reflexivity|left; reflexivity].
        + destruct opt; cbn [andb].
          * destruct (has_missingdeps e); cbn [fst snd]; (split; [exact A1|]); [apply Hopt; reflexivity|exact I].
          * cbn [fst snd]. split; [exact A1|exact I].
        + split; [exact A1|exact I].
      - destruct opt; cbn [fst snd]; (split; [exact HA|]); [apply Hopt; reflexivity|exact I].
    Qed.

    Lemma s3_build_group v k soft st : Ctx3 st -> AvI st ->
      AvI (snd (build_group rec v k soft st)) /\ leafres v [LGroup k soft] (fst (build_group rec v k soft st)).
    Proof.
      intros HC HA. pose proof HC as (HG & HR & (HD & HCV)). unfold build_group.
      rewrite (call_group_decs_nodec rec st k HR).
      rewrite (find_map_all_none (fun s => alookup key_eqb k (s_dgroups (get_scope st s))) (path st v))
        by (intros x; apply (no_dc st x k HR HD)).
      destruct soft.
      { cbn [fst snd]. split; [exact HA|]. intros l [<-|[]]. exact I. }
      assert (Hr : forall n, In n (providers_on_path st v k) -> n < length (st_nodes st)).
      { intros n Hn. destruct HG as ([_ HB] & _). eapply pop_bound; eauto. }
      destruct (s3_call_ctors _ st Hr HC HA) as [C1 A1].
      destruct (P_Term.T_call_ctors rec F_PT _ st Hr HG) as (_ & _ & _ & Hcalled).
      pose proof (pres_call_ctors rec F_pres (providers_on_path st v k) st) as Hp.
      destruct (call_ctors rec (providers_on_path st v k) st) as [[|c e|a] st1]; cbn [fst snd] in *;
        try (split; [exact A1|exact I]).
      split; [exact A1|]. intros l [<-|[]]. cbn [LeafP]. intros c Hc.
      destruct (feeder_node st v k c HR Hc) as (n & Hn & ->).
      rewrite <- (sctor_pres st st1 n Hp). apply A1.
      - destruct (P_Term.pres_lens _ _ Hp) as (L1 & _ & _). rewrite L1. apply Hr. exact Hn.
      - apply Hcalled; [reflexivity|exact Hn].
    Qed.

    Lemma s3_call_ctor n st : P3 (TCallCtor n) st (call_ctor cfg b du rec n st).
    Proof.
      intros Hn HC HA. pose proof HC as (HG & HR & HI). cbn [P_Term.tpre] in Hn. cbn [post3].
      unfold call_ctor.
      destruct (c_called (get_node st n)); [split; [exact HA|exact I]|].
      destruct (c_onstack (get_node st n)); [split; [exact HA|exact I]|].
      set (c := get_node st n). set (st0 := set_onstack st n true).
      assert (C0 : Ctx3 st0).
      { split; [apply P_Term.G_push_node; exact HG|].
        split; [eapply RegRel_pres; [apply pres_set_onstack|exact HR]|].
        eapply I2_quiet; [apply (quiet_set_onstack r)|exact HI]. }
      assert (A0 : AvI st0) by (apply AvI_set_onstack; exact HA).
      destruct (shallow_missing st0 (c_orig c) (sig_leaves (c_sig c))) as [|k0 ks].
      2:{ cbn [fst snd]. split; [|exact I]. apply AvI_set_onstack. exact A0. }
      assert (Hsig : P_Term.wf_sig (c_sig c) = true) by (destruct HG as (_ & HK & _); apply (P_Term.ki_nsig HK)).
      assert (Hpre : P_Term.tpre (TLeaves (c_orig c) (sig_build_seq (c_sig c))) st0)
        by (apply P_Term.wf_sig_build_seq; exact Hsig).
      destruct (IH _ st0 Hpre C0 A0) as [A1 Q1]. cbn [post3] in Q1.
      pose proof (F_pres (TLeaves (c_orig c) (sig_build_seq (c_sig c))) st0) as Hp1.
      destruct (rec (TLeaves (c_orig c) (sig_build_seq (c_sig c))) st0) as [[built|e|a] st1]; cbn [fst snd] in *.
      2,3: split; [apply AvI_set_onstack; exact A1|exact I].
      assert (P01 : pres st st1) by (eapply pres_trans; [apply pres_set_onstack|exact Hp1]).
      pose proof (P_Term.deq_run_fn cfg b du RoleCtor (c_fn c) (place (sig_order (c_sig c)) built) st1) as D2.
      pose proof (pres_run_fn cfg b du RoleCtor (c_fn c) (place (sig_order (c_sig c)) built) st1) as P12.
      destruct (run_fn cfg b du RoleCtor (c_fn c) (place (sig_order (c_sig c)) built) st1) as [[o e] st2].
      cbn [snd] in D2, P12.
      assert (A2 : AvI st2).
      { revert A1. apply AvI_quiet; [exact P12|]. intros m. rewrite (P_Term.deq_node m D2). reflexivity. }
      assert (Hfail : forall has f cl start, AvI (set_onstack (callback has f cl start st2) n false)).
      { intros has f cl start. apply AvI_set_onstack. revert A2.
        apply AvI_quiet; [apply pres_callback|]. intros m. rewrite P_Once.get_node_callback. reflexivity. }
      destruct o as [lens| |]; [| |destruct (cfg_recover cfg)]; cbn [fst snd]; try (split; [apply Hfail|exact I]).
      split; [|exact I].
      set (st3 := upd_scope st2 (c_home c) (commit_results (cfg_dry cfg) (c_fn c) e lens 0 (sig_rleaves (c_sig c)))).
      apply AvI_set_onstack.
      assert (A4 : AvI (set_called st3 n)).
      { revert A2. apply AvI_step.
        - eapply pres_trans; [|apply pres_set_called]. apply pres_upd_scope; intros c0; apply commit_results_skel.
        - intros m Hm Hc. destruct (Nat.eq_dec m n) as [->|Hne].
          + right. rewrite (sctor_pres st st2 n (pres_trans _ _ _ P01 P12)).
            apply Avail_of_leaves; [apply node_in_reg'; assumption|].
            intros l Hl. cbn [sc_sig sc_orig sctor_of] in *. apply Q1.
            apply build_seq_complete. exact Hl.
          + left. rewrite P_Term.called_set_other in Hc by exact Hne. exact Hc. }
      revert A4. apply AvI_quiet; [apply pres_callback|]. intros m. rewrite P_Once.get_node_callback. reflexivity.
    Qed.

    Lemma s3_evalF t st : P3 t st (evalF cfg b du rec t st).
    Proof.
      destruct t as [v [k opt|k soft]|v ls|n|d]; cbn [evalF].
      - intros Hpre HC HA. cbn [P_Term.tpre P_Term.leaf_ok] in Hpre. apply Nat.eqb_eq in Hpre.
        apply s3_build_single; assumption.
      - intros _ HC HA. apply s3_build_group; assumption.
      - intros Hpre HC HA. apply s3_build_list; assumption.
      - apply s3_call_ctor.
      - intros [Hd _] (_ & HR & _) _. rewrite (nodecs st HR) in Hd. cbn in Hd. lia.
    Qed.
  End Step3.

  Theorem eval_401 fuel : forall t st, P3 t st (eval cfg b du fuel t st).
  Proof.
    induction fuel as [|f IHf]; intros t st; cbn [eval].
    - intros _ _ HA. split; [exact HA|]. destruct t; exact I.
    - apply s3_evalF. exact IHf.
  Qed.
End S3.
Print Assumptions eval_401.

(* ---------- Invoke ---------- *)

Lemma AvI_nodes r built0 st st' : st_nodes st' = st_nodes st -> AvI r built0 st -> AvI r built0 st'.
Proof. intros E H n Hn Hc. unfold get_node in *. rewrite E in *. apply H; assumption. Qed.

Lemma I2_set_verified st s x : I2 st -> I2 (upd_scope st s (sc_set_verified x)).
Proof.
  intros [HD HC]. split.
  - eapply DVI_skel; [apply skel_upd_verified| |exact HD]. apply dc_upd_scope. reflexivity.
  - revert HC. apply CV_ext; [|auto].
    intros v. destruct (P_Once.get_scope_upd_cases st s (sc_set_verified x) v) as [E|[-> E]];
      rewrite E; reflexivity.
Qed.

Section Ops3.
  Variables (cfg : config) (b : beh) (du : dur) (r : registry) (built0 : list fnid).
  Hypothesis Hnodec : r_decs r = [].
  Hypothesis HUR : forall bsc k, length (providers_in r bsc k) <= 1.

  Lemma invoke_tail_401 s p st1 :
    Ctx3 r st1 -> AvI r built0 st1 -> forallb P_Term.leaf_ok (sig_leaves (ii_sig p)) = true ->
    fst (match eval cfg b du (eval_fuel st1) (TLeaves s (sig_build_seq (ii_sig p))) st1 with
         | (Fail e, st2) => (VErr (wrap LArgsFailed e), st2)
         | (Abort a, st2) => (VAbort a, st2)
         | (Done built, st2) =>
             let args := place (sig_order (ii_sig p)) built in
             match run_fn cfg b du RoleInv (ii_fn p) args st2 with
             | (OOk _, _, st3) => (VOk, st3)
             | (OErr, e, st3) => (VErr (mkErr [] (RUser (ii_fn p) e)), st3)
             | (OPanic, e, st3) =>
                 if cfg_recover cfg then (VErr (mkErr [] (RPanic (ii_fn p) e)), st3)
                 else (VAbort (APanicked (ii_fn p) e), st3)
             end
         end) = VOk ->
    forall l, In l (sig_leaves (ii_sig p)) -> LeafP r built0 s l.
  Proof.
    intros HC HA Hl.
    destruct (eval_401 cfg b du r built0 Hnodec HUR (eval_fuel st1) (TLeaves s (sig_build_seq (ii_sig p))) st1
                (P_Term.leaves_build_seq _ Hl) HC HA) as [_ Q]. cbn [post3] in Q.
    destruct (eval cfg b du (eval_fuel st1) (TLeaves s (sig_build_seq (ii_sig p))) st1) as [[x|e0|a] st2];
      cbn [fst] in *; try discriminate.
    intros _ l Hin. apply Q. apply build_seq_complete. exact Hin.
  Qed.

  (* MAIN 3b: a successful Invoke in a decorator-free registry *)
  Theorem invoke_401 st s p :
    P_Term.RI st -> RegRel st r -> I2 st -> AvI r built0 st ->
    forallb P_Term.leaf_ok (sig_leaves (ii_sig p)) = true ->
    fst (invoke cfg b du st s p) = VOk ->
    forall l, In l (sig_leaves (ii_sig p)) -> LeafP r built0 s l.
  Proof.
    intros HRI HR HI HA Hl. pose proof HRI as (S0 & K0 & V0 & Q0).
    unfold invoke. destruct (shallow_missing st s _); [|discriminate].
    destruct (s_verified (get_scope st s)).
    - apply invoke_tail_401; [|exact HA|exact Hl]. split; [split; [exact S0|split; assumption]|split; assumption].
    - destruct (is_acyclic (scope_graph st s)) as [[[|] x]|]; try discriminate.
      pose proof (P_Term.RI_set_verified st s true HRI) as (S1 & K1 & V1 & Q1).
      apply invoke_tail_401; [| |exact Hl].
      + split; [split; [exact S1|split; assumption]|].
        split; [eapply RegRel_skel; [|exact HR]; symmetry; apply skel_upd_verified|].
        apply I2_set_verified. exact HI.
      + eapply AvI_nodes; [|exact HA]. reflexivity.
  Qed.
End Ops3.
Print Assumptions invoke_401.

(* what has run successfully is available *)
Lemma built_of_succb f evs : In f (built_of (log_of_events evs)) <-> P_Once.succb f evs = true.
Proof.
  induction evs as [|ev evs IH]; [cbn; split; [intros []|discriminate]|].
  change (log_of_events (ev :: evs)) with (log_of_event ev ++ log_of_events evs).
  unfold built_of at 1. rewrite flat_map_app. fold (built_of (log_of_event ev)) (built_of (log_of_events evs)).
  rewrite in_app_iff, IH, P_Once.succb_cons, orb_true_iff.
  assert (H : In f (built_of (log_of_event ev)) <-> P_Once.succ_ev f ev = true); [|tauto].
  destruct ev as [f' e rl a [lens| |]|]; cbn; rewrite ?Nat.eqb_eq; intuition congruence.
Qed.

Lemma AvI_start st r : P_Once.inv_once st -> RegRel st r ->
  AvI r (built_of (log_of_events (rev (st_log st)))) st.
Proof.
  intros (_ & Hc & _) HR n Hn Hcalled.
  apply Av_built; [rewrite (rr_ctors HR); apply in_map, nth_In; exact Hn|].
  apply built_of_succb. rewrite P_Once.succb_rev. cbn [sc_fn sctor_of].
  apply (Hc n Hn). exact Hcalled.
Qed.

(* ---------- at most one provider of a single key per scope ---------- *)

Definition UR (r : registry) : Prop := forall bsc k, length (providers_in r bsc k) <= 1.

Lemma UR_ctors r r' : r_ctors r' = r_ctors r -> UR r -> UR r'.
Proof. intros E H bsc k. unfold providers_in. rewrite E. apply H. Qed.

Lemma UR_step cfg b du st o r evs :
  RegRel st r -> reg_kinds_ok r ->
  match o with OProvide _ p => sig_kinds_ok (pi_sig p) = true | _ => True end ->
  UR r -> UR (reg_step r o (accepted (mkOObs (overdict_of (fst (step cfg b du st o))) evs))).
Proof.
  intros HR Hr Ho HU. rewrite accepted_overdict.
  destruct o as [q|s p|s p|s p|bk s f]; cbn [reg_step step].
  - eapply UR_ctors; [|exact HU]. reflexivity.
  - destruct (P_Keys.provide_verdict_spec cfg st r s p HR Hr Ho) as [[D V]|[(D & K & V)|(D & K & [V|V])]];
      rewrite V; try exact HU.
    intros bsc k. unfold providers_in. cbn [r_ctors]. rewrite filter_app, app_length.
    fold (providers_in r bsc k). cbn [filter sc_home].
    match goal with |- context [if ?c then _ else _] => destruct c eqn:E end;
      cbn [length]; [|pose proof (HU bsc k); lia].
    apply andb_true_iff in E as [E1 E2]. apply Nat.eqb_eq in E1. subst bsc.
    unfold provides_single in E2. cbn [sc_sig] in E2. apply memb_key_In in E2.
    unfold spec_dup in D. apply orb_false_iff in D as [_ D].
    assert (Hnil : providers_in r (if pi_export p then 0 else s) k = []).
    { destruct (providers_in r (if pi_export p then 0 else s) k) eqn:Ep; [reflexivity|].
      exfalso. assert (Hex : existsb (fun k0 => negb (is_nil (providers_in r (if pi_export p then 0 else s) k0)))
                                    (single_keys (pi_sig p)) = true).
      { apply existsb_exists. exists k. split; [exact E2|]. rewrite Ep. reflexivity. }
      congruence. }
    rewrite Hnil. cbn. lia.
  - destruct (fst (decorate st s p)); (eapply UR_ctors; [|exact HU]); reflexivity.
  - exact HU.
  - exact HU.
Qed.

(* ---------- the history-level invariant with the key-kind hypotheses ---------- *)

Definition CH3 (st : state) (h : history) : Prop :=
  P_Once.GH st h /\ P_Term.TH st h /\ I2 st /\ hist_kinds_ok h = true /\
  exists r, RegRel st r /\ reg_kinds_ok r /\ UR r.

Lemma CH3_CH2 st h : CH3 st h -> CH2 st h.
Proof. intros (A & B & C & _ & r & HR & _). split; [exact A|]. split; [exact B|]. split; [exact C|]. exists r. exact HR. Qed.

Lemma CH3_step cfg b du st o h :
  cfg_dry cfg = false -> CH3 st (o :: h) -> CH3 (snd (step cfg b du st o)) h.
Proof.
  intros Hdry H. pose proof (CH2_step cfg b du st o h Hdry (CH3_CH2 _ _ H)) as (A & B & C & _).
  destruct H as (_ & (HRI & Hs & _) & _ & Hk & r & HR & Hr & HU).
  cbn [wf_scopes_from] in Hs. apply andb_true_iff in Hs as [Hok _].
  apply P_Keys.hist_kinds_cons in Hk as [Hko Hk].
  split; [exact A|]. split; [exact B|]. split; [exact C|]. split; [exact Hk|].
  exists (reg_step r o (accepted (mkOObs (overdict_of (fst (step cfg b du st o))) []))).
  split; [apply RegRel_step; [apply HRI|exact Hok|exact HR]|].
  split; [apply reg_kinds_step; assumption|].
  apply UR_step; assumption.
Qed.

Lemma CH3_init h :
  wf_scopes h = true -> P_Term.wf_keys h = true -> hist_kinds_ok h = true -> P_Once.wf_fns h = true ->
  CH3 init_state h.
Proof.
  intros Hs Hk Hkk Hf. destruct (CH2_init h Hs Hk Hf) as (A & B & C & _).
  split; [exact A|]. split; [exact B|]. split; [exact C|]. split; [exact Hkk|].
  exists reg0. split; [apply RegRel_init|]. split; [intros c []|]. intros bsc k. cbn. lia.
Qed.

(* ===================================================================== *)
(* Part 4 : the checker [chk_missing_op] on the runs of the model          *)
(* ===================================================================== *)

Lemma overdict_ok v : overdict_of v = OVOk -> v = VOk.
Proof. destruct v as [|e|[f e|c|]]; cbn; congruence. Qed.

Lemma part1_cases (ov : overdict) (cond nofail : bool) c :
  In c (if cond then
          match ov with
          | OVOk => [401]
          | OVErr _ QMissing | OVErr _ QCycle => []
          | _ => if nofail then [403] else []
          end
        else []) ->
  (nofail = true -> match ov with OVOk | OVErr _ QMissing | OVErr _ QCycle => True | _ => False end) ->
  c = 401 /\ cond = true /\ ov = OVOk.
Proof.
  destruct cond; [|intros []].
  destruct ov as [|ls [| | | |f e|f e|]|f e| |]; destruct nofail; cbn; intros H1 H2;
    try (destruct H1 as [<-|[]]; auto); try destruct H1; try (exfalso; apply H2; reflexivity).
Qed.

Lemma part2_cases (ov : overdict) (cond : bool) c :
  In c (if cond then match ov with OVOk => [] | _ => [402] end else []) -> c = 402.
Proof.
  destruct cond; [|intros []]. destruct ov; cbn; intros H; try destruct H as [<-|[]]; try reflexivity; destruct H.
Qed.

Section Final.
  Variables (cfg : config) (b : beh) (du : dur).
  Hypothesis Hdry : cfg_dry cfg = false.

  (* one Invoke: the three components of the checker *)
  Lemma missing_invoke st h s p r new c :
    CH2 st (OInvoke s p :: h) -> RegRel st r ->
    st_log (snd (invoke cfg b du st s p)) = new ++ st_log st ->
    In c (chk_missing_op r (log_of_events (rev (st_log st))) (OInvoke s p)
            (mkOObs (overdict_of (fst (invoke cfg b du st s p))) (rev new))) ->
    c = 402 \/
    (c = 401 /\ is_nil (r_decs r) = true /\ fst (invoke cfg b du st s p) = VOk /\
     forallb (avail_leaf r (built_of (log_of_events (rev (st_log st)))) s) (sig_leaves (ii_sig p)) = false).
  Proof.
    intros HC HR L Hin. pose proof HC as (HG & HT & HI & _).
    pose proof (P_Term.TH_step cfg b du st (OInvoke s p) h HT) as [_ Hvok]. cbn [step] in Hvok.
    unfold chk_missing_op in Hin. cbv zeta in Hin. cbn [oo_verdict oo_events] in Hin.
    apply in_app_or in Hin as [Hin|Hin]; [|apply in_app_or in Hin as [Hin|Hin]].
    - right. apply part1_cases in Hin.
      + destruct Hin as (-> & Hcond & Hov). apply andb_true_iff in Hcond as [Hav Hnd].
        apply negb_true_iff in Hav. split; [reflexivity|]. split; [exact Hnd|].
        split; [apply overdict_ok; exact Hov|exact Hav].
      + intros Hnf. apply negb_true_iff in Hnf. apply (invoke_403 cfg b du st s p new Hvok L Hnf).
    - left. eapply part2_cases. exact Hin.
    - exfalso. pose proof (invoke_404 cfg b du st h s p r new HC HR L) as H4. unfold chk404 in H4.
      rewrite H4 in Hin. destruct Hin.
  Qed.

  Lemma missing_op_weak st o h r new c :
    CH2 st (o :: h) -> RegRel st r ->
    st_log (snd (step cfg b du st o)) = new ++ st_log st ->
    In c (chk_missing_op r (log_of_events (rev (st_log st))) o
            (mkOObs (overdict_of (fst (step cfg b du st o))) (rev new))) ->
    c = 401 \/ c = 402.
  Proof.
    intros HC HR L Hin. destruct o as [q|s p|s p|s p|bk s f]; try destruct Hin.
    cbn [step] in *. destruct (missing_invoke st h s p r new c HC HR L Hin) as [->|(-> & _)]; auto.
  Qed.

  Lemma missing_op_strong st o h r new c :
    CH3 st (o :: h) -> RegRel st r ->
    st_log (snd (step cfg b du st o)) = new ++ st_log st ->
    In c (chk_missing_op r (log_of_events (rev (st_log st))) o
            (mkOObs (overdict_of (fst (step cfg b du st o))) (rev new))) ->
    c = 402.
  Proof.
    intros HC HR L Hin. destruct o as [q|s p|s p|s p|bk s f]; try destruct Hin.
    cbn [step] in *.
    destruct (missing_invoke st h s p r new c (CH3_CH2 _ _ HC) HR L Hin) as [->|(-> & Hnd & Hv & Hav)];
      [reflexivity|exfalso].
    destruct HC as (HG & (HRI & _ & Hk) & HI & _ & r0 & HR0 & _ & HU0).
    unfold P_Term.wf_keys in Hk. cbn [forallb P_Term.op_keys_ok] in Hk. apply andb_true_iff in Hk as [Hko _].
    assert (HU : UR r) by (eapply UR_ctors; [|exact HU0]; rewrite (rr_ctors HR), (rr_ctors HR0); reflexivity).
    assert (Hnodec : r_decs r = []) by (destruct (r_decs r); [reflexivity|discriminate Hnd]).
    assert (Hio : P_Once.inv_once st) by apply HG.
    pose proof (invoke_401 cfg b du r _ Hnodec HU st s p HRI HR HI (AvI_start st r Hio HR) Hko Hv) as H.
    assert (Htrue : forallb (avail_leaf r (built_of (log_of_events (rev (st_log st)))) s) (sig_leaves (ii_sig p)) = true).
    { apply forallb_forall. intros l Hl. apply avail_leaf_char; [eapply reg_fns_NoDup; eauto|]. apply H. exact Hl. }
    congruence.
  Qed.

  (* MAIN 2 + 3a: codes 403 and 404 never fire (no hypothesis on key kinds beyond wf_keys) *)
  Theorem chk_missing_no_403_404 h :
    wf_scopes h = true -> P_Term.wf_keys h = true -> P_Once.wf_fns h = true ->
    forall i c, In (i, c) (walk chk_missing_op 0 reg0 [] h (map obs_of (run cfg b du h))) ->
                c = 401 \/ c = 402.
  Proof.
    intros Hs Hk Hf i c. unfold run.
    change (@nil lentry) with (log_of_events (rev (st_log init_state))).
    apply (walk_run_from_reg cfg b du CH2 chk_missing_op (fun c => c = 401 \/ c = 402)).
    - intros st o h'. apply CH2_step. exact Hdry.
    - intros st o h'. apply CH2_wf.
    - intros st o h' r new HC HR L c' Hc. eapply missing_op_weak; eauto.
    - apply CH2_init; assumption.
    - apply RegRel_init.
  Qed.

  (* MAIN 2 + 3: codes 401, 403, 404 never fire; only the liveness code 402 is left open *)
  Theorem chk_missing_only_402 h :
    wf_scopes h = true -> P_Term.wf_keys h = true -> hist_kinds_ok h = true -> P_Once.wf_fns h = true ->
    forall i c, In (i, c) (walk chk_missing_op 0 reg0 [] h (map obs_of (run cfg b du h))) -> c = 402.
  Proof.
    intros Hs Hk Hkk Hf i c. unfold run.
    change (@nil lentry) with (log_of_events (rev (st_log init_state))).
    apply (walk_run_from_reg cfg b du CH3 chk_missing_op (fun c => c = 402)).
    - intros st o h'. apply CH3_step. exact Hdry.
    - intros st o h' H. apply (CH2_wf st o h' (CH3_CH2 _ _ H)).
    - intros st o h' r new HC HR L c' Hc. eapply missing_op_strong; eauto.
    - apply CH3_init; assumption.
    - apply RegRel_init.
  Qed.
End Final.
Print Assumptions chk_missing_no_403_404.
Print Assumptions chk_missing_only_402.

(* ---------- the same, stated on one Invoke of a run ---------- *)

Section RunLevel.
  Variables (cfg : config) (b : beh) (du : dur).
  Hypothesis Hdry : cfg_dry cfg = false.

  Lemma CH2_run_from h1 : forall st h2, CH2 st (h1 ++ h2) -> CH2 (snd (run_from cfg b du st h1)) h2.
  Proof.
    induction h1 as [|o h1 IH]; intros st h2 H; [exact H|].
    rewrite run_from_cons. cbn [snd]. apply IH. apply CH2_step; assumption.
  Qed.

  Lemma CH3_run_from h1 : forall st h2, CH3 st (h1 ++ h2) -> CH3 (snd (run_from cfg b du st h1)) h2.
  Proof.
    induction h1 as [|o h1 IH]; intros st h2 H; [exact H|].
    rewrite run_from_cons. cbn [snd]. apply IH. apply CH3_step; assumption.
  Qed.

  Variables (h1 : history) (s : sid) (p : invoke_in) (h2 : history).
  Let h := h1 ++ OInvoke s p :: h2.
  Let st := state_after cfg b du h1.
  Let r := reg_after h1 (map obs_of (run cfg b du h1)).
  Let log := log_of_events (P_Once.run_events cfg b du h1).

  Hypothesis Hs : wf_scopes h = true.
  Hypothesis Hk : P_Term.wf_keys h = true.
  Hypothesis Hf : P_Once.wf_fns h = true.

  Lemma run_RegRel : RegRel st r.
  Proof. apply reachable_RegRel. eapply wf_scopes_from_app. exact Hs. Qed.

  Lemma run_log : rev (st_log st) = P_Once.run_events cfg b du h1.
  Proof. unfold st. rewrite P_Once.state_after_log. apply rev_involutive. Qed.

  (* 404: no constructor executed by this Invoke has a directly missing dependency *)
  Theorem run_404 f e args o c :
    In (EExec f e RoleCtor args o)
       (new_events (st_log st) (st_log (snd (invoke cfg b du st s p)))) ->
    In c (r_ctors r) -> sc_fn c = f -> directly_missing r c = false.
  Proof.
    intros Hin Hc Hfn.
    assert (HC : CH2 st (OInvoke s p :: h2)) by (apply CH2_run_from; apply CH2_init; assumption).
    pose proof run_RegRel as HR. pose proof HC as (HG & (HRI & _ & Hk') & HI & _).
    unfold P_Term.wf_keys in Hk'. cbn [forallb P_Term.op_keys_ok] in Hk'. apply andb_true_iff in Hk' as [Hko _].
    destruct (invoke_R2 cfg b du r st s p HRI HR HI Hko) as (_ & new & L & F).
    rewrite L, P_Once.new_events_ext in Hin. apply in_rev in Hin.
    rewrite Forall_forall in F. destruct (F _ Hin) as (c' & Hc' & E & Hd).
    assert (Hn : NoDup (map sc_fn (r_ctors r))) by (eapply reg_fns_NoDup; [apply HG|exact HR]).
    rewrite (sc_fn_inj r Hn c c' Hc Hc'); [exact Hd|congruence].
  Qed.

  (* 403: if nothing failed the verdict is nil, a missing-type error or a cycle error *)
  Theorem run_403 :
    existsb is_fail_event (new_events (st_log st) (st_log (snd (invoke cfg b du st s p)))) = false ->
    match overdict_of (fst (invoke cfg b du st s p)) with
    | OVOk | OVErr _ QMissing | OVErr _ QCycle => True
    | _ => False
    end.
  Proof.
    intros Hnf.
    assert (HC : CH2 st (OInvoke s p :: h2)) by (apply CH2_run_from; apply CH2_init; assumption).
    destruct HC as (_ & HT & _).
    pose proof (P_Term.TH_step cfg b du st (OInvoke s p) h2 HT) as [_ Hvok]. cbn [step] in Hvok.
    destruct (P_Once.invoke_D cfg b du st s p) as (new & L & _).
    rewrite L, P_Once.new_events_ext in Hnf. eapply invoke_403; eauto.
  Qed.

  (* 401: a successful Invoke in a decorator-free registry has everything available *)
  Theorem run_401 :
    hist_kinds_ok h = true -> r_decs r = [] -> fst (invoke cfg b du st s p) = VOk ->
    forallb (avail_leaf r (built_of log) s) (sig_leaves (ii_sig p)) = true.
  Proof.
    intros Hkk Hnodec Hv.
    assert (HC : CH3 st (OInvoke s p :: h2)) by (apply CH3_run_from; apply CH3_init; assumption).
    pose proof run_RegRel as HR.
    destruct HC as (HG & (HRI & _ & Hk') & HI & _ & r0 & HR0 & _ & HU0).
    unfold P_Term.wf_keys in Hk'. cbn [forallb P_Term.op_keys_ok] in Hk'. apply andb_true_iff in Hk' as [Hko _].
    assert (HU : UR r) by (eapply UR_ctors; [|exact HU0]; rewrite (rr_ctors HR), (rr_ctors HR0); reflexivity).
    assert (Hio : P_Once.inv_once st) by apply HG.
    pose proof (invoke_401 cfg b du r _ Hnodec HU st s p HRI HR HI (AvI_start st r Hio HR) Hko Hv) as H.
    unfold log. rewrite <- run_log.
    apply forallb_forall. intros l Hl. apply avail_leaf_char; [eapply reg_fns_NoDup; eauto|]. apply H. exact Hl.
  Qed.
End RunLevel.
Print Assumptions run_404.
Print Assumptions run_403.
Print Assumptions run_401.

(* ---------- the whole checker chk_C04, given the provenance result ---------- *)

Lemma walk_incl (P P' : registry -> list lentry -> op -> oobs -> list nat) :
  (forall r log o ob c, In c (P' r log o ob) -> In c (P r log o ob)) ->
  forall h obs i0 r log v, In v (walk P' i0 r log h obs) -> In v (walk P i0 r log h obs).
Proof.
  intros H. induction h as [|o h IH]; intros [|ob obs] i0 r log v Hin; try destruct Hin.
  cbn [walk] in *. apply in_app_or in Hin as [Hin|Hin]; apply in_or_app.
  - left. apply in_map_iff in Hin as (c & <- & Hc). apply in_map. apply H. exact Hc.
  - right. apply IH. exact Hin.
Qed.

Section WithProv.
  Variables (cfg : config) (bt : list (fnid * list outcome)) (du : dur) (h : history).
  Let obs := map obs_of (run cfg (beh_of bt) du h).

  (* the provenance result (proved elsewhere): on model runs only the codes
     of the known decorator-ordering findings and code 123 are left to chk_prov *)
  Hypothesis Hprov : forall i c, In (i, c) (chk_prov bt h obs) -> c = 112 \/ c = 132 \/ c = 123.

  Theorem chk_C04_codes :
    cfg_dry cfg = false ->
    wf_scopes h = true -> P_Term.wf_keys h = true -> hist_kinds_ok h = true -> P_Once.wf_fns h = true ->
    forall i c, In (i, c) (chk_C04 cfg bt h obs) -> c = 402 \/ c = 112 \/ c = 132 \/ c = 123.
  Proof.
    intros Hdry Hs Hk Hkk Hf i c Hin. unfold chk_C04 in Hin.
    apply in_app_or in Hin as [Hin|Hin]; [|apply in_app_or in Hin as [Hin|Hin]].
    - left. eapply chk_missing_only_402; eauto.
    - right. apply Hprov in Hin. exact Hin.
    - exfalso.
      assert (H7 : In (i, c) (chk_C07 cfg h obs)).
      { unfold chk_C07. revert Hin. apply walk_incl. intros r log o ob c' Hc'. apply in_or_app. right. exact Hc'. }
      unfold obs in H7. rewrite P_Once.chk_C07_nil in H7. destruct H7.
  Qed.
End WithProv.
Print Assumptions chk_C04_codes.

(* ===================================================================== *)
(* Part 5 : the optional branch (code 123) and the converse of 401 for    *)
(*          missing-dependency errors, decorator-free registries           *)
(* ===================================================================== *)

(* ---------- the build sequence contains declared leaves only ---------- *)

Definition bounded (p : param) : Prop :=
  forall off i, In i (build_order off p) -> off <= i < off + nleaves p.

Lemma obj_bounded fs : Forall bounded fs -> forall off i,
  In i (fst (obj_go off fs)) \/ In i (snd (obj_go off fs)) ->
  off <= i < off + length (obj_leaves fs).
Proof.
  induction 1 as [|f t Hf Ht IH]; intros off i Hi; [cbn in Hi; tauto|].
  change (obj_leaves (f :: t)) with (decl_leaves f ++ obj_leaves t).
  rewrite app_length. fold (nleaves f).
  change (obj_go off (f :: t)) with
    (let r := obj_go (off + nleaves f) t in
     if is_soft_group f then (fst r, off :: snd r) else (build_order off f ++ fst r, snd r)) in Hi.
  cbv zeta in Hi.
  assert (Hn : is_soft_group f = true -> nleaves f = 1).
  { destruct f as [k o|k [|]|fs]; try discriminate. reflexivity. }
  destruct (is_soft_group f) eqn:Es; cbn [fst snd] in Hi.
  - specialize (Hn eq_refl). destruct Hi as [Hi|[<-|Hi]]; [|lia|];
      (assert (H : off + nleaves f <= i < off + nleaves f + length (obj_leaves t)) by (apply IH; auto); lia).
  - destruct Hi as [Hi|Hi].
    + apply in_app_or in Hi as [Hi|Hi]; [apply Hf in Hi; lia|].
      assert (H : off + nleaves f <= i < off + nleaves f + length (obj_leaves t)) by (apply IH; auto). lia.
    + assert (H : off + nleaves f <= i < off + nleaves f + length (obj_leaves t)) by (apply IH; auto). lia.
Qed.

Lemma build_order_bounded p : bounded p.
Proof.
  induction p as [k o|k s|fs IH] using param_ind2; intros off i Hi.
  - unfold nleaves. cbn in *. lia.
  - unfold nleaves. cbn in *. lia.
  - rewrite build_order_obj in Hi. apply in_app_or in Hi. rewrite nleaves_obj. apply obj_bounded; assumption.
Qed.

Lemma build_order_list_bounded : forall ps off i,
  In i (build_order_list off ps) -> off <= i < off + length (decl_leaves_list ps).
Proof.
  induction ps as [|p ps IH]; intros off i Hi; [destruct Hi|].
  cbn [decl_leaves_list build_order_list] in *. rewrite app_length. fold (nleaves p).
  apply in_app_or in Hi as [Hi|Hi].
  - apply build_order_bounded in Hi. lia.
  - apply IH in Hi. lia.
Qed.

Theorem build_seq_sound sg l : In l (sig_build_seq sg) -> In l (sig_leaves sg).
Proof.
  unfold sig_build_seq. intros H. apply in_map_iff in H as (i & <- & Hi).
  apply nth_In. unfold sig_order, sig_leaves in *. apply build_order_list_bounded in Hi. lia.
Qed.

(* ---------- inversion of availability ---------- *)

Lemma Avail_inv r built c :
  Avail r built c -> In (sc_fn c) built \/ forall l, In l (sig_leaves (sc_sig c)) -> LeafP r built (sc_orig c) l.
Proof.
  intros [c' Hc Hb|c' Hc H1 H2 H3]; [left; exact Hb|right].
  intros l Hl. destruct l as [k [|]|k [|]]; cbn [LeafP]; try exact I.
  - destruct (nearest_provider r (sc_orig c') k) as [c''|] eqn:E; [|exfalso; exact (H1 k Hl E)].
    exists c''. split; [reflexivity|]. exact (H2 k c'' Hl E).
  - intros c'' Hc''. exact (H3 k c'' Hl Hc'').
Qed.

(* availability does not change when functions that are available anyway are
   added to the set of those that have already run *)
Lemma Avail_absorb r built built' c :
  (forall c', In c' (r_ctors r) -> In (sc_fn c') built' -> In (sc_fn c') built \/ Avail r built c') ->
  Avail r built' c -> Avail r built c.
Proof.
  intros H. induction 1 as [c Hc Hb|c Hc H1 H2 IH2 H3 IH3].
  - destruct (H c Hc Hb) as [Hb'|Ha]; [apply Av_built; assumption|exact Ha].
  - apply Av_leaves; assumption.
Qed.

Lemma Avail_mono r built built' c :
  (forall f, In f built -> In f built') -> Avail r built c -> Avail r built' c.
Proof.
  intros H. induction 1 as [c Hc Hb|c Hc H1 H2 IH2 H3 IH3].
  - apply Av_built; auto.
  - apply Av_leaves; assumption.
Qed.

Definition gleaf_ok (l : pleaf) : bool :=
  match l with LGroup k _ => negb (Nat.eqb (k_group k) 0) | LSingle _ _ => true end.

Lemma flat_nil_find_map {A B} (f : A -> list B) l :
  flat_map f l = [] -> find_map (fun x => hd_error (f x)) l = None.
Proof.
  induction l as [|x l IH]; cbn [find_map flat_map]; [reflexivity|].
  intros H. apply app_eq_nil in H as [H1 H2]. rewrite H1. cbn. apply IH. exact H2.
Qed.

Lemma no_provider_nearest st r v k :
  RegRel st r -> single_only r k -> has_provider st v k = false -> nearest_provider r v k = None.
Proof.
  intros HR Hs Hn. unfold has_provider in Hn.
  pose proof (providers_on_path_single st r v k HR Hs) as E.
  destruct (providers_on_path st v k); [|discriminate Hn]. cbn [map] in E.
  unfold nearest_provider. apply flat_nil_find_map. symmetry. exact E.
Qed.

Section S4.
  Variables (cfg : config) (b : beh) (du : dur) (r : registry) (built0 : list fnid).
  Hypothesis Hnodec : r_decs r = [].
  Hypothesis HUR : forall bsc k, length (providers_in r bsc k) <= 1.
  Hypothesis Hkinds : reg_kinds_ok r.

  (* what is in built0 has been called *)
  Definition BI (st : state) : Prop :=
    forall n, n < length (st_nodes st) -> In (c_fn (get_node st n)) built0 -> c_called (get_node st n) = true.

  (* group parameters carry a group name *)
  Definition GKI (st : state) : Prop :=
    forall n, forallb gleaf_ok (sig_leaves (c_sig (get_node st n))) = true.

  Definition Ctx4 (st : state) : Prop :=
    Ctx3 r st /\ AvI r built0 st /\ BI st /\ GKI st.

  Definition pre4 (t : task) (st : state) : Prop :=
    P_Term.tpre t st /\
    match t with
    | TLeaf _ l => gleaf_ok l = true
    | TLeaves _ ls => forallb gleaf_ok ls = true
    | _ => True
    end.

  Definition called_sctor (st : state) (c : sctor) : Prop :=
    exists n, n < length (st_nodes st) /\ c = sctor_of (get_node st n) /\ c_called (get_node st n) = true.

  Definition post4 (t : task) (st : state) (o : out) : Prop :=
    match t, fst o with
    | TCallCtor n, Fail e =>
        has_missingdeps e = true -> ~ Avail r built0 (sctor_of (get_node st n))
    | TLeaf v l, Fail e => has_missingdeps e = true -> ~ LeafP r built0 v l
    | TLeaf v (LSingle k true), Done _ =>
        forall c, nearest_provider r v k = Some c -> called_sctor (snd o) c \/ ~ Avail r built0 c
    | TLeaves v ls, Fail e =>
        has_missingdeps e = true -> exists l, In l ls /\ ~ LeafP r built0 v l
    | TLeaves v ls, Done _ =>
        forall k c, In (LSingle k true) ls -> nearest_provider r v k = Some c ->
                    called_sctor (snd o) c \/ ~ Avail r built0 c
    | _, _ => True
    end.

  Lemma called_sctor_mono X Y c :
    pres X Y -> (forall n, c_called (get_node X n) = true -> c_called (get_node Y n) = true) ->
    called_sctor X c -> called_sctor Y c.
  Proof.
    intros HP Hc (n & Hn & E & Hcl). exists n. destruct (P_Term.pres_lens _ _ HP) as (LN & _ & _).
    rewrite LN, (sctor_pres X Y n HP). auto.
  Qed.

  Definition P4 (t : task) (st : state) (o : out) : Prop := pre4 t st -> Ctx4 st -> post4 t st o.

  Lemma BI_step X Y : pres X Y -> (forall n, c_called (get_node X n) = true -> c_called (get_node Y n) = true) ->
    BI X -> BI Y.
  Proof.
    intros HP Hc H n Hn Hin. destruct (P_Term.pres_lens _ _ HP) as (LN & _ & _). rewrite LN in Hn.
    destruct HP as [E _]. apply skel_eq_fields in E. destruct E. rewrite sf_cfn in Hin. auto.
  Qed.

  Lemma GKI_pres X Y : pres X Y -> GKI X -> GKI Y.
  Proof. intros [E _] H n. apply skel_eq_fields in E. destruct E. rewrite sf_csig. apply H. Qed.

  Lemma not_avail_node st n l :
    Ctx4 st -> n < length (st_nodes st) -> c_called (get_node st n) = false ->
    In l (sig_leaves (c_sig (get_node st n))) -> ~ LeafP r built0 (c_orig (get_node st n)) l ->
    ~ Avail r built0 (sctor_of (get_node st n)).
  Proof.
    intros (_ & _ & HB & _) Hn Hc Hl Hnl Ha. apply Avail_inv in Ha as [Hb|Hall].
    - cbn [sc_fn sctor_of] in Hb. rewrite (HB n Hn Hb) in Hc. discriminate.
    - apply Hnl. apply (Hall l). exact Hl.
  Qed.

  Section Step4.
    Variable fuel : nat.
    Let rec := eval cfg b du fuel.
    Hypothesis IH : forall t st, P4 t st (rec t st).

    Let F_PT : forall t st, P_Term.PT t st (rec t st) := P_Term.eval_PT cfg b du fuel.
    Let F_pres : forall t st, pres st (snd (rec t st)) := eval_pres cfg b du fuel.

    Lemma ctx4_rec t st : P_Term.tpre t st -> Ctx4 st -> Ctx4 (snd (rec t st)).
    Proof.
      intros Hpre (HC & HA & HB & HK).
      split; [apply (ctx3_rec cfg b du r fuel t st Hpre HC)|].
      split; [apply (eval_401 cfg b du r built0 Hnodec HUR fuel t st Hpre HC HA)|].
      destruct (F_PT t st) as [Hp H]. destruct (H Hpre (proj1 HC)) as (_ & (_ & _ & T3) & _).
      split; [eapply BI_step; eauto|eapply GKI_pres; eauto].
    Qed.

    Lemma s4_call_ctors : forall ns st,
      (forall n, In n ns -> n < length (st_nodes st)) -> Ctx4 st ->
      match fst (call_ctors rec ns st) with
      | LFail _ e => has_missingdeps e = true ->
                     exists n, In n ns /\ ~ Avail r built0 (sctor_of (get_node st n))
      | _ => True
      end.
    Proof.
      induction ns as [|n t IHn]; intros st Hr HC; cbn [call_ctors]; [exact I|].
      assert (Hpre : pre4 (TCallCtor n) st) by (split; [apply Hr; left; reflexivity|exact I]).
      pose proof (ctx4_rec (TCallCtor n) st (proj1 Hpre) HC) as C1.
      pose proof (IH (TCallCtor n) st Hpre HC) as H1. unfold post4 in H1.
      pose proof (F_pres (TCallCtor n) st) as Hp.
      destruct (rec (TCallCtor n) st) as [[x|e|a] st1]; cbn [fst snd] in *.
      - destruct (P_Term.pres_lens _ _ Hp) as (L1 & _ & _).
        assert (Hr1 : forall m, In m t -> m < length (st_nodes st1)) by (intros m Hm; rewrite L1; apply Hr; right; exact Hm).
        specialize (IHn st1 Hr1 C1).
        destruct (call_ctors rec t st1) as [[|c e|a] st2]; cbn [fst] in *; try exact I.
        intros Hmd. destruct (IHn Hmd) as (m & Hm & Hna). exists m. split; [right; exact Hm|].
        rewrite <- (sctor_pres st st1 m Hp). exact Hna.
      - intros Hmd. exists n. split; [left; reflexivity|apply H1; exact Hmd].
      - exact I.
    Qed.

    Lemma s4_build_list v : forall ls st, forallb P_Term.leaf_ok ls = true -> forallb gleaf_ok ls = true ->
      Ctx4 st -> post4 (TLeaves v ls) st (build_list rec v ls st).
    Proof.
      induction ls as [|l t IHl]; intros st Hl Hg HC; cbn [build_list].
      { unfold post4. cbn [fst]. intros k c []. }
      cbn [forallb] in Hl, Hg. apply andb_true_iff in Hl as [Hl Ht]. apply andb_true_iff in Hg as [Hg Hgt].
      assert (Hpre : pre4 (TLeaf v l) st) by (split; assumption).
      pose proof (ctx4_rec (TLeaf v l) st Hl HC) as C1.
      pose proof (IH (TLeaf v l) st Hpre HC) as H1. unfold post4 in *.
      destruct (rec (TLeaf v l) st) as [[x|e|a] st1]; cbn [fst snd] in *.
      - specialize (IHl st1 Ht Hgt C1).
        destruct (P_Term.T_build_list rec F_PT v t st1 Ht (proj1 (proj1 C1))) as (_ & (_ & _ & T3) & _).
        pose proof (pres_build_list rec F_pres v t st1) as Hp2.
        destruct (build_list rec v t st1) as [[x2|e2|a2] st2]; cbn [fst snd] in *; try exact I.
        + intros k c [->|Hin] Hc; [|apply (IHl k c); assumption].
          destruct (H1 c Hc) as [Hcl|Hna]; [left|right; exact Hna].
          eapply called_sctor_mono; eauto.
        + intros Hmd. destruct (IHl Hmd) as (l' & Hl' & Hn). exists l'. split; [right; exact Hl'|exact Hn].
      - intros Hmd. exists l. split; [left; reflexivity|].
        destruct l as [k [|]|k s]; apply H1; exact Hmd.
      - exact I.
    Qed.

    Lemma np_none st k : RegRel st r -> single_only r k -> forall bs,
      find_provider st bs k = PNone -> np r k bs = None.
    Proof.
      intros HR Hs. induction bs as [|b0 t IHb]; cbn [find_provider]; [reflexivity|].
      destruct (alookup key_eqb k (s_values (get_scope st b0))); [discriminate|].
      pose proof (RegRel_providers_in st r b0 k HR Hs) as Ep.
      destruct (providers_at st b0 k) as [|n ns]; [|discriminate].
      intros H. unfold np. cbn [find_map]. rewrite Ep. cbn. apply IHb. exact H.
    Qed.

    Lemma s4_build_single v k opt st : k_group k = 0 -> Ctx4 st ->
      post4 (TLeaf v (LSingle k opt)) st (build_single rec v k opt st).
    Proof.
      intros Hk HC4. pose proof HC4 as (HC & HA & HB & HGK).
      pose proof HC as (HG & HR & (HD & HCV)). unfold build_single.
      rewrite (find_dec_none r Hnodec st v k HR).
      rewrite (find_map_all_none (fun s => alookup key_eqb k (s_dvalues (get_scope st s))) (path st v))
        by (intros x; apply (no_dc r Hnodec st x k HR HD)).
      assert (Hs : single_only r k) by (eapply single_only_KI; [exact HR|apply HG|exact Hk]).
      destruct (find_provider st (path st v) k) as [a|bsc ns|] eqn:EP.
      - (* cached: its provider was called *)
        unfold post4. cbn [fst snd]. destruct opt; [|exact I].
        intros c Hc. left.
        pose proof (find_provider_np r st k HR Hs (path st v)) as H. rewrite EP in H.
        destruct H as (bsc & Ea & Hnp).
        destruct (HCV bsc k a Ea) as (n & A1 & A2 & A3 & A4).
        assert (Hin : In (sctor_of (get_node st n)) (providers_in r bsc k)).
        { unfold providers_in. apply filter_In. split; [apply node_in_reg'; assumption|].
          cbn [sc_home sctor_of]. rewrite A3, Nat.eqb_refl. exact A4. }
        rewrite (single_in_list _ _ (HUR bsc k) Hin) in Hnp. specialize (Hnp _ eq_refl).
        rewrite (np_nearest r st v k HR) in Hnp. exists n. split; [exact A1|]. split; [congruence|exact A2].
      - pose proof (find_provider_np r st k HR Hs (path st v)) as Hnp. rewrite EP in Hnp.
        destruct Hnp as (Ens & Hne & Hnp).
        assert (Hr : forall n, In n ns -> n < length (st_nodes st)).
        { intros n Hn. rewrite Ens in Hn. eapply P_Term.prov_range; [apply HG|exact Hn]. }
        (* the scope has exactly one provider of k: the nearest one *)
        assert (H1 : exists n0, ns = [n0] /\ nearest_provider r v k = Some (node_sctor st n0)).
        { pose proof (RegRel_providers_in st r bsc k HR Hs) as Ep. rewrite <- Ens in Ep.
          pose proof (HUR bsc k) as Hlen. rewrite Ep, map_length in Hlen.
          destruct ns as [|n0 [|n1 ns']]; [exfalso; apply Hne; reflexivity| |cbn in Hlen; lia].
          exists n0. split; [reflexivity|]. rewrite <- (np_nearest r st v k HR). exact Hnp. }
        destruct H1 as (n0 & -> & Hnear).
        pose proof (s4_call_ctors [n0] st Hr HC4) as H4.
        destruct (P_Term.T_call_ctors rec F_PT [n0] st Hr HG) as (_ & _ & _ & Hcalled).
        pose proof (pres_call_ctors rec F_pres [n0] st) as Hp.
        destruct (call_ctors rec [n0] st) as [[|c e|a] st1]; cbn [fst snd] in *.
        + destruct (alookup key_eqb k (s_values (get_scope st1 bsc))); unfold post4; cbn [fst snd]; [|destruct opt; exact I].
          destruct opt; [|exact I]. intros c Hc. left. exists n0.
          destruct (P_Term.pres_lens _ _ Hp) as (L1 & _ & _).
          split; [rewrite L1; apply Hr; left; reflexivity|].
          split; [rewrite (sctor_pres st st1 n0 Hp); unfold node_sctor in Hnear; congruence|].
          apply Hcalled; [reflexivity|left; reflexivity].
        + assert (Hna : has_missingdeps e = true -> ~ Avail r built0 (node_sctor st n0)).
          { intros Hmd. destruct (H4 Hmd) as (m & [<-|[]] & Hna). exact Hna. }
          destruct opt; cbn [andb].
          * destruct (has_missingdeps e) eqn:Emd; unfold post4; cbn [fst snd].
            -- intros c1 Hc. right. rewrite Hnear in Hc. injection Hc as <-. apply Hna. reflexivity.
            -- cbn [has_missingdeps wrap e_links existsb is_missingdeps]. fold (has_missingdeps e).
               rewrite Emd. discriminate.
          * unfold post4. cbn [fst snd has_missingdeps wrap e_links existsb is_missingdeps orb].
            fold (has_missingdeps e). intros Hmd (c' & Hc' & Ha).
            rewrite Hnear in Hc'. injection Hc' as <-. exact (Hna Hmd Ha).
        + unfold post4; cbn [fst]; destruct opt; exact I.
      - unfold post4. destruct opt; cbn [fst snd].
        + intros c Hc. rewrite <- (np_nearest r st v k HR), (np_none st k HR Hs _ EP) in Hc. discriminate.
        + cbn. discriminate.
    Qed.

    Lemma s4_build_group v k soft st : k_group k <> 0 -> Ctx4 st ->
      post4 (TLeaf v (LGroup k soft)) st (build_group rec v k soft st).
    Proof.
      intros Hk HC4. pose proof HC4 as (HC & HA & HB & HGK).
      pose proof HC as (HG & HR & (HD & HCV)). unfold build_group.
      rewrite (call_group_decs_nodec r Hnodec rec st k HR).
      rewrite (find_map_all_none (fun s => alookup key_eqb k (s_dgroups (get_scope st s))) (path st v))
        by (intros x; apply (no_dc r Hnodec st x k HR HD)).
      destruct soft; [exact I|].
      assert (Hr : forall n, In n (providers_on_path st v k) -> n < length (st_nodes st)).
      { intros n Hn. destruct HG as ([_ HBI] & _). eapply pop_bound; eauto. }
      pose proof (s4_call_ctors _ st Hr HC4) as H4.
      destruct (call_ctors rec (providers_on_path st v k) st) as [[|c e|a] st1]; unfold post4; cbn [fst snd] in *;
        try exact I.
      cbn [has_missingdeps wrap e_links existsb is_missingdeps orb]. fold (has_missingdeps e).
      intros Hmd Hall. destruct (H4 Hmd) as (n & Hn & Hna). apply Hna. cbn [LeafP] in Hall. apply Hall.
      apply (P_Reg.feeders_In st r v k _ HR (proj1 (proj1 HG)) (reg_kinds_group_only r k Hkinds Hk)).
      exists n. split; [exact Hn|reflexivity].
    Qed.

    Lemma shallow_missing_In st v ls k0 ks :
      shallow_missing st v ls = k0 :: ks ->
      In (LSingle k0 false) ls /\ has_provider st v k0 = false.
    Proof.
      intros E. assert (Hin : In k0 (shallow_missing st v ls)) by (rewrite E; left; reflexivity).
      unfold shallow_missing in Hin. apply in_flat_map in Hin as (l & Hl & Hk).
      destruct l as [k [|]|k s]; try destruct Hk.
      destruct (has_provider st v k) eqn:Ehp; cbn [orb] in Hk; [destruct Hk|].
      destruct (is_some _); [destruct Hk|]. destruct Hk as [<-|[]]. auto.
    Qed.

    Lemma s4_call_ctor n st : P4 (TCallCtor n) st (call_ctor cfg b du rec n st).
    Proof.
      intros [Hn _] HC4. pose proof HC4 as (HC & HA & HB & HGK). pose proof HC as (HG & HR & HI).
      cbn [P_Term.tpre] in Hn. unfold call_ctor.
      destruct (c_called (get_node st n)) eqn:Ecalled; [exact I|].
      destruct (c_onstack (get_node st n)); [unfold post4; cbn; discriminate|].
      set (c := get_node st n) in *. set (st0 := set_onstack st n true).
      assert (C0 : Ctx4 st0).
      { split; [|split; [apply AvI_set_onstack; exact HA|split]].
        - split; [apply P_Term.G_push_node; exact HG|].
          split; [eapply RegRel_pres; [apply pres_set_onstack|exact HR]|].
          eapply I2_quiet; [apply (quiet_set_onstack r)|exact HI].
        - revert HB. apply BI_step; [apply pres_set_onstack|]. intros m Hm. unfold st0. rewrite P_Term.called_set_onstack. exact Hm.
        - revert HGK. apply GKI_pres. apply pres_set_onstack. }
      assert (Hsig : P_Term.wf_sig (c_sig c) = true) by (destruct HG as (_ & HK & _); apply (P_Term.ki_nsig HK)).
      destruct (shallow_missing st0 (c_orig c) (sig_leaves (c_sig c))) as [|k0 ks] eqn:ES.
      2:{ unfold post4. cbn [fst]. intros _.
          apply shallow_missing_In in ES as [Hl Hhp].
          assert (Hk0 : k_group k0 = 0).
          { unfold P_Term.wf_sig in Hsig. apply andb_true_iff in Hsig as [Hsig _].
            rewrite forallb_forall in Hsig. specialize (Hsig _ Hl). apply Nat.eqb_eq. exact Hsig. }
          assert (Hnone : nearest_provider r (c_orig c) k0 = None).
          { apply (no_provider_nearest st0 r _ k0 (proj1 (proj2 (proj1 C0)))
                     (single_only_KI st r k0 HR (proj1 (proj2 HG)) Hk0) Hhp). }
          apply (not_avail_node st n (LSingle k0 false) HC4 Hn Ecalled Hl).
          cbn [LeafP]. intros (c' & Hc' & _). fold c in Hc'. rewrite Hnone in Hc'. discriminate. }
      assert (Hpre : pre4 (TLeaves (c_orig c) (sig_build_seq (c_sig c))) st0).
      { split; [apply P_Term.wf_sig_build_seq; exact Hsig|].
        apply forallb_forall. intros l Hl. apply build_seq_sound in Hl.
        specialize (HGK n). rewrite forallb_forall in HGK. apply HGK. exact Hl. }
      pose proof (IH _ st0 Hpre C0) as H1. unfold post4 in H1.
      destruct (rec (TLeaves (c_orig c) (sig_build_seq (c_sig c))) st0) as [[built|e|a] st1]; cbn [fst snd] in *.
      - destruct (run_fn cfg b du RoleCtor (c_fn c) (place (sig_order (c_sig c)) built) st1) as [[o e] st2].
        destruct o as [lens| |]; [| |destruct (cfg_recover cfg)]; unfold post4; cbn; try exact I; discriminate.
      - unfold post4. cbn [fst has_missingdeps wrap e_links existsb is_missingdeps orb]. fold (has_missingdeps e).
        intros Hmd. destruct (H1 Hmd) as (l & Hl & Hnl).
        apply (not_avail_node st n l HC4 Hn Ecalled); [apply build_seq_sound; exact Hl|exact Hnl].
      - exact I.
    Qed.

    Lemma s4_evalF t st : P4 t st (evalF cfg b du rec t st).
    Proof.
      destruct t as [v [k opt|k soft]|v ls|n|d]; cbn [evalF].
      - intros [Hpre _] HC. cbn [P_Term.tpre P_Term.leaf_ok] in Hpre. apply Nat.eqb_eq in Hpre.
        apply s4_build_single; assumption.
      - intros [_ Hg] HC. cbn [gleaf_ok] in Hg. apply negb_true_iff, Nat.eqb_neq in Hg.
        apply s4_build_group; assumption.
      - intros [Hpre Hg] HC. apply s4_build_list; assumption.
      - apply s4_call_ctor.
      - intros [[Hd _] _] ((_ & HR & _) & _). rewrite (nodecs r Hnodec st HR) in Hd. cbn in Hd. lia.
    Qed.
  End Step4.

  Theorem eval_md fuel : forall t st, P4 t st (eval cfg b du fuel t st).
  Proof.
    induction fuel as [|f IHf]; intros t st; cbn [eval].
    - intros _ _. unfold post4. cbn [fst]. destruct t as [v [k [|]|k s]|v ls|n|d]; exact I.
    - apply s4_evalF. exact IHf.
  Qed.
End S4.
Print Assumptions eval_md.

(* ---------- code 123 at the level of one consumer ---------- *)

Section Guard123.
  Variables (cfg : config) (b : beh) (du : dur) (r : registry) (built0 : list fnid).
  Hypothesis Hdry : cfg_dry cfg = false.
  Hypothesis Hnodec : r_decs r = [].
  Hypothesis HUR : forall bsc k, length (providers_in r bsc k) <= 1.
  Hypothesis Hkinds : reg_kinds_ok r.

  (* A consumer (constructor or invoked function) whose parameters are built
     from state st in view v, reaching st'.  If an optional single parameter k
     has a nearest provider c that has not succeeded when the consumer is
     about to run, then c is unavailable, also with respect to everything
     built so far: the guard of checker code 123 holds. *)
  Theorem opt_zero_guard_123 fuel v ls st built st' k c :
    Ctx4 r built0 st -> P_Once.refs_ok st -> P_Once.inv_once st ->
    forallb P_Term.leaf_ok ls = true -> forallb gleaf_ok ls = true ->
    eval cfg b du fuel (TLeaves v ls) st = (Done built, st') ->
    In (LSingle k true) ls -> nearest_provider r v k = Some c ->
    succ_of (log_of_events (rev (st_log st'))) (sc_fn c) = None ->
    avail_ctor r (built_of (log_of_events (rev (st_log st')))) c = false.
  Proof.
    intros HC4 Hrefs Hio Hl Hg Ev Hin Hnear Hsucc.
    pose proof HC4 as (HC & HA & HB & HGK). pose proof HC as (HG & HR & HI).
    pose proof (eval_md cfg b du r built0 Hnodec HUR Hkinds fuel (TLeaves v ls) st (conj Hl Hg) HC4) as H4.
    destruct (eval_401 cfg b du r built0 Hnodec HUR fuel (TLeaves v ls) st Hl HC HA) as [A' _].
    destruct (P_Once.eval_once cfg b du Hdry fuel (TLeaves v ls) st Hrefs I Hio) as [Hio' _].
    pose proof (eval_pres cfg b du fuel (TLeaves v ls) st) as Hp.
    rewrite Ev in H4, A', Hio', Hp. unfold post4 in H4. cbn [fst snd] in *.
    assert (HR' : RegRel st' r) by (eapply RegRel_pres; eauto).
    assert (Hnd : NoDup (map sc_fn (r_ctors r))) by (eapply reg_fns_NoDup; eauto).
    destruct Hio' as (_ & Hcs & _).
    destruct (H4 k c Hin Hnear) as [(n & Hn & -> & Hcl)|Hna].
    - exfalso. apply (Hcs n Hn) in Hcl. cbn [sc_fn sctor_of] in Hsucc.
      pose proof (P_Once.succ_of_events (c_fn (P_Once.nd n (st_nodes st'))) (rev (st_log st'))) as E.
      rewrite P_Once.succb_rev, Hcl in E. unfold P_Once.nd in E. fold (get_node st' n) in E.
      rewrite Hsucc in E. discriminate E.
    - destruct (avail_ctor r (built_of (log_of_events (rev (st_log st')))) c) eqn:Eav; [|reflexivity].
      exfalso. apply Hna.
      apply (avail_ctor_char r _ Hnd c (nearest_provider_In _ _ _ _ Hnear)) in Eav.
      revert Eav. apply Avail_absorb. intros c' Hc' Hb. right.
      rewrite (rr_ctors HR') in Hc'. apply in_map_iff in Hc' as (cn & <- & Hcn).
      apply (In_nth _ _ dummy_cnode) in Hcn as (m & Hm & <-). fold (get_node st' m) in *.
      apply A'; [exact Hm|]. apply (Hcs m Hm). apply built_of_succb in Hb. rewrite P_Once.succb_rev in Hb. exact Hb.
  Qed.
End Guard123.
Print Assumptions opt_zero_guard_123.

(* ---------- the converse of 401 for missing-dependency errors ---------- *)

Lemma BI_start st : P_Once.inv_once st -> BI (built_of (log_of_events (rev (st_log st)))) st.
Proof.
  intros (_ & Hc & _) n Hn Hin. apply built_of_succb in Hin. rewrite P_Once.succb_rev in Hin.
  apply (Hc n Hn). exact Hin.
Qed.

Section Ops4.
  Variables (cfg : config) (b : beh) (du : dur) (r : registry) (built0 : list fnid).
  Hypothesis Hnodec : r_decs r = [].
  Hypothesis HUR : forall bsc k, length (providers_in r bsc k) <= 1.
  Hypothesis Hkinds : reg_kinds_ok r.

  Lemma invoke_tail_md s p st1 e :
    Ctx4 r built0 st1 -> forallb P_Term.leaf_ok (sig_leaves (ii_sig p)) = true ->
    forallb gleaf_ok (sig_leaves (ii_sig p)) = true ->
    fst (match eval cfg b du (eval_fuel st1) (TLeaves s (sig_build_seq (ii_sig p))) st1 with
         | (Fail e, st2) => (VErr (wrap LArgsFailed e), st2)
         | (Abort a, st2) => (VAbort a, st2)
         | (Done built, st2) =>
             let args := place (sig_order (ii_sig p)) built in
             match run_fn cfg b du RoleInv (ii_fn p) args st2 with
             | (OOk _, _, st3) => (VOk, st3)
             | (OErr, e, st3) => (VErr (mkErr [] (RUser (ii_fn p) e)), st3)
             | (OPanic, e, st3) =>
                 if cfg_recover cfg then (VErr (mkErr [] (RPanic (ii_fn p) e)), st3)
                 else (VAbort (APanicked (ii_fn p) e), st3)
             end
         end) = VErr e ->
    has_missingdeps e = true ->
    exists l, In l (sig_leaves (ii_sig p)) /\ ~ LeafP r built0 s l.
  Proof.
    intros HC Hl Hg.
    assert (Hpre : pre4 (TLeaves s (sig_build_seq (ii_sig p))) st1).
    { split; [apply P_Term.leaves_build_seq; exact Hl|].
      apply forallb_forall. intros l Hin. apply build_seq_sound in Hin.
      rewrite forallb_forall in Hg. apply Hg. exact Hin. }
    pose proof (eval_md cfg b du r built0 Hnodec HUR Hkinds (eval_fuel st1) _ st1 Hpre HC) as H4.
    unfold post4 in H4.
    destruct (eval cfg b du (eval_fuel st1) (TLeaves s (sig_build_seq (ii_sig p))) st1) as [[x|e0|a] st2];
      cbn [fst snd] in *.
    - cbn zeta. destruct (run_fn cfg b du RoleInv (ii_fn p) _ st2) as [[o x0] st3].
      destruct o; [discriminate| |destruct (cfg_recover cfg); [|discriminate]];
        cbn [fst]; intros [= <-]; cbn; discriminate.
    - intros [= <-]. cbn [has_missingdeps wrap e_links existsb is_missingdeps orb]. fold (has_missingdeps e0).
      intros Hmd. destruct (H4 Hmd) as (l & Hin & Hn). exists l. split; [apply build_seq_sound; exact Hin|exact Hn].
    - discriminate.
  Qed.

  Theorem invoke_md st s p e :
    P_Term.RI st -> RegRel st r -> I2 st -> AvI r built0 st -> BI built0 st -> GKI st ->
    forallb P_Term.leaf_ok (sig_leaves (ii_sig p)) = true ->
    forallb gleaf_ok (sig_leaves (ii_sig p)) = true ->
    fst (invoke cfg b du st s p) = VErr e -> has_missingdeps e = true ->
    exists l, In l (sig_leaves (ii_sig p)) /\ ~ LeafP r built0 s l.
  Proof.
    intros HRI HR HI HA HB HK Hl Hg. pose proof HRI as (S0 & K0 & V0 & Q0).
    assert (G0 : P_Term.G st) by (split; [exact S0|split; assumption]).
    unfold invoke. destruct (shallow_missing st s (sig_leaves (ii_sig p))) as [|k0 ks] eqn:ES.
    2:{ cbn [fst]. intros [= <-] _. apply shallow_missing_In in ES as [Hin Hhp].
        exists (LSingle k0 false). split; [exact Hin|]. cbn [LeafP]. intros (c & Hc & _).
        assert (Hk0 : k_group k0 = 0).
        { rewrite forallb_forall in Hl. specialize (Hl _ Hin). apply Nat.eqb_eq. exact Hl. }
        rewrite (no_provider_nearest st r s k0 HR (single_only_KI st r k0 HR K0 Hk0) Hhp) in Hc. discriminate. }
    destruct (s_verified (get_scope st s)).
    - apply invoke_tail_md; [|exact Hl|exact Hg]. split; [split; [exact G0|split; assumption]|]. auto.
    - destruct (is_acyclic (scope_graph st s)) as [[[|] x]|].
      + pose proof (P_Term.RI_set_verified st s true HRI) as (S1 & K1 & V1 & Q1).
        apply invoke_tail_md; [|exact Hl|exact Hg].
        split; [|split; [eapply AvI_nodes; [|exact HA]; reflexivity|split]].
        * split; [split; [exact S1|split; assumption]|].
          split; [eapply RegRel_skel; [|exact HR]; symmetry; apply skel_upd_verified|].
          apply I2_set_verified. exact HI.
        * intros n Hn Hin. apply (HB n Hn Hin).
        * intros n. apply (HK n).
      + cbn [fst]. intros [= <-]. cbn. discriminate.
      + cbn [fst]. discriminate.
  Qed.
End Ops4.
Print Assumptions invoke_md.

(* ---------- group parameters carry a group name: the history-level hypothesis ---------- *)

Definition op_gkeys_ok (o : op) : bool :=
  match o with
  | OProvide _ p => forallb gleaf_ok (sig_leaves (pi_sig p))
  | OInvoke _ p => forallb gleaf_ok (sig_leaves (ii_sig p))
  | _ => true
  end.
Definition wf_gkeys (h : history) : bool := forallb op_gkeys_ok h.

Lemma GKI_nodes st st' :
  (forall n, get_node st' n = get_node st n \/ forallb gleaf_ok (sig_leaves (c_sig (get_node st' n))) = true) ->
  GKI st -> GKI st'.
Proof. intros H HK n. destruct (H n) as [E|E]; [rewrite E; apply HK|exact E]. Qed.

Lemma GKI_init : GKI init_state.
Proof. intros [|n]; reflexivity. Qed.

Lemma GKI_step cfg b du st o : op_gkeys_ok o = true -> GKI st -> GKI (snd (step cfg b du st o)).
Proof.
  intros Ho. destruct o as [q|s p|s p|s p|bk s f]; cbn [step snd op_gkeys_ok] in *.
  - destruct (P_Once.new_scope_spec st q) as (En & _). apply GKI_nodes. intros n. left. unfold get_node. rewrite En. reflexivity.
  - destruct (P_Once.provide_spec cfg st s p) as (_ & Hn & _). apply GKI_nodes. intros n.
    unfold get_node. destruct Hn as [[En _]|[En _]]; rewrite En; [left; reflexivity|].
    destruct (Nat.lt_ge_cases n (length (st_nodes st))) as [Hlt|Hge].
    + left. apply app_nth1. exact Hlt.
    + right. destruct (Nat.eq_dec n (length (st_nodes st))) as [->|Hne].
      * rewrite nth_middle. exact Ho.
      * rewrite nth_overflow by (rewrite app_length; cbn; lia). reflexivity.
  - destruct (P_Once.decorate_spec st s p) as (En & _). apply GKI_nodes. intros n. left. unfold get_node. rewrite En. reflexivity.
  - intros HK n. pose proof (skel_eq_fields _ _ (invoke_skel cfg b du st s p)) as E. destruct E.
    rewrite sf_csig. apply HK.
  - auto.
Qed.

Definition CH4 (st : state) (h : history) : Prop := CH3 st h /\ GKI st /\ wf_gkeys h = true.

Lemma CH4_step cfg b du st o h :
  cfg_dry cfg = false -> CH4 st (o :: h) -> CH4 (snd (step cfg b du st o)) h.
Proof.
  intros Hdry (H3 & HK & Hg). unfold wf_gkeys in Hg. cbn [forallb] in Hg. apply andb_true_iff in Hg as [Hgo Hg].
  split; [apply CH3_step; assumption|]. split; [apply GKI_step; assumption|exact Hg].
Qed.

Lemma CH4_run_from cfg b du h1 : cfg_dry cfg = false ->
  forall st h2, CH4 st (h1 ++ h2) -> CH4 (snd (run_from cfg b du st h1)) h2.
Proof.
  intros Hdry. induction h1 as [|o h1 IH]; intros st h2 H; [exact H|].
  rewrite run_from_cons. cbn [snd]. apply IH. apply CH4_step; assumption.
Qed.

Section RunLevel4.
  Variables (cfg : config) (b : beh) (du : dur).
  Hypothesis Hdry : cfg_dry cfg = false.
  Variables (h1 : history) (s : sid) (p : invoke_in) (h2 : history).
  Let h := h1 ++ OInvoke s p :: h2.
  Let st := state_after cfg b du h1.
  Let r := reg_after h1 (map obs_of (run cfg b du h1)).
  Let log := log_of_events (P_Once.run_events cfg b du h1).

  Hypothesis Hs : wf_scopes h = true.
  Hypothesis Hk : P_Term.wf_keys h = true.
  Hypothesis Hkk : hist_kinds_ok h = true.
  Hypothesis Hg : wf_gkeys h = true.
  Hypothesis Hf : P_Once.wf_fns h = true.

  (* the converse of 401 for the missing-dependency class: in a decorator-free
     registry an Invoke reports missing dependencies only if some required
     dependency is indeed unavailable *)
  Theorem run_md_unavailable e :
    r_decs r = [] -> fst (invoke cfg b du st s p) = VErr e -> has_missingdeps e = true ->
    forallb (avail_leaf r (built_of log) s) (sig_leaves (ii_sig p)) = false.
  Proof.
    intros Hnodec Hv Hmd.
    assert (HC : CH4 st (OInvoke s p :: h2)).
    { apply CH4_run_from; [exact Hdry|]. split; [apply CH3_init; assumption|]. split; [apply GKI_init|exact Hg]. }
    pose proof (run_RegRel cfg b du h1 s p h2 Hs) as HR. fold st r in HR.
    destruct HC as ((HG & (HRI & _ & Hk') & HI & _ & r0 & HR0 & Hr0 & HU0) & HK & Hg').
    unfold P_Term.wf_keys in Hk'. cbn [forallb P_Term.op_keys_ok] in Hk'. apply andb_true_iff in Hk' as [Hko _].
    unfold wf_gkeys in Hg'. cbn [forallb op_gkeys_ok] in Hg'. apply andb_true_iff in Hg' as [Hgo _].
    assert (HU : UR r) by (eapply UR_ctors; [|exact HU0]; rewrite (rr_ctors HR), (rr_ctors HR0); reflexivity).
    assert (Hr : reg_kinds_ok r) by exact (P_Keys.reg_kinds_RegRel st r0 r HR0 HR Hr0).
    assert (Hio : P_Once.inv_once st) by apply HG.
    destruct (invoke_md cfg b du r _ Hnodec HU Hr st s p e HRI HR HI (AvI_start st r Hio HR) (BI_start st Hio) HK
                Hko Hgo Hv Hmd) as (l & Hl & Hnl).
    unfold log. rewrite <- (run_log cfg b du h1).
    destruct (forallb (avail_leaf r (built_of (log_of_events (rev (st_log st)))) s) (sig_leaves (ii_sig p))) eqn:E; [|exact E].
    exfalso. apply Hnl. rewrite forallb_forall in E.
    apply (avail_leaf_char r _ (reg_fns_NoDup st r Hio HR)). apply E. exact Hl.
  Qed.
End RunLevel4.
Print Assumptions run_md_unavailable.


(* ===================================================================== *)
(* Part 6 : code 402 (liveness), decorator-free registries                 *)
(* ===================================================================== *)

(* ---------- a missing-type root always comes with the errMissingDependencies link ---------- *)

Definition is_missing_root (x : eroot) : bool := match x with RMissing _ => true | _ => false end.

Lemma has_provider_skel X Y v k : skel Y = skel X -> has_provider Y v k = has_provider X v k.
Proof.
  intros E. apply skel_eq_fields in E. destruct E.
  unfold has_provider, providers_on_path, providers_at, path. rewrite sf_len.
  assert (Hp : forall f s, path_fuel f Y s = path_fuel f X s).
  { induction f as [|f IHf]; intros s0; cbn [path_fuel]; [reflexivity|]. rewrite sf_parent.
    destruct (s_parent (get_scope X s0)); [rewrite IHf|]; reflexivity. }
  rewrite Hp. f_equal. f_equal. apply flat_map_ext. intros a. rewrite sf_providers. reflexivity.
Qed.

Lemma has_provider_pres X Y v k : pres X Y -> has_provider Y v k = has_provider X v k.
Proof. intros [E _]. apply has_provider_skel. exact E. Qed.

Lemma find_provider_PNone st k : forall bs,
  find_provider st bs k = PNone -> forall b0, In b0 bs -> providers_at st b0 k = [].
Proof.
  induction bs as [|a bs IHb]; cbn [find_provider]; intros H b0 Hin; [destruct Hin|].
  destruct (alookup key_eqb k (s_values (get_scope st a))); [discriminate|].
  destruct (providers_at st a k) as [|n0 ns0] eqn:E; [|discriminate].
  destruct Hin as [<-|Hin]; [exact E|apply IHb; assumption].
Qed.

Section S5.
  Variables (cfg : config) (b : beh) (du : dur) (r : registry).
  Hypothesis Hnodec : r_decs r = [].

  Definition req_ok (st : state) (v : sid) (ls : list pleaf) : Prop :=
    forall k, In (LSingle k false) ls -> has_provider st v k = true.

  Definition pre5 (t : task) (st : state) : Prop :=
    match t with
    | TLeaf v l => req_ok st v [l]
    | TLeaves v ls => req_ok st v ls
    | _ => True
    end.

  Definition mdroot (x : res (list arg)) : Prop :=
    match x with Fail e => is_missing_root (e_root e) = true -> has_missingdeps e = true | _ => True end.

  Definition P5 (t : task) (st : state) (o : out) : Prop :=
    P_Term.tpre t st -> Ctx3 r st -> pre5 t st -> mdroot (fst o).

  Lemma req_ok_pres X Y v ls : pres X Y -> req_ok X v ls -> req_ok Y v ls.
  Proof. intros HP H k Hk. rewrite (has_provider_pres X Y v k HP). apply H. exact Hk. Qed.

  Lemma shallow_req_ok st v ls :
    RegRel st r -> DVI st -> shallow_missing st v ls = [] -> req_ok st v ls.
  Proof.
    intros HR HD Hs k Hk. unfold shallow_missing in Hs.
    assert (H : (if has_provider st v k || is_some (alookup key_eqb k (s_dvalues (get_scope st v)))
                 then [] else [k]) = []).
    { clear -Hs Hk. induction ls as [|x t IH]; [destruct Hk|].
      cbn [flat_map] in Hs. apply app_eq_nil in Hs as [H1 H2].
      destruct Hk as [->|Hk]; [exact H1|apply IH; assumption]. }
    rewrite (proj1 (no_dc r Hnodec st v k HR HD)) in H. cbn [is_some] in H. rewrite orb_false_r in H.
    destruct (has_provider st v k); [reflexivity|discriminate H].
  Qed.

  Section Step5.
    Variable fuel : nat.
    Let rec := eval cfg b du fuel.
    Hypothesis IH : forall t st, P5 t st (rec t st).

    Let F_PT : forall t st, P_Term.PT t st (rec t st) := P_Term.eval_PT cfg b du fuel.
    Let F_pres : forall t st, pres st (snd (rec t st)) := eval_pres cfg b du fuel.

    Lemma ctx3_rec5 t st : P_Term.tpre t st -> Ctx3 r st -> Ctx3 r (snd (rec t st)).
    Proof. apply (ctx3_rec cfg b du r fuel). Qed.

    Lemma s5_call_ctors : forall ns st,
      (forall n, In n ns -> n < length (st_nodes st)) -> Ctx3 r st ->
      match fst (call_ctors rec ns st) with
      | LFail _ e => is_missing_root (e_root e) = true -> has_missingdeps e = true
      | _ => True
      end.
    Proof.
      induction ns as [|n t IHn]; intros st Hr HC; cbn [call_ctors]; [exact I|].
      pose proof (ctx3_rec5 (TCallCtor n) st (Hr n (or_introl eq_refl)) HC) as C1.
      pose proof (IH (TCallCtor n) st (Hr n (or_introl eq_refl)) HC I) as H1. unfold mdroot in H1.
      pose proof (F_pres (TCallCtor n) st) as Hp.
      destruct (rec (TCallCtor n) st) as [[x|e|a] st1]; cbn [fst snd] in *; [|exact H1|exact I].
      destruct (P_Term.pres_lens _ _ Hp) as (L1 & _ & _).
      apply IHn; [|exact C1]. intros m Hm. rewrite L1. apply Hr. right. exact Hm.
    Qed.

    Lemma s5_build_list v : forall ls st, forallb P_Term.leaf_ok ls = true -> Ctx3 r st -> req_ok st v ls ->
      mdroot (fst (build_list rec v ls st)).
    Proof.
      induction ls as [|l t IHl]; intros st Hl HC Hq; cbn [build_list]; [exact I|].
      cbn [forallb] in Hl. apply andb_true_iff in Hl as [Hl Ht].
      pose proof (ctx3_rec5 (TLeaf v l) st Hl HC) as C1.
      assert (Hq1 : pre5 (TLeaf v l) st) by (intros k [E|[]]; apply Hq; left; exact E).
      pose proof (IH (TLeaf v l) st Hl HC Hq1) as H1. unfold mdroot in H1.
      pose proof (F_pres (TLeaf v l) st) as Hp.
      destruct (rec (TLeaf v l) st) as [[x|e|a] st1]; cbn [fst snd] in *; [|exact H1|exact I].
      assert (Hq2 : req_ok st1 v t) by (eapply req_ok_pres; [exact Hp|]; intros k Hk; apply Hq; right; exact Hk).
      specialize (IHl st1 Ht C1 Hq2).
      destruct (build_list rec v t st1) as [[x2|e2|a2] st2]; cbn [fst] in *; [exact I|exact IHl|exact I].
    Qed.

    Lemma s5_evalF t st : P5 t st (evalF cfg b du rec t st).
    Proof.
      destruct t as [v [k opt|k soft]|v ls|n|d]; cbn [evalF]; intros Hpre HC Hq;
        pose proof HC as (HG & HR & (HD & HCV)).
      - (* single *)
        cbn [P_Term.tpre P_Term.leaf_ok] in Hpre. apply Nat.eqb_eq in Hpre.
        unfold build_single. rewrite (find_dec_none r Hnodec st v k HR).
        rewrite (find_map_all_none (fun s => alookup key_eqb k (s_dvalues (get_scope st s))) (path st v))
          by (intros x; apply (no_dc r Hnodec st x k HR HD)).
        destruct (find_provider st (path st v) k) as [a|bsc ns|] eqn:EP; [exact I| |].
        + pose proof (P_Events.find_provider_PProv _ _ _ _ _ EP) as Ens.
          assert (Hr : forall n, In n ns -> n < length (st_nodes st)).
          { intros n Hn. rewrite Ens in Hn. eapply P_Term.prov_range; [apply HG|exact Hn]. }
          pose proof (s5_call_ctors ns st Hr HC) as H1.
          destruct (call_ctors rec ns st) as [[|c e|a] st1]; cbn [fst snd] in *.
          * destruct (alookup key_eqb k (s_values (get_scope st1 bsc))); exact I.
          * destruct (opt && has_missingdeps e); [exact I|]. cbn [fst mdroot].
            cbn [has_missingdeps wrap e_links e_root existsb is_missingdeps orb]. exact H1.
          * exact I.
        + destruct opt; [exact I|]. exfalso.
          assert (Hhp : has_provider st v k = true) by (apply Hq; left; reflexivity).
          unfold has_provider, providers_on_path in Hhp.
          assert (E0 : flat_map (fun b0 => providers_at st b0 k) (path st v) = []).
          { pose proof (find_provider_PNone st k _ EP) as Hall. clear -Hall.
            induction (path st v) as [|b0 t IHt]; [reflexivity|]. cbn [flat_map].
            rewrite (Hall b0 (or_introl eq_refl)). apply IHt. intros b1 Hb1. apply Hall. right. exact Hb1. }
          rewrite E0 in Hhp. discriminate Hhp.
      - (* group *)
        unfold build_group. rewrite (call_group_decs_nodec r Hnodec rec st k HR).
        rewrite (find_map_all_none (fun s => alookup key_eqb k (s_dgroups (get_scope st s))) (path st v))
          by (intros x; apply (no_dc r Hnodec st x k HR HD)).
        destruct soft; [exact I|].
        assert (Hr : forall n, In n (providers_on_path st v k) -> n < length (st_nodes st)).
        { intros n Hn. destruct HG as ([_ HBI] & _). eapply pop_bound; eauto. }
        pose proof (s5_call_ctors _ st Hr HC) as H1.
        destruct (call_ctors rec (providers_on_path st v k) st) as [[|c e|a] st1]; cbn [fst snd] in *;
          [exact I| |exact I].
        cbn [mdroot has_missingdeps wrap e_links e_root existsb is_missingdeps orb]. exact H1.
      - apply s5_build_list; assumption.
      - (* constructor *)
        cbn [P_Term.tpre] in Hpre. unfold call_ctor.
        destruct (c_called (get_node st n)); [exact I|].
        destruct (c_onstack (get_node st n)); [cbn; discriminate|].
        set (c := get_node st n). set (st0 := set_onstack st n true).
        assert (C0 : Ctx3 r st0).
        { split; [apply P_Term.G_push_node; exact HG|].
          split; [eapply RegRel_pres; [apply pres_set_onstack|exact HR]|].
          eapply I2_quiet; [apply (quiet_set_onstack r)|split; assumption]. }
        destruct (shallow_missing st0 (c_orig c) (sig_leaves (c_sig c))) as [|k0 ks] eqn:ES; [|cbn; reflexivity].
        assert (Hsig : P_Term.wf_sig (c_sig c) = true) by (destruct HG as (_ & HK & _); apply (P_Term.ki_nsig HK)).
        assert (Hq0 : pre5 (TLeaves (c_orig c) (sig_build_seq (c_sig c))) st0).
        { intros k Hk. apply build_seq_sound in Hk.
          apply (shallow_req_ok st0 _ _ (proj1 (proj2 C0)) (proj1 (proj2 (proj2 C0))) ES k Hk). }
        pose proof (IH (TLeaves (c_orig c) (sig_build_seq (c_sig c))) st0 (P_Term.wf_sig_build_seq _ Hsig) C0 Hq0) as H1.
        unfold mdroot in H1.
        destruct (rec (TLeaves (c_orig c) (sig_build_seq (c_sig c))) st0) as [[built|e|a] st1]; cbn [fst snd] in *.
        + destruct (run_fn cfg b du RoleCtor (c_fn c) (place (sig_order (c_sig c)) built) st1) as [[o e] st2].
          destruct o as [lens| |]; [| |destruct (cfg_recover cfg)]; cbn; try exact I; discriminate.
        + cbn [mdroot has_missingdeps wrap e_links e_root existsb is_missingdeps orb]. exact H1.
        + exact I.
      - destruct Hpre as [Hd _]. rewrite (nodecs r Hnodec st HR) in Hd. cbn in Hd. lia.
    Qed.
  End Step5.

  Theorem eval_mdroot fuel : forall t st, P5 t st (eval cfg b du fuel t st).
  Proof.
    induction fuel as [|f IHf]; intros t st; cbn [eval].
    - intros _ _ _. exact I.
    - apply s5_evalF. exact IHf.
  Qed.

  (* Invoke: a missing-type verdict carries the errMissingDependencies link *)
  Theorem invoke_mdroot st s p e :
    P_Term.RI st -> RegRel st r -> I2 st ->
    forallb P_Term.leaf_ok (sig_leaves (ii_sig p)) = true ->
    fst (invoke cfg b du st s p) = VErr e -> is_missing_root (e_root e) = true -> has_missingdeps e = true.
  Proof.
    intros HRI HR HI Hl. pose proof HRI as (S0 & K0 & V0 & Q0).
    assert (TAIL : forall st1, Ctx3 r st1 -> req_ok st1 s (sig_leaves (ii_sig p)) ->
      fst (match eval cfg b du (eval_fuel st1) (TLeaves s (sig_build_seq (ii_sig p))) st1 with
           | (Fail e, st2) => (VErr (wrap LArgsFailed e), st2)
           | (Abort a, st2) => (VAbort a, st2)
           | (Done built, st2) =>
               let args := place (sig_order (ii_sig p)) built in
               match run_fn cfg b du RoleInv (ii_fn p) args st2 with
               | (OOk _, _, st3) => (VOk, st3)
               | (OErr, e, st3) => (VErr (mkErr [] (RUser (ii_fn p) e)), st3)
               | (OPanic, e, st3) =>
                   if cfg_recover cfg then (VErr (mkErr [] (RPanic (ii_fn p) e)), st3)
                   else (VAbort (APanicked (ii_fn p) e), st3)
               end
           end) = VErr e -> is_missing_root (e_root e) = true -> has_missingdeps e = true).
    { intros st1 HC Hq.
      assert (Hq' : pre5 (TLeaves s (sig_build_seq (ii_sig p))) st1)
        by (intros k Hk; apply Hq; apply build_seq_sound; exact Hk).
      pose proof (eval_mdroot (eval_fuel st1) (TLeaves s (sig_build_seq (ii_sig p))) st1
                    (P_Term.leaves_build_seq _ Hl) HC Hq') as H5.
      unfold mdroot in H5.
      destruct (eval cfg b du (eval_fuel st1) (TLeaves s (sig_build_seq (ii_sig p))) st1) as [[x|e0|a] st2];
        cbn [fst snd] in *.
      - cbn zeta. destruct (run_fn cfg b du RoleInv (ii_fn p) _ st2) as [[o x0] st3].
        destruct o; [discriminate| |destruct (cfg_recover cfg); [|discriminate]];
          cbn [fst]; intros [= <-]; cbn; discriminate.
      - intros [= <-]. cbn [has_missingdeps wrap e_links e_root existsb is_missingdeps orb]. exact H5.
      - discriminate. }
    unfold invoke. destruct (shallow_missing st s (sig_leaves (ii_sig p))) as [|k0 ks] eqn:ES.
    2:{ cbn [fst]. intros [= <-] _. reflexivity. }
    pose proof (shallow_req_ok st s _ HR (proj1 HI) ES) as Hq.
    destruct (s_verified (get_scope st s)).
    - apply TAIL; [|exact Hq]. split; [split; [exact S0|split; assumption]|split; assumption].
    - destruct (is_acyclic (scope_graph st s)) as [[[|] x]|].
      + pose proof (P_Term.RI_set_verified st s true HRI) as (S1 & K1 & V1 & Q1).
        apply TAIL.
        * split; [split; [exact S1|split; assumption]|].
          split; [eapply RegRel_skel; [|exact HR]; symmetry; apply skel_upd_verified|].
          apply I2_set_verified. exact HI.
        * intros k Hk. rewrite <- (Hq k Hk). apply has_provider_skel. apply skel_upd_verified.
      + cbn [fst]. intros [= <-]. cbn. discriminate.
      + cbn [fst]. discriminate.
  Qed.
End S5.
Print Assumptions eval_mdroot.
Print Assumptions invoke_mdroot.

(* ---------- the checker: nothing fires ---------- *)

Lemma overdict_err v ls q : overdict_of v = OVErr ls q -> exists e, v = VErr e /\ rkind_of (e_root e) = q.
Proof. destruct v as [|e|[f e|c|]]; cbn; try discriminate. intros [= _ <-]. exists e. auto. Qed.

Lemma part2_cond (ov : overdict) (cond : bool) c :
  In c (if cond then match ov with OVOk => [] | _ => [402] end else []) -> cond = true /\ ov <> OVOk.
Proof.
  destruct cond; [|intros []]. intros H. split; [reflexivity|]. intros ->. destruct H.
Qed.

(* with the invariants of P_C05 (graph holders, distinct decorator functions) *)
Definition CH5 (st : state) (h : history) : Prop := CH4 st h /\ P_C05.GW st h.

Lemma CH5_step cfg b du st o h :
  cfg_dry cfg = false -> CH5 st (o :: h) -> CH5 (snd (step cfg b du st o)) h.
Proof.
  intros Hdry [H4 [H0 HD]]. split; [apply CH4_step; assumption|].
  split; [apply P_C05.GW0_step; exact H0|apply P_C05.DFH_step; exact HD].
Qed.

Lemma CH5_init h :
  wf_scopes h = true -> P_Term.wf_keys h = true -> hist_kinds_ok h = true -> wf_gkeys h = true ->
  P_Once.wf_fns h = true -> CH5 init_state h.
Proof.
  intros Hs Hk Hkk Hg Hf. split.
  - split; [apply CH3_init; assumption|]. split; [apply GKI_init|exact Hg].
  - split; [apply P_C05.GW0_init; assumption|].
    unfold P_C05.DFH. cbn [init_state st_decs map app]. apply P_Once.nodupb_NoDup.
    apply P_C05.wf_fns_dec_fns. exact Hf.
Qed.

Section Final5.
  Variables (cfg : config) (b : beh) (du : dur).
  Hypothesis Hdry : cfg_dry cfg = false.

  Lemma missing_op_none st o h r new c :
    CH5 st (o :: h) -> RegRel st r ->
    st_log (snd (step cfg b du st o)) = new ++ st_log st ->
    In c (chk_missing_op r (log_of_events (rev (st_log st))) o
            (mkOObs (overdict_of (fst (step cfg b du st o))) (rev new))) -> False.
  Proof.
    intros [[H3 [HK Hg]] [(HRI0 & HGN & HHO & _) HDF]] HR L Hin.
    pose proof (missing_op_strong cfg b du st o h r new c H3 HR L Hin) as ->.
    destruct o as [q|s p|s p|s p|bk s f]; try destruct Hin. cbn [step] in *.
    pose proof H3 as (HG & HT & HI & _ & r0 & HR0 & Hr0 & HU0).
    pose proof HT as (HRI & _ & Hk).
    pose proof (P_Term.TH_step cfg b du st (OInvoke s p) h HT) as [_ Hvok]. cbn [step] in Hvok.
    unfold P_Term.wf_keys in Hk. cbn [forallb P_Term.op_keys_ok] in Hk. apply andb_true_iff in Hk as [Hko _].
    unfold wf_gkeys in Hg. cbn [forallb op_gkeys_ok] in Hg. apply andb_true_iff in Hg as [Hgo _].
    unfold chk_missing_op in Hin. cbv zeta in Hin. cbn [oo_verdict oo_events] in Hin.
    apply in_app_or in Hin as [Hin|Hin]; [|apply in_app_or in Hin as [Hin|Hin]].
    - apply part1_cases in Hin; [destruct Hin as (Hc & _); discriminate Hc|].
      intros Hnf. apply negb_true_iff in Hnf. apply (invoke_403 cfg b du st s p new Hvok L Hnf).
    - apply part2_cond in Hin as [Hcond Hov].
      apply andb_true_iff in Hcond as [Hcond Hacyc]. apply andb_true_iff in Hcond as [Hcond Hnf].
      apply andb_true_iff in Hcond as [Hav Hnd]. apply negb_true_iff in Hnf.
      pose proof (invoke_403 cfg b du st s p new Hvok L Hnf) as H403.
      assert (Hnodec : r_decs r = []) by (destruct (r_decs r); [reflexivity|discriminate Hnd]).
      assert (HU : UR r) by (eapply UR_ctors; [|exact HU0]; rewrite (rr_ctors HR), (rr_ctors HR0); reflexivity).
      assert (Hr : reg_kinds_ok r) by exact (P_Keys.reg_kinds_RegRel st r0 r HR0 HR Hr0).
      assert (Hio : P_Once.inv_once st) by apply HG.
      destruct (overdict_of (fst (invoke cfg b du st s p))) as [|ls [| | | |f e|f e|]|f e| |] eqn:Eov;
        try destruct H403; [apply Hov; reflexivity| |].
      + (* missing type: then something is unavailable *)
        apply overdict_err in Eov as (e & Ev & Hq).
        assert (Hroot : is_missing_root (e_root e) = true) by (destruct (e_root e); try discriminate Hq; reflexivity).
        pose proof (invoke_mdroot cfg b du r Hnodec st s p e HRI HR HI Hko Ev Hroot) as Hmd.
        destruct (invoke_md cfg b du r _ Hnodec HU Hr st s p e HRI HR HI (AvI_start st r Hio HR) (BI_start st Hio) HK
                    Hko Hgo Ev Hmd) as (l & Hl & Hnl).
        apply Hnl. rewrite forallb_forall in Hav.
        apply (avail_leaf_char r _ (reg_fns_NoDup st r Hio HR)). apply Hav. exact Hl.
      + (* cycle: then even the most permissive graph is cyclic *)
        apply overdict_err in Eov as (e & Ev & Hq).
        assert (Hroot : e_root e = RCycle) by (destruct (e_root e); try discriminate Hq; reflexivity).
        rewrite (P_C05.invoke_cycle_perm cfg b du st r s p e HRI HR HGN (P_C05.DFH_DF _ _ HDF) HHO Hko Ev Hroot) in Hacyc.
        discriminate Hacyc.
    - destruct (forallb _ (rev new)); cbn in Hin; [destruct Hin|destruct Hin as [Hc|[]]; discriminate Hc].
  Qed.

  (* MAIN: on the runs of the model the availability checker reports nothing:
     codes 401, 402, 403, 404 never fire *)
  Theorem chk_missing_nil h :
    wf_scopes h = true -> P_Term.wf_keys h = true -> hist_kinds_ok h = true -> wf_gkeys h = true ->
    P_Once.wf_fns h = true ->
    walk chk_missing_op 0 reg0 [] h (map obs_of (run cfg b du h)) = [].
  Proof.
    intros Hs Hk Hkk Hg Hf. apply P_Term.viols_nil. intros i c. unfold run.
    change (@nil lentry) with (log_of_events (rev (st_log init_state))).
    apply (walk_run_from_reg cfg b du CH5 chk_missing_op (fun _ => False)).
    - intros st o h'. apply CH5_step. exact Hdry.
    - intros st o h' [[H3 _] _]. apply (CH2_wf st o h' (CH3_CH2 _ _ H3)).
    - intros st o h' r new HC HR L c' Hc. eapply missing_op_none; eauto.
    - apply CH5_init; assumption.
    - apply RegRel_init.
  Qed.
End Final5.
Print Assumptions chk_missing_nil.

Section WithProv5.
  Variables (cfg : config) (bt : list (fnid * list outcome)) (du : dur) (h : history).
  Let obs := map obs_of (run cfg (beh_of bt) du h).
  Hypothesis Hprov : forall i c, In (i, c) (chk_prov bt h obs) -> c = 112 \/ c = 132 \/ c = 123.

  (* chk_C04 on model runs: only what the provenance checker leaves *)
  Theorem chk_C04_model :
    cfg_dry cfg = false ->
    wf_scopes h = true -> P_Term.wf_keys h = true -> hist_kinds_ok h = true -> wf_gkeys h = true ->
    P_Once.wf_fns h = true ->
    forall i c, In (i, c) (chk_C04 cfg bt h obs) -> c = 112 \/ c = 132 \/ c = 123.
  Proof.
    intros Hdry Hs Hk Hkk Hg Hf i c Hin. unfold chk_C04 in Hin.
    apply in_app_or in Hin as [Hin|Hin]; [|apply in_app_or in Hin as [Hin|Hin]].
    - exfalso.
      assert (E : walk (fun r log o ob => chk_missing_op r log o ob) 0 reg0 [] h obs = [])
        by (apply (chk_missing_nil cfg (beh_of bt) du Hdry h Hs Hk Hkk Hg Hf)).
      rewrite E in Hin. destruct Hin.
    - apply Hprov in Hin. exact Hin.
    - exfalso.
      assert (H7 : In (i, c) (chk_C07 cfg h obs)).
      { unfold chk_C07. revert Hin. apply walk_incl. intros r log o ob c' Hc'. apply in_or_app. right. exact Hc'. }
      unfold obs in H7. rewrite P_Once.chk_C07_nil in H7. destruct H7.
  Qed.
End WithProv5.
Print Assumptions chk_C04_model.

(* ===================================================================== *)
(* Examples (vm_compute)                                                  *)
(* ===================================================================== *)

Module C04Example.
  Definition cfg0 : config := mkConfig false false false.
  Definition bt0 : list (fnid * list outcome) := [].
  Definition du0 : dur := fun _ _ => 0%N.
  Definition K (i : nat) : key := KV i 0.
  Definition J (i : nat) : key := KV (10 + i) 0.

  (* a chain of depth 4 whose leaf dependency K0 nobody provides:
     f_i : K(i-1) -> K i (required edges);  g_i : optional K i -> J i *)
  Definition f (i : nat) : provide_in :=
    mkProvideIn i (mkSig [PSingle (K (i - 1)) false] [RSingle (K i) []] false) false false.
  Definition g (i : nat) : provide_in :=
    mkProvideIn (10 + i) (mkSig [PSingle (K i) true] [RSingle (J i) []] false) false false.

  Definition regs : history :=
    [OProvide 0 (f 1); OProvide 0 (f 2); OProvide 0 (f 3); OProvide 0 (f 4);
     OProvide 0 (g 1); OProvide 0 (g 2); OProvide 0 (g 3); OProvide 0 (g 4)].

  Definition inv (fn : fnid) (ps : list param) : op := OInvoke 0 (mkInvokeIn fn (mkSig ps [] false)).

  Definition hist : history :=
    regs ++
    [inv 21 [PSingle (K 4) false];                 (* required, top of the chain    : missing *)
     inv 22 [PSingle (K 4) true];                  (* optional                       : zero    *)
     inv 23 [PSingle (K 2) false];                 (* required, middle of the chain  : missing *)
     inv 24 [PSingle (J 1) false; PSingle (J 2) false; PSingle (J 3) false; PSingle (J 4) false];
                                                   (* through the optional consumers : all run with zero *)
     inv 25 [PSingle (K 1) false; PSingle (J 4) false]].   (* mixed : missing *)

  Definition obs : list oobs := map obs_of (run cfg0 (beh_of bt0) du0 hist).
  Definition r_end : registry := reg_after hist obs.

  Example wf : wf_scopes hist = true /\ P_Term.wf_keys hist = true /\ hist_kinds_ok hist = true /\
               wf_gkeys hist = true /\ P_Once.wf_fns hist = true.
  Proof. vm_compute. repeat split. Qed.

  (* f1 is directly missing; the chain above it is unavailable; the optional
     consumers are available *)
  Example ex_avail : avail_set r_end [] = [11; 12; 13; 14].
  Proof. vm_compute. reflexivity. Qed.

  Example ex_direct : map (directly_missing r_end) (r_ctors r_end) =
                      [true; false; false; false; false; false; false; false].
  Proof. vm_compute. reflexivity. Qed.

  Example ex_verdicts :
    map oo_verdict (skipn 8 obs) =
    [OVErr [KArgs; KParamSingle; KArgs; KParamSingle; KArgs; KParamSingle; KArgs; KParamSingle; KMissingDeps] QMissing;
     OVOk;
     OVErr [KArgs; KParamSingle; KArgs; KParamSingle; KMissingDeps] QMissing;
     OVOk;
     OVErr [KArgs; KParamSingle; KMissingDeps] QMissing].
  Proof. vm_compute. reflexivity. Qed.

  (* the optional parameters received the zero value; nothing of the chain ran *)
  Example ex_events :
    map oo_events (skipn 8 obs) =
    [[];
     [EExec 22 0 RoleInv [ASingle AZero] (OOk [])];
     [];
     [EExec 11 0 RoleCtor [ASingle AZero] (OOk []);
      EExec 12 0 RoleCtor [ASingle AZero] (OOk []);
      EExec 13 0 RoleCtor [ASingle AZero] (OOk []);
      EExec 14 0 RoleCtor [ASingle AZero] (OOk []);
      EExec 24 0 RoleInv [ASingle (AProd 11 0 0 0); ASingle (AProd 12 0 0 0);
                          ASingle (AProd 13 0 0 0); ASingle (AProd 14 0 0 0)] (OOk [])];
     []].
  Proof. vm_compute. reflexivity. Qed.

  Example ex_chk : chk_C04 cfg0 bt0 hist obs = [].
  Proof. vm_compute. reflexivity. Qed.

  (* the theorem applies (non-vacuity of the hypotheses) *)
  Example ex_thm : walk chk_missing_op 0 reg0 [] hist obs = [].
  Proof.
    destruct wf as (A & B & C & D & E).
    exact (chk_missing_nil cfg0 (beh_of bt0) du0 eq_refl hist A B C D E).
  Qed.

  (* ---- the hypothesis [cfg_dry cfg = false] cannot be dropped: a dry
     container executes nothing, so the checker's log stays empty, while the
     model does cache (zero) values.  C is built from A; then a nearer provider
     B of C's dependency with a missing dependency is registered; the cached
     result of C still satisfies the second Invoke.  Code 401 fires on the
     model's own dry trace. ---- *)
  Definition pr (fn : fnid) (ins : list nat) (out : nat) : provide_in :=
    mkProvideIn fn (mkSig (map (fun i => PSingle (K i) false) ins) [RSingle (K out) []] false) false false.
  Definition hist_dry : history :=
    [OScope 0;
     OProvide 0 (pr 1 [] 1);                                      (* A : K1, root *)
     OProvide 1 (pr 2 [1] 2);                                     (* C : K1 -> K2, child scope *)
     OInvoke 1 (mkInvokeIn 10 (mkSig [PSingle (K 2) false] [] false));
     OProvide 1 (pr 3 [0] 1);                                     (* B : K0 -> K1, child scope *)
     OInvoke 1 (mkInvokeIn 11 (mkSig [PSingle (K 2) false] [] false))].
  Definition dry : config := mkConfig false false true.

  Example ex_dry_401 :
    chk_C04 dry [] hist_dry (map obs_of (run dry (beh_of []) du0 hist_dry)) = [(5, 401)] /\
    chk_C04 cfg0 [] hist_dry (map obs_of (run cfg0 (beh_of []) du0 hist_dry)) = [].
  Proof. vm_compute. split; reflexivity. Qed.

  (* ---- the hypothesis [wf_gkeys] cannot be dropped for code 402: the model's
     key is the bare triple, so a GROUP parameter may carry a group-less key
     under which a SINGLE result is registered; getAllGroupProviders then calls
     that constructor although it is not a feeder.  (In Go a group parameter
     always has a non-empty group name.) ---- *)
  Definition hist_gk : history :=
    [OProvide 0 (mkProvideIn 1 (mkSig [PSingle (K 0) false] [RSingle (K 5) []] false) false false);
     OProvide 0 (mkProvideIn 2 (mkSig [PGroup (K 5) false] [RSingle (K 6) []] false) false false);
     OInvoke 0 (mkInvokeIn 10 (mkSig [PSingle (K 6) false] [] false))].

  Example ex_gkeys_402 :
    (wf_scopes hist_gk, P_Term.wf_keys hist_gk, hist_kinds_ok hist_gk, wf_gkeys hist_gk, P_Once.wf_fns hist_gk)
      = (true, true, true, false, true) /\
    chk_C04 cfg0 [] hist_gk (map obs_of (run cfg0 (beh_of []) du0 hist_gk)) = [(2, 402)].
  Proof. vm_compute. split; reflexivity. Qed.
End C04Example.
