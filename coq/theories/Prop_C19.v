(* Prop_C19.v — property theorems for C19, and nothing else. *)
From Dig Require Import Base Sig State Graph GraphProofs Register Resolve Run Spec Check
  ErrTable Err ErrTableCheck Dot RunViz DotText P_Frame P_Reg P_C19 P_DotText.
From Coq Require Import String.

(* ---- C19: after every operation the graph Visualize builds from the model
        state is the picture of the accepted registrations: one cluster per
        accepted constructor (none for rejected ones) in scope pre-order, with
        exactly its result nodes, one edge per declared dependency (dashed iff
        optional), one node per value group linked once to each member ---- *)
Theorem C19_structure_holds : forall cfg b du h, wf_scopes h = true ->
  chk_C19 h (map obs_of (run cfg b du h))
    (map (fun p => (fst p, snd p, true)) (viz_from cfg b du init_state h)) = [].
Proof. exact P_C19.chk_C19_nil. Qed.
Print Assumptions C19_structure_holds.

Theorem C19_clusters_exact : forall cfg b du h, wf_scopes h = true ->
  create_graph (state_after cfg b du h) = spec_graph (reg_after h (map obs_of (run cfg b du h))).
Proof. exact P_C19.clusters_exact_reachable. Qed.
Print Assumptions C19_clusters_exact.

Theorem C19_nothing_marked_without_error : forall r,
  let od := odot_of (spec_graph r) in
  od_roots od = [] /\ od_trans od = [] /\
  (forall c, In c (od_ctors od) -> oc_err c = ENoError) /\
  (forall x, In x (od_groups od) -> dg_err x = ENoError).
Proof. exact P_C19.spec_graph_nothing_failed. Qed.
Print Assumptions C19_nothing_marked_without_error.

(* CanVisualizeError is true exactly when the error carries graph information *)
Theorem C19_can_visualize_iff : forall st e, has_viz_link e = true <-> viz_steps st e <> [].
Proof. exact P_C19.can_viz_steps. Qed.
Print Assumptions C19_can_visualize_iff.

(* an Invoke rejected for missing types: only the missing keys remain, as root causes *)
Theorem C19_missing_marked_partial : forall st g e ks,
  viz_steps st e = [VSMissing ks] ->
  g_roots g = [] -> g_trans g = [] -> g_fctors g = [] -> g_fgroups g = [] ->
  odot_of (update_graph st g e) = mkOD [] [] [] (map key_result ks).
Proof. exact P_C19.update_graph_missing. Qed.
Print Assumptions C19_missing_marked_partial.

(* ---- C19, syntax.  DotText.render is the byte-for-byte model of visualizeGraph /
        visualizeGroup / visualizeCtor and of the String / Attributes methods of
        internal/dot (every run compares it with the text the implementation wrote).
        For EVERY names table (arbitrary type, name, group and function strings) and
        every graph, the text is the print of a DOT syntax tree whose leaves are well
        formed: quoted IDs are Go/DOT double-quoted tokens, bare IDs identifiers or
        numerals, HTML-like labels well-nested with escaped text ---- *)
Theorem C19_text_wellformed : forall nm g,
  render nm g = print_dot (ast_of nm g) /\ ast_wf (ast_of nm g) = true.
Proof. exact P_DotText.C19_text_wellformed. Qed.
Print Assumptions C19_text_wellformed.

(* the escaping theorems behind it (defect D11 was a missing html.EscapeString):
   every label built from arbitrary strings is well-formed HTML-like text *)
Theorem C19_result_labels_wellformed : forall nm r, html_label_ok (result_label nm r) = true.
Proof. exact P_DotText.result_label_ok. Qed.
Print Assumptions C19_result_labels_wellformed.

Theorem C19_group_labels_wellformed : forall nm g, html_label_ok (group_label nm g) = true.
Proof. exact P_DotText.group_label_ok. Qed.
Print Assumptions C19_group_labels_wellformed.

Theorem C19_html_escape_safe : forall s, text_safe (html_escape s) = true.
Proof. exact P_DotText.html_escape_safe. Qed.
Print Assumptions C19_html_escape_safe.

(* strconv.Quote as modelled: always a well-formed quoted token, and lossless *)
Theorem C19_quote_wellformed : forall s, dq_ok (go_quote s) = true.
Proof. exact P_DotText.dq_ok_go_quote. Qed.
Print Assumptions C19_quote_wellformed.

Theorem C19_quote_roundtrip : forall s, go_unquote (go_quote s) = Some s.
Proof. exact P_DotText.go_unquote_quote. Qed.
Print Assumptions C19_quote_roundtrip.
