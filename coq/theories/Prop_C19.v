(* Prop_C19.v — property theorems for C19, and nothing else. *)
From Dig Require Import Base Sig State Graph GraphProofs Register Resolve Run Spec Check
  ErrTable Err ErrTableCheck Dot RunViz P_Frame P_Reg P_C19.

(* ---- C19: after every operation the graph Visualize builds from the model
        state is the picture of the accepted registrations: one cluster per
        accepted constructor (none for rejected ones) in scope pre-order, with
        exactly its result nodes, one edge per declared dependency (dashed iff
        optional), one node per value group linked once to each member ---- *)
Theorem C19_structure_holds : forall cfg b du h, wf_scopes h = true ->
  chk_C19 h (map obs_of (run cfg b du h))
    (map (fun p => (fst p, snd p, true)) (viz_from cfg b du init_state h)) = [].
Proof. exact P_C19.chk_C19_nil. Qed.
Print Assumptions C19_structure_holds.

Theorem C19_clusters_exact : forall cfg b du h, wf_scopes h = true ->
  create_graph (state_after cfg b du h) = spec_graph (reg_after h (map obs_of (run cfg b du h))).
Proof. exact P_C19.clusters_exact_reachable. Qed.
Print Assumptions C19_clusters_exact.

Theorem C19_nothing_marked_without_error : forall r,
  let od := odot_of (spec_graph r) in
  od_roots od = [] /\ od_trans od = [] /\
  (forall c, In c (od_ctors od) -> oc_err c = ENoError) /\
  (forall x, In x (od_groups od) -> dg_err x = ENoError).
Proof. exact P_C19.spec_graph_nothing_failed. Qed.
Print Assumptions C19_nothing_marked_without_error.

(* CanVisualizeError is true exactly when the error carries graph information *)
Theorem C19_can_visualize_iff : forall st e, has_viz_link e = true <-> viz_steps st e <> [].
Proof. exact P_C19.can_viz_steps. Qed.
Print Assumptions C19_can_visualize_iff.

(* an Invoke rejected for missing types: only the missing keys remain, as root causes *)
Theorem C19_missing_marked_partial : forall st g e ks,
  viz_steps st e = [VSMissing ks] ->
  g_roots g = [] -> g_trans g = [] -> g_fctors g = [] -> g_fgroups g = [] ->
  odot_of (update_graph st g e) = mkOD [] [] [] (map key_result ks).
Proof. exact P_C19.update_graph_missing. Qed.
Print Assumptions C19_missing_marked_partial.
